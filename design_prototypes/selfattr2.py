import ast, glob, os, collections
mods={}
for f in glob.glob('/repo/Cython/**/*.py', recursive=True)+glob.glob('/repo/pyximport/*.py'):
    if '/Tests/' in f: continue
    mods[f]=ast.parse(open(f).read())
defined=set()
for f,t in mods.items():
    for m in ast.walk(t):
        if isinstance(m,(ast.FunctionDef,ast.AsyncFunctionDef,ast.ClassDef)): defined.add(m.name)
        elif isinstance(m,(ast.Assign,)):
            for tg in m.targets:
                for x in ast.walk(tg):
                    if isinstance(x, ast.Name): defined.add(x.id)
                    if isinstance(x, ast.Attribute): defined.add(x.attr)
        elif isinstance(m,(ast.AnnAssign,ast.AugAssign)):
            x=m.target
            if isinstance(x, ast.Name): defined.add(x.id)
            if isinstance(x, ast.Attribute): defined.add(x.attr)
        elif isinstance(m, ast.arg): pass
        elif isinstance(m, ast.Call) and isinstance(m.func, ast.Name) and m.func.id=='setattr' and len(m.args)>=2 and isinstance(m.args[1], ast.Constant): defined.add(m.args[1].value)
        elif isinstance(m, ast.keyword) and m.arg: defined.add(m.arg)   # Node(pos, attr=...) sets attributes
for f,t in mods.items():
    for c in ast.walk(t):
        if isinstance(c, ast.Attribute) and isinstance(c.value, ast.Name) and c.value.id=='self' and isinstance(c.ctx, ast.Load):
            if c.attr not in defined and not c.attr.startswith('__'):
                print(os.path.relpath(f,'/repo'), c.lineno, 'self.'+c.attr)
