import ast, glob, os, collections
for f in sorted(glob.glob('/repo/Cython/Compiler/*.py')):
    t=ast.parse(open(f).read())
    for cls in [n for n in ast.walk(t) if isinstance(n, ast.ClassDef)]:
        allocated_attrs=collections.defaultdict(list); released_attrs=set()
        for m in [x for x in cls.body if isinstance(x, ast.FunctionDef)]:
            alloc={}  # local name -> lineno
            rel=set()
            for n in ast.walk(m):
                if isinstance(n, ast.Assign) and isinstance(n.value, ast.Call) and isinstance(n.value.func, ast.Attribute) and n.value.func.attr=='allocate_temp':
                    for tg in n.targets:
                        if isinstance(tg, ast.Name): alloc[tg.id]=n.lineno
                        elif isinstance(tg, ast.Attribute) and isinstance(tg.value, ast.Name) and tg.value.id=='self': allocated_attrs[tg.attr].append((m.name,n.lineno))
                        else: alloc[ast.unparse(tg)]=n.lineno
                if isinstance(n, ast.Call) and isinstance(n.func, ast.Attribute) and n.func.attr=='release_temp' and n.args:
                    a=n.args[0]
                    if isinstance(a, ast.Name): rel.add(a.id)
                    elif isinstance(a, ast.Attribute) and isinstance(a.value, ast.Name) and a.value.id=='self': released_attrs.add(a.attr)
                    else: rel.add(ast.unparse(a))
            for k,l in alloc.items():
                if k not in rel:
                    print('LOCAL-UNRELEASED', os.path.basename(f), cls.name, m.name, l, k)
        for a,sites in allocated_attrs.items():
            if a not in released_attrs:
                print('ATTR-UNRELEASED', os.path.basename(f), cls.name, a, sites)
