import ast, glob, os, sys
# conservative definite-assignment: track set of definitely-assigned names through structured statements
class DA(ast.NodeVisitor):
    def __init__(self, fn, fname):
        self.fn=fn; self.fname=fname; self.reports=[]
        self.globals=set(); self.all_assigned=set()
        for n in ast.walk(fn):
            if isinstance(n,(ast.Global,ast.Nonlocal)): self.globals|=set(n.names)
        for n in ast.walk(fn):
            if isinstance(n, ast.Name) and isinstance(n.ctx,(ast.Store,ast.Del)): self.all_assigned.add(n.id)
            if isinstance(n,(ast.FunctionDef,ast.ClassDef,ast.AsyncFunctionDef)) and n is not fn: self.all_assigned.add(n.name)
            if isinstance(n,(ast.Import,ast.ImportFrom)):
                for a in n.names: self.all_assigned.add((a.asname or a.name).split('.')[0])
            if isinstance(n, ast.ExceptHandler) and n.name: self.all_assigned.add(n.name)
        args=fn.args
        self.params={a.arg for a in args.args+args.kwonlyargs+args.posonlyargs}
        if args.vararg: self.params.add(args.vararg.arg)
        if args.kwarg: self.params.add(args.kwarg.arg)
    def uses(self, node, defined):
        for n in ast.walk(node):
            if isinstance(n,(ast.FunctionDef,ast.Lambda,ast.ClassDef)) and n is not node: continue
            if isinstance(n, ast.Name) and isinstance(n.ctx, ast.Load):
                if n.id in self.all_assigned and n.id not in defined and n.id not in self.params and n.id not in self.globals:
                    self.reports.append((n.lineno,n.id))
    def targets(self, node):
        out=set()
        for n in ast.walk(node):
            if isinstance(n, ast.Name) and isinstance(n.ctx, ast.Store): out.add(n.id)
        return out
    def block(self, stmts, defined):
        """returns (defined_after, terminates)"""
        d=set(defined)
        for s in stmts:
            d,term=self.stmt(s,d)
            if term: return d,True
        return d,False
    def stmt(self, s, d):
        if isinstance(s,(ast.Return,ast.Raise)):
            if getattr(s,'value',None) is not None: self.uses(s.value,d)
            if isinstance(s, ast.Raise) and s.exc is not None: self.uses(s.exc,d)
            return d,True
        if isinstance(s,(ast.Break,ast.Continue)): return d,True
        if isinstance(s, ast.If):
            self.uses(s.test,d)
            d1,t1=self.block(s.body,d); d2,t2=self.block(s.orelse,d)
            if t1 and t2: return d,True
            if t1: return d2,False
            if t2: return d1,False
            return d1&d2,False
        if isinstance(s,(ast.For,ast.AsyncFor)):
            self.uses(s.iter,d)
            db,_=self.block(s.body, d|self.targets(s.target))
            self.block(s.orelse,d)
            return d,False
        if isinstance(s, ast.While):
            self.uses(s.test,d); self.block(s.body,d); self.block(s.orelse,d)
            if isinstance(s.test, ast.Constant) and s.test.value:
                # while True: names assigned before any break... give up: assume all targets in body defined
                return d|self.targets(s),False
            return d,False
        if isinstance(s,(ast.With,ast.AsyncWith)):
            dd=set(d)
            for it in s.items:
                self.uses(it.context_expr,dd)
                if it.optional_vars is not None: dd|=self.targets(it.optional_vars)
            return self.block(s.body,dd)
        if isinstance(s, ast.Try):
            db,tb=self.block(s.body,d)
            outs=[]
            if not tb:
                do,to=self.block(s.orelse,db)
                if not to: outs.append(do)
            for h in s.handlers:
                dh=set(d)
                if h.name: dh.add(h.name)
                dh2,th=self.block(h.body,dh)
                if not th: outs.append(dh2)
            res=set.intersection(*outs) if outs else d
            if s.finalbody:
                res,tf=self.block(s.finalbody,res if outs else d)
                if tf: return res,True
            return res, not outs
        if isinstance(s,(ast.FunctionDef,ast.AsyncFunctionDef,ast.ClassDef)):
            return d|{s.name},False
        if isinstance(s,(ast.Import,ast.ImportFrom)):
            return d|{(a.asname or a.name).split('.')[0] for a in s.names},False
        if isinstance(s, ast.Assign):
            self.uses(s.value,d)
            t=set()
            for tg in s.targets:
                t|=self.targets(tg)
                # uses within subscripts/attributes of targets
                for n in ast.walk(tg):
                    if isinstance(n, ast.Name) and isinstance(n.ctx, ast.Load): self.uses(n,d)
            return d|t,False
        if isinstance(s, ast.AugAssign):
            self.uses(s.value,d)
            if isinstance(s.target, ast.Name):
                if s.target.id in self.all_assigned and s.target.id not in d and s.target.id not in self.params and s.target.id not in self.globals: self.reports.append((s.lineno,s.target.id))
            return d|self.targets(s.target),False
        if isinstance(s, ast.AnnAssign):
            if s.value is not None:
                self.uses(s.value,d); return d|self.targets(s.target),False
            return d,False
        if isinstance(s, ast.Delete): return d,False
        if isinstance(s, ast.Match):
            self.uses(s.subject,d); outs=[]
            for c in s.cases:
                dc=d|self.targets(c.pattern) if hasattr(c,'pattern') else d
                dd,t=self.block(c.body,dc)
                if not t: outs.append(dd)
            return (set.intersection(*outs)&d if outs else d),False
        # expression statements, assert, etc.
        self.uses(s,d)
        # walrus
        t=set()
        for n in ast.walk(s):
            if isinstance(n, ast.NamedExpr): t.add(n.target.id)
        return d|t,False
tot=0
for f in sorted(glob.glob('/repo/Cython/Compiler/*.py')+glob.glob('/repo/Cython/Build/*.py')+['/repo/Cython/Utils.py','/repo/Cython/CodeWriter.py']):
    t=ast.parse(open(f).read())
    for fn in [n for n in ast.walk(t) if isinstance(n,(ast.FunctionDef,))]:
        da=DA(fn,f)
        da.block(fn.body,set())
        seen=set()
        for ln,name in da.reports:
            if (name) in seen: continue
            seen.add(name); tot+=1
            print(f"{os.path.relpath(f,'/repo')}:{ln} {fn.name}: '{name}' possibly undefined")
print(tot)
