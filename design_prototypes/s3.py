import re, sys, collections
txt=open(sys.argv[1]).read()
# split into functions: header line (no leading space) followed by blocks
funcs=re.split(r'\n(?=[A-Za-z_][^\n]*\)\n \[B\d+ \(ENTRY\)\])', txt)
RAISE=re.compile(r'^\s*\d+: (PyErr_SetString|PyErr_Format|PyErr_SetNone|PyErr_SetObject|__Pyx_Raise\w*|__Pyx_Coroutine_AlreadyRunningError|__Pyx_Coroutine_AlreadyTerminatedError)\s*$', re.M)
tot=0; flagged=0
for f in funcs:
    m=re.match(r'([^\n]*)\n', f)
    if not m or '[B' not in f: continue
    head=m.group(1)
    name=re.search(r'(\w+)\s*\(', head)
    name=name.group(1) if name else '?'
    if not name.startswith(('__Pyx','__pyx')): continue
    rettype=head.split(name)[0]
    blocks={}
    for bm in re.finditer(r' \[B(\d+)[^\]]*\]\n(.*?)(?=\n \[B\d+|\Z)', f, re.S):
        bid=int(bm.group(1)); body=bm.group(2)
        succ=[int(x) for x in re.findall(r'B(\d+)', (re.search(r'Succs \(\d+\):([^\n]*)', body) or re.match('()()','')).group(1) or '')] if 'Succs' in body else []
        stm={int(k):v for k,v in re.findall(r'^\s*(\d+): (.*)$', body, re.M)}
        blocks[bid]=(body,succ,stm)
    def resolve(bid, expr, depth=0):
        if depth>8: return expr
        def rep(mm):
            b,k=int(mm.group(1)),int(mm.group(2))
            if b in blocks and k in blocks[b][2]: return '('+resolve(b, blocks[b][2][k], depth+1)+')'
            return mm.group(0)
        e=re.sub(r'\[B(\d+)\.(\d+)\]', rep, expr)
        e=re.sub(r'\s*\((ImplicitCastExpr|CStyleCastExpr)[^)]*\)','',e)
        return e
    for bid,(body,succ,stm) in blocks.items():
        if not RAISE.search(body): continue
        tot+=1
        # find reachable return blocks
        seen=set(); work=[bid]; rets=[]
        while work:
            b=work.pop()
            if b in seen or b not in blocks: continue
            seen.add(b)
            bb,ss,st=blocks[b]
            r=[v for k,v in sorted(st.items()) if v.startswith('return')]
            if r:
                rets.append((b,resolve(b,r[-1]))); continue
            work.extend(ss)
        for b,r in rets:
            val=r[len('return'):].strip().rstrip(';')
            norm=re.sub(r'[()\s]','',val)
            ok = norm in ('','0' if 'PyObject' in rettype or '*' in rettype else '__no__','NULL','void*0','PyObject*void*0','-1','PYGEN_ERROR') or norm.endswith('-1') or 'void*0' in norm or norm.startswith('-') or norm=='PYGEN_ERROR' or 'void' in rettype.split()
            if not ok:
                flagged+=1; print(name, 'B%d'%bid, '-> return', val[:60], '| rettype', rettype.strip()[:30])
print('raise blocks',tot,'flagged',flagged)
