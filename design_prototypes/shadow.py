import ast
t=ast.parse(open('/repo/Cython/Shadow.py').read())
names=set()
for n in t.body:
    for m in ast.walk(n) if not isinstance(n,(ast.FunctionDef,ast.ClassDef)) else [n]:
        if isinstance(m,(ast.FunctionDef,ast.ClassDef)): names.add(m.name)
        elif isinstance(m, ast.Assign):
            for tg in m.targets:
                for x in ast.walk(tg):
                    if isinstance(x, ast.Name): names.add(x.id)
        elif isinstance(m,(ast.Import,ast.ImportFrom)):
            for a in m.names: names.add((a.asname or a.name).split('.')[0])
o=ast.parse(open('/repo/Cython/Compiler/Options.py').read())
def lit(name):
    for n in o.body:
        if isinstance(n, ast.Assign) and any(isinstance(t, ast.Name) and t.id==name for t in n.targets):
            return n.value
dd=[k.value for k in lit('_directive_defaults').keys]
dt=[k.value for k in lit('directive_types').keys]
allnames=sorted(set(dd)|set(dt))
miss=[d for d in allnames if d.split('.')[0] not in names]
print('missing in Shadow:',miss)
print(sorted(n for n in names if not n.startswith('_'))[:400])
