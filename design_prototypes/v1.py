import ast, glob, os, collections
classes={}  # name -> (file, bases, node)
for f in glob.glob('/repo/Cython/**/*.py', recursive=True):
    if '/Tests/' in f: continue
    try: t=ast.parse(open(f).read())
    except Exception as e: print('ERR',f,e); continue
    for n in ast.walk(t):
        if isinstance(n, ast.ClassDef):
            bases=[]
            for b in n.bases:
                if isinstance(b, ast.Name): bases.append(b.id)
                elif isinstance(b, ast.Attribute): bases.append(b.attr)
            classes.setdefault(n.name,[]).append((f,bases,n))
dups={k:v for k,v in classes.items() if len(v)>1}
print('dup class names', {k:[x[0] for x in v] for k,v in dups.items()})
def is_node(name, seen=()):
    if name=='Node': return True
    if name in seen or name not in classes: return False
    return any(is_node(b, seen+(name,)) for _,bases,_ in classes[name] for b in bases)
nodes={k for k in classes if is_node(k)}
print(len(nodes),'node classes')
# visitors
visit_names=collections.defaultdict(list)
for k,v in classes.items():
    for f,bases,n in v:
        for m in n.body:
            if isinstance(m,(ast.FunctionDef,)) and m.name.startswith('visit_'):
                visit_names[m.name[6:]].append((os.path.basename(f),k,m.lineno))
            if isinstance(m, ast.Assign):
                for t in m.targets:
                    if isinstance(t, ast.Name) and t.id.startswith('visit_'):
                        visit_names[t.id[6:]].append((os.path.basename(f),k,m.lineno))
for nm,sites in sorted(visit_names.items()):
    if nm not in classes:
        print('NOCLASS',nm,sites)
    elif nm not in nodes:
        print('NOTNODE',nm,[b for _,b,_ in classes[nm]],sites[:2])
