import ast, glob, os
# classes deriving (transitively) from VisitorTransform
files=glob.glob('/repo/Cython/Compiler/*.py')+['/repo/Cython/CodeWriter.py','/repo/Cython/TestUtils.py']
classes={}
for f in files:
    t=ast.parse(open(f).read())
    for n in ast.walk(t):
        if isinstance(n, ast.ClassDef):
            classes.setdefault(n.name,(f,n))
def bases(n): return [b.id if isinstance(b, ast.Name) else b.attr if isinstance(b, ast.Attribute) else '?' for b in n.bases]
def derives(name, target, seen=()):
    if name==target: return True
    if name in seen or name not in classes: return False
    return any(derives(b,target,seen+(name,)) for b in bases(classes[name][1]))
def always_returns(body):
    """True if every path through body ends in return/raise"""
    for i,s in enumerate(body):
        if isinstance(s,(ast.Return,ast.Raise)): return True
        if isinstance(s, ast.If):
            if s.orelse and always_returns(s.body) and always_returns(s.orelse): return True
        if isinstance(s,(ast.Try,)):
            if s.finalbody and always_returns(s.finalbody): return True
            ok=always_returns(s.body+ (s.orelse or [])) and all(always_returns(h.body) for h in s.handlers)
            if ok: return True
        if isinstance(s, ast.With):
            if always_returns(s.body): return True
        if isinstance(s, ast.While) and isinstance(s.test, ast.Constant) and s.test.value:
            return True
    return False
cnt=0
for name,(f,n) in classes.items():
    if not derives(name,'VisitorTransform'): continue
    for m in n.body:
        if isinstance(m, ast.FunctionDef) and m.name.startswith('visit_'):
            cnt+=1
            if not always_returns(m.body):
                print(os.path.basename(f), name, m.name, m.lineno)
            else:
                for r in ast.walk(m):
                    if isinstance(r, ast.Return) and r.value is None:
                        # bare return inside nested function? check
                        print('BARE-RETURN', os.path.basename(f), name, m.name, r.lineno)
print(cnt)
