import ast, glob, os, re, collections
SECT=re.compile(r'^(?:/{5,30}|#{5,30})\s*((?:\w|\.)+)\s*(?:/{5,30}|#{5,30})', re.M)
TYPE=re.compile(r'(.+)[.](proto(?:[.]\S+)?|impl|init|cleanup|module_state_decls|module_state_traverse|module_state_clear|export)$')
secs={}
reqs=[]
for f in glob.glob('/repo/Cython/Utility/*'):
    if os.path.isdir(f) or f.endswith('.py'): continue
    try: txt=open(f).read()
    except: continue
    names=set()
    cur=None
    for line in txt.split('\n'):
        m=SECT.match(line)
        if m:
            n=m.group(1); mt=TYPE.match(n)
            if mt: n=mt.group(1)
            names.add(n); cur=n
        else:
            m2=re.match(r'^(?://+|#+)\s*@requires:\s*(\S+)', line)
            if m2: reqs.append((os.path.basename(f),cur,m2.group(1)))
    secs[os.path.basename(f)]=names
bad=0
for f,cur,r in reqs:
    r0=re.sub(r'\{.*$','',r)
    if '::' in r0: ff,n=r0.rsplit('::',1)
    else: ff,n=f,r0
    if n not in secs.get(ff,()): print('REQ-MISSING',f,cur,r); bad+=1
print(len(reqs),'requires',bad,'bad')
# load sites
tot=0;unres=0
for f in glob.glob('/repo/Cython/**/*.py',recursive=True):
    if '/Tests/' in f: continue
    t=ast.parse(open(f).read())
    for n in ast.walk(t):
        if isinstance(n, ast.Call) and isinstance(n.func, ast.Attribute) and n.func.attr in('load','load_cached','load_as_string') :
            if not n.args: continue
            a0=n.args[0]; a1=n.args[1] if len(n.args)>1 else next((k.value for k in n.keywords if k.arg=='from_file'),None)
            if isinstance(a0, ast.Constant) and isinstance(a0.value,str):
                name=a0.value; file=a1.value if isinstance(a1, ast.Constant) else None
                if '::' in name: file,name=name.rsplit('::',1)
                tot+=1
                if file is None: unres+=1; continue
                if name not in secs.get(file,()): print('LOAD-MISSING',os.path.basename(f),n.lineno,name,file)
            else:
                if isinstance(n.func.value,(ast.Name,ast.Attribute)) and 'Utility' in ast.unparse(n.func.value): unres+=1
print(tot,'const load sites',unres,'unresolved')
