import ast, glob, os, collections
o=ast.parse(open('/repo/Cython/Compiler/Options.py').read())
def lit(name):
    for n in o.body:
        if isinstance(n, ast.Assign) and any(isinstance(t, ast.Name) and t.id==name for t in n.targets):
            return n.value
keys={k.value for k in lit('_directive_defaults').keys}|{k.value for k in lit('directive_types').keys}
cnt=0;bad=0
for f in sorted(glob.glob('/repo/Cython/**/*.py',recursive=True)):
    if '/Tests/' in f: continue
    t=ast.parse(open(f).read())
    for n in ast.walk(t):
        key=None
        if isinstance(n, ast.Subscript) and isinstance(n.slice, ast.Constant) and isinstance(n.slice.value,str):
            v=ast.unparse(n.value)
            if v.endswith('directives') or v.endswith('directives_'): key=n.slice.value
        if isinstance(n, ast.Call) and isinstance(n.func, ast.Attribute) and n.func.attr=='get' and n.args and isinstance(n.args[0], ast.Constant) and isinstance(n.args[0].value,str):
            v=ast.unparse(n.func.value)
            if v.endswith('directives'): key=n.args[0].value
        if isinstance(n, ast.Compare) and len(n.ops)==1 and isinstance(n.ops[0],(ast.In,ast.NotIn)) and isinstance(n.left, ast.Constant) and isinstance(n.left.value,str):
            v=ast.unparse(n.comparators[0])
            if v.endswith('directives'): key=n.left.value
        if key is not None:
            cnt+=1
            if key not in keys: bad+=1; print('UNKNOWN',os.path.relpath(f,'/repo'),n.lineno,key)
print(cnt,bad)
