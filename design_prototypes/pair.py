import ast, sys, collections
EVAL={'generate_evaluation_code'}
DISP={'generate_disposal_code','generate_post_assignment_code'}
FREE={'free_temps'}
def attr_chain(n):
    parts=[]
    while isinstance(n, ast.Attribute):
        parts.append(n.attr); n=n.value
    if isinstance(n, ast.Name): parts.append(n.id); return '.'.join(reversed(parts))
    return None
for f in ['Nodes','ExprNodes','UtilNodes','MatchCaseNodes','ModuleNode','Optimize','ParseTreeTransforms','FusedNode','Buffer','MemoryView']:
    t=ast.parse(open(f'/repo/Cython/Compiler/{f}.py').read())
    for cls in [n for n in ast.walk(t) if isinstance(n, ast.ClassDef)]:
        for m in cls.body:
            if not isinstance(m, ast.FunctionDef): continue
            ev=collections.defaultdict(list); di=set(); fr=set()
            for c in ast.walk(m):
                if isinstance(c, ast.Call) and isinstance(c.func, ast.Attribute):
                    recv=attr_chain(c.func.value)
                    if recv is None: continue
                    if c.func.attr in EVAL: ev[recv].append(c.lineno)
                    if c.func.attr in DISP: di.add(recv)
                    if c.func.attr in FREE: fr.add(recv)
            for r,l in ev.items():
                if r=='self': continue
                st=('D' if r in di else '-')+('F' if r in fr else '-')
                if st!='DF':
                    print(f"{f}.{cls.name}.{m.name}: {r} eval@{l} {st}")
