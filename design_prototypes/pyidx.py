import ast, json, glob, os, collections
cidx=json.load(open('cidx.json'))
def src(n): return ast.unparse(n)
results=[]
for f in sorted(glob.glob('/repo/Cython/Compiler/*.py')):
    t=ast.parse(open(f).read())
    # class-level and module-level CFuncType assignments
    ftypes={}
    for n in ast.walk(t):
        if isinstance(n, ast.Assign) and isinstance(n.value, ast.Call) and src(n.value.func).endswith('CFuncType'):
            for tg in n.targets:
                if isinstance(tg, ast.Name):
                    ftypes[tg.id]=n.value
    def resolve(ftnode):
        if isinstance(ftnode, ast.Call) and src(ftnode.func).endswith('CFuncType'): return ftnode
        if isinstance(ftnode, ast.Attribute) and ftnode.attr in ftypes: return ftypes[ftnode.attr]
        if isinstance(ftnode, ast.Name) and ftnode.id in ftypes: return ftypes[ftnode.id]
        return None
    for n in ast.walk(t):
        if isinstance(n, ast.Call):
            fn=src(n.func)
            if fn.endswith('PythonCapiCallNode') or fn.endswith('_substitute_method_call') or fn.endswith('PythonCapiFunctionNode') or fn.endswith('_inject_capi_function'):
                args=list(n.args); kw={k.arg:k.value for k in n.keywords}
                if fn.endswith('PythonCapiCallNode'):
                    cname=args[1] if len(args)>1 else kw.get('function_name'); ft=args[2] if len(args)>2 else kw.get('func_type'); a=kw.get('args')
                elif fn.endswith('_substitute_method_call'):
                    cname=args[2] if len(args)>2 else None; ft=args[3] if len(args)>3 else None; a=args[6] if len(args)>6 else kw.get('args')
                elif fn.endswith('PythonCapiFunctionNode'):
                    cname=args[2] if len(args)>2 else kw.get('cname'); ft=args[3] if len(args)>3 else kw.get('func_type'); a=None
                else:
                    cname=args[1]; ft=args[2]; a=None
                cn = cname.value if isinstance(cname, ast.Constant) else None
                ftr=resolve(ft) if ft is not None else None
                nargs=None; ret=None; exc=None
                if ftr is not None:
                    ret=src(ftr.args[0]) if ftr.args else None
                    if len(ftr.args)>1 and isinstance(ftr.args[1], ast.List): nargs=len(ftr.args[1].elts)
                    for k in ftr.keywords:
                        if k.arg=='exception_value': exc=src(k.value)
                alen = len(a.elts) if isinstance(a, ast.List) else None
                results.append((os.path.basename(f), n.lineno, cn or ('?'+(src(cname) if cname is not None else 'None'))[:60], nargs, alen, ret, exc))
res=collections.Counter()
for r in results:
    f,l,cn,nargs,alen,ret,exc=r
    ci=cidx.get(cn)
    cpar=sorted({x['nparams'] for x in ci if x['nparams'] is not None}) if ci else None
    status='ok'
    if cn.startswith('?'): status='dyn-cname'
    elif nargs is None: status='unresolved-ftype'
    elif ci is None: status='extern' if not cn.startswith('__Pyx') else 'NOT-IN-UTILITY'
    elif cpar and nargs not in cpar: status='ARITY-MISMATCH'
    res[status]+=1
    if status not in('ok','extern'): print(status, r, cpar)
print(res)
