import ast, re
t=ast.parse(open('/repo/Cython/Compiler/Optimize.py').read())
for cls in [n for n in ast.walk(t) if isinstance(n, ast.ClassDef)]:
    for m in [x for x in cls.body if isinstance(x, ast.FunctionDef) and x.name.startswith('_handle_')]:
        params=[a.arg for a in m.args.args]
        argname=next((p for p in params if p in('args','pos_args','arg_list')),None)
        if not argname: continue
        idx=[]
        for n in ast.walk(m):
            if isinstance(n, ast.Subscript) and isinstance(n.value, ast.Name) and n.value.id==argname and isinstance(n.slice, ast.Constant) and isinstance(n.slice.value,int):
                idx.append((n.slice.value,n.lineno))
        if not idx: continue
        src=ast.unparse(m)
        guards=re.findall(r'len\(%s\)\s*(==|!=|<|>|<=|>=|not in|in)\s*([^:\n]+)'%argname, src)
        mx=max(i for i,_ in idx if i>=0) if any(i>=0 for i,_ in idx) else -1
        if not guards:
            print('NO-LEN-GUARD', cls.name, m.name, m.lineno, 'max index', mx)
