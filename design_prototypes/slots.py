import ast, re
H=open('/root/.pyenv/versions/3.12.1/include/python3.12/cpython/object.h').read()
def struct_fields(name):
    m=re.search(r'typedef struct\s*(?:_\w+\s*)?\{(.*?)\}\s*%s\s*;'%name, H, re.S)
    body=re.sub(r'/\*.*?\*/','',m.group(1),flags=re.S)
    fields=[]
    for decl in body.split(';'):
        decl=decl.strip()
        if not decl: continue
        mm=re.search(r'(\w+)\s*$', decl) or re.search(r'\(\*(\w+)\)', decl)
        fields.append(mm.group(1))
    return fields
t=ast.parse(open('/repo/Cython/Compiler/TypeSlots.py').read())
tables={}
for n in ast.walk(t):
    if isinstance(n, ast.Assign) and isinstance(n.targets[0], ast.Attribute) and isinstance(n.value, ast.Tuple):
        nm=n.targets[0].attr
        names=[]
        for e in n.value.elts:
            if isinstance(e, ast.Call):
                args=[a.value for a in e.args if isinstance(a, ast.Constant) and isinstance(a.value,str)]
                # slot name = first string constant arg that looks like xx_yyy
                sl=[a for a in args if re.match(r'^(nb|sq|mp|am|bf|tp)_', a.split(' ')[0])]
                names.append(sl[0].split(' ')[0] if sl else '?'+ast.unparse(e)[:30])
        tables[nm]=names
for nm,struct in [('PyNumberMethods','PyNumberMethods'),('PySequenceMethods','PySequenceMethods'),('PyMappingMethods','PyMappingMethods'),('PyAsyncMethods','PyAsyncMethods'),('PyBufferProcs','PyBufferProcs')]:
    cf=struct_fields(struct); cy=tables.get(nm)
    print(nm, 'C',len(cf),'Cy',len(cy) if cy else None, 'equal' if cf==cy else 'DIFF')
    if cf!=cy:
        print('  C :',cf); print('  Cy:',cy)
