import ast, re, builtins
t=ast.parse(open('/repo/Cython/Compiler/Optimize.py').read())
types={'object':object,'unicode':str,'str':str,'bytes':bytes,'bytearray':bytearray,'list':list,'tuple':tuple,'dict':dict,'set':set,'frozenset':frozenset,'int':int,'float':float,'complex':complex,'type':type,'frozendict':dict,'memoryview':memoryview,'slice':slice,'range':range,'bool':bool}
n=0
for cls in [c for c in ast.walk(t) if isinstance(c, ast.ClassDef)]:
    names=set()
    for m in cls.body:
        if isinstance(m, ast.FunctionDef): names.add(m.name)
        if isinstance(m, ast.Assign):
            for tg in m.targets:
                if isinstance(tg, ast.Name): names.add(tg.id)
    for name in sorted(names):
        mm=re.match(r'_handle_(simple|general|any)_(method|function|slot)_(.+)$', name)
        if not mm: continue
        n+=1
        kind,what,rest=mm.groups()
        if what=='function':
            if not hasattr(builtins, rest) and rest not in ('unicode','unichr','cmp','reduce','xrange','basestring','long','raw_input','intern','getattr3','exec','__Pyx_PyObject_Append'):
                print('FUNC?',cls.name,name)
        elif what=='method':
            ok=False
            for tn,ty in types.items():
                if rest.startswith(tn+'_'):
                    meth=rest[len(tn)+1:]
                    if hasattr(ty,meth) or meth in('__div__','__nonzero__','has_key','iteritems','iterkeys','itervalues'): ok=True
            if not ok: print('METHOD?',cls.name,name)
print(n)
