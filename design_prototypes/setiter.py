import ast, glob, os, collections
def is_set_expr(e, setnames):
    if isinstance(e, ast.Call) and isinstance(e.func, ast.Name) and e.func.id in ('set','frozenset'): return True
    if isinstance(e,(ast.Set,ast.SetComp)): return True
    if isinstance(e, ast.Name) and e.id in setnames: return True
    if isinstance(e, ast.Attribute) and isinstance(e.value, ast.Name) and e.value.id=='self' and ('self.'+e.attr) in setnames: return True
    if isinstance(e, ast.BinOp) and isinstance(e.op,(ast.BitOr,ast.BitAnd,ast.Sub,ast.BitXor)) and (is_set_expr(e.left,setnames) or is_set_expr(e.right,setnames)): return True
    if isinstance(e, ast.Call) and isinstance(e.func, ast.Attribute) and e.func.attr in('union','intersection','difference','symmetric_difference','copy') and is_set_expr(e.func.value,setnames): return True
    return False
for f in sorted(glob.glob('/repo/Cython/Compiler/*.py')+['/repo/Cython/Build/Dependencies.py','/repo/Cython/Build/Cache.py','/repo/Cython/Utils.py']):
    t=ast.parse(open(f).read())
    # class-level set attrs
    selfsets=set()
    for n in ast.walk(t):
        if isinstance(n, ast.Assign) and is_set_expr(n.value,set()):
            for tg in n.targets:
                if isinstance(tg, ast.Attribute) and isinstance(tg.value, ast.Name) and tg.value.id=='self': selfsets.add('self.'+tg.attr)
    for fn in [n for n in ast.walk(t) if isinstance(n,(ast.FunctionDef,))]:
        local=set(selfsets)
        for n in ast.walk(fn):
            if isinstance(n, ast.Assign) and is_set_expr(n.value, local):
                for tg in n.targets:
                    if isinstance(tg, ast.Name): local.add(tg.id)
        for n in ast.walk(fn):
            it=None
            if isinstance(n,(ast.For,)): it=n.iter
            elif isinstance(n, ast.comprehension): it=n.iter
            elif isinstance(n, ast.Call) and isinstance(n.func, ast.Name) and n.func.id in('list','tuple','enumerate','iter','next') and n.args: it=n.args[0]
            elif isinstance(n, ast.Call) and isinstance(n.func, ast.Attribute) and n.func.attr=='join' and n.args: it=n.args[0]
            if it is not None and is_set_expr(it, local):
                print(os.path.basename(f), fn.name, getattr(n,"lineno",getattr(it,"lineno",0)), ast.unparse(it)[:60])
