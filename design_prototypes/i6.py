import ast, glob, re, os, json, collections
cidx=json.load(open('cidx.json'))
def pname(p):
    m=re.search(r'(\w+)\s*(\[\s*\])?$', p.strip())
    return m.group(1) if m else None
# Only f-strings: placeholders with Name expressions
CALL=re.compile(r'(__Pyx_\w+)\(')
hits=0; checked=0
for f in sorted(glob.glob('/repo/Cython/Compiler/*.py')):
    t=ast.parse(open(f).read())
    for n in ast.walk(t):
        parts=None
        if isinstance(n, ast.JoinedStr):
            parts=[]
            for v in n.values:
                if isinstance(v, ast.Constant): parts.append(('s',v.value))
                else: parts.append(('e',v.value))
        elif isinstance(n, ast.BinOp) and isinstance(n.op, ast.Mod) and isinstance(n.left, ast.Constant) and isinstance(n.left.value,str) and isinstance(n.right, ast.Tuple):
            segs=re.split(r'(%[-#0 +]*\d*(?:\.\d+)?[diouxXeEfFgGcrsa])', n.left.value)
            parts=[]; k=0
            for sg in segs:
                if re.fullmatch(r'%[-#0 +]*\d*(?:\.\d+)?[diouxXeEfFgGcrsa]', sg):
                    if k<len(n.right.elts): parts.append(('e', n.right.elts[k])); k+=1
                else: parts.append(('s', sg.replace('%%','%')))
        if not parts: continue
        # build string with markers
        s=''; exprs=[]
        for kind,v in parts:
            if kind=='s': s+=v
            else: s+='\x00%d\x00'%len(exprs); exprs.append(v)
        for m in CALL.finditer(s):
            name=m.group(1); ci=cidx.get(name)
            if not ci: continue
            defs=[x for x in ci if x.get('params')]
            if not defs: continue
            # parse args
            i=m.end(); depth=1; args=[]; cur=''
            while i<len(s) and depth>0:
                ch=s[i]
                if ch in '([{': depth+=1
                elif ch in ')]}':
                    depth-=1
                    if depth==0: break
                if ch==',' and depth==1: args.append(cur); cur=''
                else: cur+=ch
                i+=1
            if depth!=0: continue
            args.append(cur)
            for d in defs:
                pn=[pname(p) for p in d['params']]
                if len(pn)!=len(args): continue
                for idx,a in enumerate(args):
                    mm=re.fullmatch(r'\s*\x00(\d+)\x00\s*', a)
                    if not mm: continue
                    e=exprs[int(mm.group(1))]
                    if isinstance(e, ast.Name):
                        checked+=1
                        if e.id in pn and pn.index(e.id)!=idx and pn[idx]!=e.id:
                            hits+=1; print('MISALIGNED', os.path.basename(f), n.lineno, name, 'arg',idx, e.id, 'C params', pn)
print('checked',checked,'hits',hits)
