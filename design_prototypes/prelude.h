#define PY_SSIZE_T_CLEAN
#include <Python.h>
#include "structmember.h"
#include <stdint.h>
#include <stddef.h>
#define PYIDENT(s) ((PyObject*)0)
#define PYUNICODE(s) ((PyObject*)0)
#define EMPTY(t) ((PyObject*)0)
#define CGLOBAL(n) (__pyx_mstate_global->n)
#define NAMED_CGLOBAL(n) (__pyx_mstate_global->NAMED_##n)
#define CALL_UNBOUND_METHOD(...) ((PyObject*)0)
#define CALL_UNBOUND_METHOD_TYPEPTR(...) ((PyObject*)0)
#define __Pyx_MODULE_NAME "m"
#define CYTHON_SMALL_CODE
typedef struct { unsigned int argcount, num_posonly_args, num_kwonly_args, nlocals, flags, first_line; } __Pyx_PyCode_New_function_description;
static PyObject *__pyx_m;
#define __PYX_TYPE_MODULE_PREFIX "m."
#define __PYX_ABI_MODULE_NAME "_cython_x"
#define __PYX_ABI_VERSION "x"
#define CYTHON_HEX_VERSION 0x030300F0
#define CYTHON_FUTURE_DIVISION 1
