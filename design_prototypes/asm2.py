import re, os, sys, collections, ast
UD='/repo/Cython/Utility'
SECT=re.compile(r'^/{5,30}\s*((?:\w|\.)+)\s*/{5,30}')
TYPE=re.compile(r'(.+)[.](proto(?:[.]\S+)?|impl|init|cleanup|module_state_decls|module_state_traverse|module_state_clear|export)$')
TAG=re.compile(r'^/+\s*@(\w+)\s*:\s*(\S+)')
# ---- Naming constants by constant folding
def naming():
    t=ast.parse(open('/repo/Cython/Compiler/Naming.py').read()); env={}
    def ev(n):
        if isinstance(n, ast.Constant) and isinstance(n.value,str): return n.value
        if isinstance(n, ast.Name) and n.id in env: return env[n.id]
        if isinstance(n, ast.BinOp) and isinstance(n.op, ast.Add):
            a,b=ev(n.left),ev(n.right)
            if a is not None and b is not None: return a+b
        if isinstance(n, ast.Call) and isinstance(n.func, ast.Attribute) and n.func.attr=='upper':
            a=ev(n.func.value); return a.upper() if a else None
        return None
    for s in t.body:
        if isinstance(s, ast.Assign) and len(s.targets)==1 and isinstance(s.targets[0], ast.Name):
            v=ev(s.value)
            if v is not None: env[s.targets[0].id]=v
    return env
NAM=naming()
cache={}
def load(file):
    if file in cache: return cache[file]
    utils=collections.OrderedDict(); cur=None
    for line in open(os.path.join(UD,file)).read().split('\n'):
        m=SECT.match(line)
        if m:
            n=m.group(1); mt=TYPE.match(n); typ='impl'
            if mt: n,typ=mt.groups()
            u=utils.setdefault(n,{'parts':collections.OrderedDict(),'requires':[],'tags':set()})
            cur=u['parts'].setdefault(typ,[]); curu=u; continue
        m=TAG.match(line)
        if m and cur is not None:
            if m.group(1)=='requires': curu['requires'].append(m.group(2))
            else: curu['tags'].add((m.group(1),m.group(2)))
            cur.append(''); continue
        if cur is not None: cur.append(line)
    cache[file]=utils; return utils
order=[]; seen=set()
def need(file,name):
    name=re.sub(r'\{.*$','',name)
    if '::' in name: file,name=name.rsplit('::',1)
    if (file,name) in seen: return
    seen.add((file,name))
    u=load(file)[name]
    for r in u['requires']: need(file,r)
    order.append((file,name))
def templated(u): return any('{{' in '\n'.join(v) for v in u['parts'].values())
def cpponly(u):
    txt='\n'.join('\n'.join(v) for v in u['parts'].values())
    return 'must be compiled with a C++ compiler' in txt or re.search(r'^\s*template\s*<', txt, re.M) is not None
target=sys.argv[1]
PRE=['InitLimitedAPI','CModulePreamble','CInitCode','PythonCompatibility','MathInitCode','SmallCodeConfig','PretendToInitialize']
preamble=[]
for n in PRE:
    u=load('ModuleSetupCode.c')[n]; seen.add(('ModuleSetupCode.c',n))
    preamble.append('/* preamble %s */\n'%n+'\n'.join('\n'.join(v) for t,v in u['parts'].items() if t in ('proto','impl')))
for n in ['FastTypeChecks','GetRuntimeVersion','CodeObjectCache','Refnanny','NewCodeObj','AddModuleRef','FastGil','NoFastGil']:
    if n in load('ModuleSetupCode.c'): need('ModuleSetupCode.c', n)
for n in load(target): need(target,n)
protos=[];impls=[];decls=[]
skipped=[]
for f,n in order:
    u=load(f)[n]
    if templated(u) or cpponly(u): skipped.append(f'{f}::{n}'); continue
    for t,v in u['parts'].items():
        body='\n'.join(v)
        if t=='module_state_decls': decls.append(f'/* {f}::{n}.{t} */\n'+body)
        elif t.startswith('proto') or t=='export': protos.append(f'/* {f}::{n}.{t} */\n'+body)
    if 'impl' in u['parts']: impls.append(f'/* {f}::{n} */\n'+'\n'.join(u['parts']['impl']))
proto_txt='\n'.join(protos); impl_txt='\n'.join(impls); body=proto_txt+'\n'+impl_txt
def subst(txt):
    return re.sub(r'\$\{?(\w+)\}?', lambda m: NAM.get(m.group(1), '__pyx_UNKNOWN_'+m.group(1)), txt)
fixnamed=lambda t: re.sub(r'NAMED_CGLOBAL\(\s*(\w+)\s*\)', lambda m: '(__pyx_mstate_global->%s)' % NAM.get(m.group(1), m.group(1)), t)
proto_txt=fixnamed(subst(proto_txt)); impl_txt=fixnamed(subst(impl_txt)); body=proto_txt+'\n'+impl_txt; decl_txt=subst('\n'.join(decls))
# collect module state fields
fields=set(re.findall(r'(?:NAMED_)?CGLOBAL\(\s*(\w+)\s*\)', body))
named=set(re.findall(r'NAMED_CGLOBAL\(\s*(\w+)\s*\)', body))
fields=(fields-named)|{NAM.get(x,x) for x in named}
fields|=set(re.findall(r'\bmstate->(\w+)', body))|set(re.findall(r'__pyx_mstate_global->(\w+)', body))
declared=set(re.findall(r'(\w+)\s*(?:\[[^\]]*\])?\s*;', decl_txt))
extra=[]
for fld in sorted(fields-declared):
    ty='PyTypeObject *' if re.search(r'(Type|type|_ptype_\w+)$', fld) else 'PyObject *'
    extra.append(f'  {ty}{fld};')
struct='typedef struct __pyx_mstatetype_s {\n'+decl_txt+'\n'+'\n'.join(extra)+'\n} __pyx_mstatetype;\nstatic __pyx_mstatetype __pyx_mstate_global_static;\nstatic __pyx_mstatetype * const __pyx_mstate_global = &__pyx_mstate_global_static;\n'
pre=open('prelude.h').read()
# struct must come after Python.h and the type decls used in module_state_decls -> place after protos? simplest: after prelude
fwd='struct __pyx_mstatetype_s; typedef struct __pyx_mstatetype_s __pyx_mstatetype; static __pyx_mstatetype * const __pyx_mstate_global;\n'
out=pre+'\n'+subst('\n'.join(preamble))+'\n#define __PYX_ERR(f_index, lineno, Ln_error) goto Ln_error;\n'+proto_txt+'\n'+struct+'\n'+impl_txt
open('tu.c','w').write(out)
print(len(order),'sections', len(skipped),'skipped', len(fields),'state fields')
