import ast, glob, os
tot=0
for f in ['ExprNodes','Nodes','UtilNodes','MatchCaseNodes','ModuleNode','Buffer','MemoryView','FusedNode']:
    t=ast.parse(open(f'/repo/Cython/Compiler/{f}.py').read())
    for cls in [n for n in ast.walk(t) if isinstance(n, ast.ClassDef)]:
        for m in [x for x in cls.body if isinstance(x, ast.FunctionDef)]:
            nulls=[]; gots=0
            for n in ast.walk(m):
                if isinstance(n, ast.Call) and isinstance(n.func, ast.Attribute):
                    if n.func.attr=='error_goto_if_null' and n.args:
                        nulls.append((n.lineno, ast.unparse(n.args[0])))
                    if n.func.attr in ('generate_gotref','put_gotref','put_var_gotref','put_xgotref','generate_xgotref','put_var_xgotref'):
                        gots+=1
            if nulls:
                tot+=len(nulls)
                if gots<len(nulls):
                    print(f, cls.name, m.name, 'nullchecks',len(nulls),'gotrefs',gots, nulls[:3])
print(tot)
