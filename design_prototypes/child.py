import ast, glob, os, collections
files=['Nodes','ExprNodes','UtilNodes','MatchCaseNodes','ModuleNode','FusedNode','Optimize','ParseTreeTransforms','Buffer','MemoryView','Dataclass','FlowControl','TypeInference','UFuncs']
classes={}
for fn in files:
    f=f'/repo/Cython/Compiler/{fn}.py'
    t=ast.parse(open(f).read())
    for n in ast.walk(t):
        if isinstance(n, ast.ClassDef):
            classes.setdefault(n.name,(fn,n))
def bases(n):
    return [b.id if isinstance(b, ast.Name) else b.attr if isinstance(b, ast.Attribute) else '?' for b in n.bases]
def mro(name, seen=None):
    seen=seen if seen is not None else []
    if name in seen or name not in classes: return seen
    seen.append(name)
    for b in bases(classes[name][1]): mro(b, seen)
    return seen
def class_list_attr(name, attr):
    for c in mro(name):
        n=classes[c][1]
        for m in n.body:
            if isinstance(m, ast.Assign) and any(isinstance(t, ast.Name) and t.id==attr for t in m.targets):
                try: return set(ast.literal_eval(m.value)), c
                except Exception: return None, c
    return None, None
PHASE={'analyse_expressions','analyse_types','analyse_declarations','generate_execution_code','generate_evaluation_code','generate_function_definitions','analyse_target_types','analyse_target_declaration','generate_disposal_code','free_temps','generate_assignment_code'}
def isnode(name): return 'Node' in mro(name)
tot=0; miss=[]
for name,(fn,n) in classes.items():
    if not isnode(name): continue
    isexpr='ExprNode' in mro(name)
    ca,src=class_list_attr(name,'subexprs' if isexpr else 'child_attrs')
    if ca is None: 
        continue
    used=collections.defaultdict(set)
    for m in n.body:
        if not isinstance(m, ast.FunctionDef): continue
        for c in ast.walk(m):
            if isinstance(c, ast.Call) and isinstance(c.func, ast.Attribute) and c.func.attr in PHASE:
                v=c.func.value
                if isinstance(v, ast.Attribute) and isinstance(v.value, ast.Name) and v.value.id=='self':
                    used[v.attr].add((m.name,c.func.attr,c.lineno))
    for a,sites in used.items():
        tot+=1
        if a not in ca:
            miss.append((fn,name,a,sorted(sites)[0]))
print(tot,'attrs with phase calls;',len(miss),'not in child_attrs/subexprs')
for m in miss: print(m)
