import ast, glob, re, os, json, collections
cidx=json.load(open('cidx.json'))
def tmpl(node):
    """string template with § for dynamic parts, or None"""
    if isinstance(node, ast.Constant) and isinstance(node.value,str): return node.value
    if isinstance(node, ast.JoinedStr):
        out=''
        for v in node.values:
            if isinstance(v, ast.Constant): out+=v.value
            else: out+='§'
        return out
    if isinstance(node, ast.BinOp) and isinstance(node.op, ast.Mod):
        l=tmpl(node.left)
        if l is None: return None
        return re.sub(r'%(?:\(\w+\))?[-#0 +]*\d*(?:\.\d+)?[diouxXeEfFgGcrsa]','§',l).replace('%%','%')
    if isinstance(node, ast.BinOp) and isinstance(node.op, ast.Add):
        l=tmpl(node.left); r=tmpl(node.right)
        if l is None or r is None: return None
        return l+r
    return None
CALL=re.compile(r'(__Pyx_\w+)\(')
def args_of(s, i):
    depth=1; n=0; cur=''; j=i
    while j<len(s):
        ch=s[j]
        if ch in '([{': depth+=1
        elif ch in ')]}':
            depth-=1
            if depth==0:
                return (n+1 if cur.strip() else n), j
        elif ch==',' and depth==1: n+=1; cur=''; j+=1; continue
        cur+=ch; j+=1
    return None, None
res=collections.Counter(); seen=set()
for f in sorted(glob.glob('/repo/Cython/Compiler/*.py')):
    t=ast.parse(open(f).read())
    # only outermost string expressions
    for n in ast.walk(t):
        s=tmpl(n) if isinstance(n,(ast.JoinedStr,ast.BinOp,ast.Constant)) else None
        if not s or '__Pyx_' not in s: continue
        for m in CALL.finditer(s):
            name=m.group(1)
            if '§' in name: continue
            # name may be followed by § directly in prefix -> dynamic suffix
            na,end=args_of(s,m.end())
            if na is None: res['unclosed']+=1; continue
            key=(os.path.basename(f),n.lineno,name,na)
            if key in seen: continue
            seen.add(key)
            ci=cidx.get(name)
            if not ci: res['no-c-def']+=1; continue
            arities={x['nparams'] for x in ci}
            if None in arities and len(arities)==1: res['objmacro']+=1; continue
            if na in arities: res['ok']+=1
            else:
                res['MISMATCH']+=1; print('MISMATCH',key,sorted(a for a in arities if a is not None), s[max(0,m.start()-10):end+1][:110].replace('\n',' '))
print(res)
