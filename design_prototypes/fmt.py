import ast, glob, re, os
PH=re.compile(r'%(?:\((\w+)\))?[-#0 +]*(?:\*|\d+)?(?:\.(?:\*|\d+))?[hlL]?([diouxXeEfFgGcrsa%])')
tot=bad=0
for f in sorted(glob.glob('/repo/Cython/**/*.py', recursive=True)):
    if '/Tests/' in f: continue
    t=ast.parse(open(f).read())
    for n in ast.walk(t):
        if isinstance(n, ast.BinOp) and isinstance(n.op, ast.Mod) and isinstance(n.left, ast.Constant) and isinstance(n.left.value,(str,bytes)):
            s=n.left.value
            if isinstance(s,bytes): s=s.decode('latin1')
            phs=[m for m in PH.finditer(s)]
            named=[m.group(1) for m in phs if m.group(1)]
            pos=[m for m in phs if not m.group(1) and m.group(2)!='%']
            stars=s.count('*')  # rough
            r=n.right
            if named:
                if isinstance(r, ast.Dict) and all(isinstance(k, ast.Constant) for k in r.keys):
                    keys={k.value for k in r.keys}
                    tot+=1
                    miss=set(named)-keys
                    if miss: bad+=1; print('NAMED-MISSING',os.path.relpath(f,'/repo'),n.lineno,miss)
                continue
            if isinstance(r, ast.Tuple):
                if any(isinstance(e, ast.Starred) for e in r.elts): continue
                tot+=1
                if len(r.elts)!=len(pos) and '*' not in s:
                    bad+=1; print('COUNT',os.path.relpath(f,'/repo'),n.lineno,len(pos),len(r.elts),repr(s)[:70])
            elif isinstance(r,(ast.Constant,ast.JoinedStr,ast.Call,ast.Attribute,ast.Name,ast.Subscript,ast.BinOp)):
                # single arg (unless it is a tuple-valued name -> unknown)
                if isinstance(r,(ast.Constant,ast.JoinedStr)):
                    tot+=1
                    if len(pos)!=1: bad+=1; print('COUNT1',os.path.relpath(f,'/repo'),n.lineno,len(pos),repr(s)[:70])
print(tot,bad)
