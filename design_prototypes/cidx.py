import re, glob, os, json, sys
SEC=re.compile(r'^/{5,}\s*([\w.:]+)\s*/{5,}\s*$', re.M)
def sections(path):
    txt=open(path).read()
    out=[]; pos=0; name=None
    ms=list(SEC.finditer(txt))
    for i,m in enumerate(ms):
        end = ms[i+1].start() if i+1<len(ms) else len(txt)
        out.append((m.group(1), txt[m.end():end], txt.count('\n',0,m.end())+1))
    return out
def strip_comments(s):
    s=re.sub(r'/\*.*?\*/', lambda m: re.sub(r'[^\n]',' ',m.group(0)), s, flags=re.S)
    s=re.sub(r'//[^\n]*', '', s)
    return s
FUNC=re.compile(r'^(?:static|CYTHON_INLINE|CYTHON_UNUSED|CYTHON_SMALL_CODE|CYTHON_MAYBE_UNUSED_VAR|PyObject|int|void|double|Py_ssize_t|Py_UCS4|[\w\*]+\s)[\w\s\*]*?\b(__[Pp]yx_\w+)\s*\(([^;{}]*?)\)\s*(;|\{)', re.M)
MACRO=re.compile(r'^[ \t]*#\s*define\s+(__[Pp]yx_\w+)(\(([^)]*)\))?', re.M)
def split_params(p):
    p=p.strip()
    if p in ('','void'): return []
    depth=0; cur=''; out=[]
    for ch in p:
        if ch in '([': depth+=1
        if ch in ')]': depth-=1
        if ch==',' and depth==0: out.append(cur.strip()); cur=''
        else: cur+=ch
    out.append(cur.strip()); return out
idx={}
for f in sorted(glob.glob('/repo/Cython/Utility/*.c')+glob.glob('/repo/Cython/Utility/*.cpp')+glob.glob('/repo/Cython/Utility/*.h')):
    for name, body, line in sections(f):
        b=strip_comments(body)
        for m in FUNC.finditer(b):
            head=b[m.start():m.start(1)]
            idx.setdefault(m.group(1),[]).append(dict(file=os.path.basename(f),sec=name,kind='func' if m.group(3)=='{' else 'proto',nparams=len(split_params(m.group(2))),ret=' '.join(head.split()),params=split_params(m.group(2))))
        for m in MACRO.finditer(b):
            idx.setdefault(m.group(1),[]).append(dict(file=os.path.basename(f),sec=name,kind='macro',nparams=(len(split_params(m.group(3))) if m.group(2) else None)))
json.dump(idx, open('cidx.json','w'), indent=1)
print(len(idx),'names')
