import ast, glob, os, collections
for f in sorted(glob.glob('/repo/Cython/Compiler/*.py')):
    t=ast.parse(open(f).read())
    for cls in [n for n in ast.walk(t) if isinstance(n, ast.ClassDef)]:
        for m in [x for x in cls.body if isinstance(x, ast.FunctionDef)]:
            push=collections.Counter(); pop=collections.Counter()
            for n in ast.walk(m):
                if isinstance(n, ast.Call) and isinstance(n.func, ast.Attribute) and n.func.attr in('append','pop'):
                    tgt=ast.unparse(n.func.value)
                    if tgt.startswith('self.') and ('stack' in tgt or tgt.endswith(('loops','exceptions','positions','_stack','scopes','env_stack')) or 'loops[-1]' in tgt):
                        (push if n.func.attr=='append' else pop)[tgt]+=1
            for k in set(push)|set(pop):
                if push[k]!=pop[k]:
                    print(os.path.basename(f), cls.name, m.name, k, 'push',push[k],'pop',pop[k])
