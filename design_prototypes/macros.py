import re
src=open('/repo/Cython/Utility/ModuleSetupCode.c').read().split('\n')
depth=0; blocks=[]; cur=None
for i,l in enumerate(src):
    s=l.strip()
    m=re.match(r'#\s*(if|ifdef|ifndef|elif|else|endif)\b(.*)',s)
    if m:
        k=m.group(1)
        if k in('if','ifdef','ifndef'):
            depth+=1
            if depth==1 and i+1==65:
                cur={'cond':s,'defs':set(),'line':i+1}
        elif k in('elif','else'):
            if depth==1 and cur is not None:
                blocks.append(cur); cur={'cond':s,'defs':set(),'line':i+1}
        elif k=='endif':
            if depth==1 and cur is not None:
                blocks.append(cur); cur=None; print('chain ends',i+1); break
            depth-=1
        continue
    if cur is not None:
        m=re.match(r'#\s*define\s+(CYTHON_\w+)',s)
        if m: cur['defs'].add(m.group(1))
allm=set().union(*[b['defs'] for b in blocks])
print(len(blocks),'blocks',len(allm),'macros')
for b in blocks:
    print(b['line'],b['cond'][:70],len(b['defs']),'missing:',sorted(allm-b['defs']))
# macros used in #if across Utility but never defined in any block nor elsewhere
import glob
used=set()
for f in glob.glob('/repo/Cython/Utility/*'):
    try: t=open(f).read()
    except: continue
    for m in re.finditer(r'^\s*#\s*(?:if|elif)\b(.*)$', t, re.M):
        used|=set(re.findall(r'\bCYTHON_\w+', m.group(1)))
alldef=set(re.findall(r'#\s*define\s+(CYTHON_\w+)', '\n'.join(open(f).read() for f in glob.glob('/repo/Cython/Utility/*.c')+glob.glob('/repo/Cython/Utility/*.h')+glob.glob('/repo/Cython/Utility/*.cpp'))))
print('used in #if but never #defined in Utility:', sorted(used-alldef))
