import ast, glob, os
def subj(n):
    # X.has_constant_result() -> unparse(X)
    if isinstance(n, ast.Call) and isinstance(n.func, ast.Attribute) and n.func.attr=='has_constant_result' and not n.args:
        return ast.unparse(n.func.value)
def neg_guard(test):
    """return set of X such that test true implies not X.has_constant_result()"""
    out=set()
    if isinstance(test, ast.UnaryOp) and isinstance(test.op, ast.Not):
        s=subj(test.operand)
        if s: out.add(s)
    if isinstance(test, ast.BoolOp) and isinstance(test.op, ast.And):
        for v in test.values: out|=neg_guard(v)
    return out
def pos_guard_false(test):
    """X such that test FALSE implies not X.has_constant_result(): test == X.has_constant_result() or (.. or ..)"""
    out=set()
    s=subj(test)
    if s: out.add(s)
    if isinstance(test, ast.BoolOp) and isinstance(test.op, ast.Or):
        for v in test.values: out|=pos_guard_false(v)
    return out
for f in sorted(glob.glob('/repo/Cython/Compiler/*.py')):
    t=ast.parse(open(f).read())
    for n in ast.walk(t):
        if isinstance(n, ast.If):
            for X in neg_guard(n.test):
                for b in n.body:
                    for m in ast.walk(b):
                        if isinstance(m, ast.Attribute) and m.attr=='constant_result' and ast.unparse(m.value)==X and isinstance(m.ctx, ast.Load):
                            print('UNDER-NEG', os.path.basename(f), m.lineno, X)
            for X in pos_guard_false(n.test):
                for b in n.orelse:
                    for m in ast.walk(b):
                        if isinstance(m, ast.Attribute) and m.attr=='constant_result' and ast.unparse(m.value)==X and isinstance(m.ctx, ast.Load):
                            print('IN-ELSE', os.path.basename(f), m.lineno, X)
