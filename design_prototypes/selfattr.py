import ast, glob, os, collections, builtins
mods={}
for f in glob.glob('/repo/Cython/**/*.py', recursive=True):
    if '/Tests/' in f or '/Debugger/' in f: continue
    mods[f]=ast.parse(open(f).read())
classes=collections.defaultdict(list)
for f,t in mods.items():
    for n in ast.walk(t):
        if isinstance(n, ast.ClassDef):
            classes[n.name].append((f,n))
def bases(n):
    out=[]
    for b in n.bases:
        if isinstance(b, ast.Name): out.append(b.id)
        elif isinstance(b, ast.Attribute): out.append(b.attr)
        else: out.append('?')
    return out
def attrs_of(cname, seen=None):
    """all attribute names defined in class cname or bases; None if unknown base"""
    seen=seen or set()
    if cname in seen: return set()
    seen.add(cname)
    if cname not in classes: 
        return None
    res=set()
    for f,n in classes[cname][:1] if len(classes[cname])==1 else classes[cname]:
        for m in ast.walk(n):
            if isinstance(m,(ast.FunctionDef,ast.AsyncFunctionDef,ast.ClassDef)): res.add(m.name)
            elif isinstance(m, ast.Assign):
                for tg in m.targets:
                    for x in ast.walk(tg):
                        if isinstance(x, ast.Name) and isinstance(x.ctx, ast.Store): res.add(x.id)
                        if isinstance(x, ast.Attribute) and isinstance(x.value, ast.Name) and x.value.id in('self','cls'): res.add(x.attr)
            elif isinstance(m,(ast.AnnAssign,ast.AugAssign)):
                x=m.target
                if isinstance(x, ast.Name): res.add(x.id)
                if isinstance(x, ast.Attribute) and isinstance(x.value, ast.Name) and x.value.id in('self','cls'): res.add(x.attr)
        for b in bases(n):
            if b in ('object',): continue
            r=attrs_of(b, seen)
            if r is None: return None
            res|=r
    return res
cnt=0
for cname,lst in classes.items():
    if len(lst)!=1: continue
    f,n=lst[0]
    A=attrs_of(cname)
    if A is None: continue
    # subclasses may define attrs used by base (abstract) -> collect subclass attrs too
    for m in n.body:
        if not isinstance(m,(ast.FunctionDef,)): continue
        for c in ast.walk(m):
            if isinstance(c, ast.Call) and isinstance(c.func, ast.Attribute) and isinstance(c.func.value, ast.Name) and c.func.value.id=='self':
                if c.func.attr not in A and not hasattr(object, c.func.attr):
                    print(f"{os.path.relpath(f,'/repo')}:{c.lineno} {cname}.{m.name}: self.{c.func.attr}(...) undefined in MRO")
                    cnt+=1
print(cnt)
