import re, glob, json, os
cidx=json.load(open('cidx.json'))
DECL=re.compile(r'^\s*(?:cdef\s+)?([\w\s\*\[\]&,:\.]+?)\s+\**\s*(__[Pp]yx_\w+)\s*\(([^)]*)\)\s*(nogil)?\s*(except[^#\n]*|noexcept)?', re.M)
n=0
for f in sorted(glob.glob('/repo/Cython/Utility/*.pyx')+glob.glob('/repo/Cython/Utility/*.pxd')+glob.glob('/repo/Cython/Includes/cpython/*.pxd')[:0]):
    txt=open(f).read()
    for m in DECL.finditer(txt):
        ret,name,params,_,exc=m.groups()
        line=txt.count('\n',0,m.start())+1
        if name not in cidx: 
            continue
        ps=[p for p in params.split(',') if p.strip()]
        ar={x['nparams'] for x in cidx[name] if x['nparams'] is not None}
        n+=1
        if ar and len(ps) not in ar:
            print('ARITY', os.path.basename(f), line, name, len(ps), sorted(ar))
        # return/except consistency
        crets={x.get('ret','') for x in cidx[name] if x['kind']!='macro'}
        cret=' '.join(sorted(crets))
        if exc and 'except -1' in exc and 'int' not in cret and 'Py_ssize_t' not in cret and 'Py_hash_t' not in cret and crets:
            print('EXC?', os.path.basename(f), line, name, exc.strip(), '| C ret:', cret[:80])
        if (exc is None) and ('int' in cret.split() ) and 'void' not in cret:
            pass
print(n,'decls checked')
