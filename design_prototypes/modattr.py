import ast, glob, os, collections
PKG='/repo/Cython/Compiler/'
mods={}
for f in glob.glob(PKG+'*.py')+glob.glob('/repo/Cython/*.py'):
    mods[os.path.splitext(os.path.basename(f))[0]]=(f,ast.parse(open(f).read()))
def toplevel(t):
    names=set(); star=False
    def visit(body):
        nonlocal star
        for n in body:
            if isinstance(n,(ast.FunctionDef,ast.ClassDef,ast.AsyncFunctionDef)): names.add(n.name)
            elif isinstance(n, ast.Assign):
                for tg in n.targets:
                    for x in ast.walk(tg):
                        if isinstance(x, ast.Name): names.add(x.id)
            elif isinstance(n,(ast.AnnAssign,ast.AugAssign)):
                if isinstance(n.target, ast.Name): names.add(n.target.id)
            elif isinstance(n, ast.Import):
                for a in n.names: names.add((a.asname or a.name).split('.')[0])
            elif isinstance(n, ast.ImportFrom):
                for a in n.names:
                    if a.name=='*': star=True
                    names.add(a.asname or a.name)
            elif isinstance(n,(ast.If,ast.Try,ast.With,ast.For,ast.While)):
                for fld in ('body','orelse','finalbody'):
                    visit(getattr(n,fld,[]) or [])
                for h in getattr(n,'handlers',[]): visit(h.body)
                if isinstance(n, ast.For):
                    for x in ast.walk(n.target):
                        if isinstance(x, ast.Name): names.add(x.id)
            elif isinstance(n, ast.Expr) and isinstance(n.value, ast.Call):
                # cython.declare(X=..., )
                c=n.value
                for k in c.keywords:
                    if k.arg: names.add(k.arg)
    visit(t.body)
    # globals()[..] / setattr patterns
    dyn=any(isinstance(x, ast.Call) and isinstance(x.func, ast.Name) and x.func.id in('globals','vars','setattr') for x in ast.walk(t))
    return names, star or dyn
tops={m:toplevel(t) for m,(f,t) in mods.items()}
cnt=0;bad=0
for m,(f,t) in mods.items():
    if not f.startswith(PKG): continue
    # imported module aliases
    alias={}
    for n in ast.walk(t):
        if isinstance(n, ast.ImportFrom) and n.module is None and n.level==1:
            for a in n.names:
                if a.name in mods: alias[a.asname or a.name]=a.name
        if isinstance(n, ast.ImportFrom) and n.module in('','.',None): pass
    for n in ast.walk(t):
        if isinstance(n, ast.Attribute) and isinstance(n.value, ast.Name) and n.value.id in alias:
            tm=alias[n.value.id]; names,dyn=tops[tm]
            cnt+=1
            if n.attr not in names:
                bad+=1; print(('DYN ' if dyn else '')+'MISSING',os.path.basename(f),n.lineno,f'{n.value.id}.{n.attr}')
print(cnt,bad)
