#!/venv/bin/python
"""Regression mutants: the reverse of every `fix:` commit of /repo is a breaking change the checks must report.

For each fix commit listed in known_findings.txt (`fixed: property=<id> <sha> ...`) write regress/<sha>/patch.diff (reverse diff, sources only),
try to apply it to a scratch copy of the current sources and run the checks of the properties the ledger names for that commit; record the
outcome in regress/<sha>/meta.json (caught_by / stale).  The thorough tier (sa/selfcheck.py) replays the ones recorded as caught."""
import json, os, re, subprocess, sys, tempfile, shutil

VERIF = os.path.dirname(os.path.dirname(os.path.abspath(__file__)))
sys.path.insert(0, VERIF)


def sh(cmd, cwd=None):
    p = subprocess.run(cmd, shell=True, cwd=cwd, stdout=subprocess.PIPE, stderr=subprocess.STDOUT, text=True)
    return p.returncode, p.stdout


def main():
    fixes = {}
    for line in open(os.path.join(VERIF, 'known_findings.txt')):
        m = re.match(r'fixed:\s+property=(\S+)\s+([0-9a-f]{7,12})\s+(.*)$', line.strip())
        if m:
            fixes.setdefault(m.group(2), {'props': [], 'what': m.group(3)})['props'].append(m.group(1))
    only = sys.argv[1:]
    for sha, info in sorted(fixes.items()):
        if only and sha not in only:
            continue
        rc, _ = sh('git -C /repo cat-file -e %s^{commit}' % sha)
        if rc != 0:
            print(sha, 'not a commit of /repo (history rewritten?) - skipped')
            continue
        d = os.path.join(VERIF, 'regress', sha)
        os.makedirs(d, exist_ok=True)
        rc, diff = sh('git -C /repo diff %s %s~1 -- Cython pyximport' % (sha, sha))
        open(os.path.join(d, 'patch.diff'), 'w').write(diff)
        meta = {'kind': 'revert-of-fix', 'commit': sha, 'properties': sorted(set(info['props'])), 'what': info['what'], 'caught_by': {}, 'stale': False}
        scratch = tempfile.mkdtemp(prefix='verif_regress_')
        try:
            sh('cp -r /repo/Cython /repo/pyximport %s/ && mkdir -p %s/docs/src && cp -r /repo/docs/src/userguide %s/docs/src/ ; find %s -name "*.so" -delete' % (scratch, scratch, scratch, scratch))
            rc, out = sh('patch -p1 --no-backup-if-mismatch -F3 -s < %s' % os.path.join(d, 'patch.diff'), cwd=scratch)
            if rc != 0:
                meta['stale'] = True
                meta['apply_output'] = out[-300:]
            else:
                for pid in meta['properties']:
                    rc0, base = sh('./check %s --no-evidence --quiet' % pid, cwd=VERIF)
                    basekeys = {l.strip().split(' — ')[0] for l in base.splitlines() if l.startswith('  ') and ' — ' in l}
                    rc1, out1 = sh('./check %s --no-evidence --quiet --scratch %s --repo %s' % (pid, scratch, scratch), cwd=VERIF)
                    lines = [l.strip() for l in out1.splitlines() if l.startswith('  ') and ' — ' in l and l.strip().split(' — ')[0] not in basekeys]
                    if rc1 == 1 and lines:
                        meta['caught_by'][pid] = [l[:300] for l in lines[:3]]
                    elif rc1 == 2:
                        meta.setdefault('analysis_error', {})[pid] = out1.strip()[-200:]
        finally:
            shutil.rmtree(scratch, ignore_errors=True)
            sh('rm -f /tmp/replay-C*.json')
        json.dump(meta, open(os.path.join(d, 'meta.json'), 'w'), indent=1)
        print(sha, meta['properties'], 'STALE' if meta['stale'] else ('caught by %s' % sorted(meta['caught_by']) if meta['caught_by'] else 'NOT REPORTED'), '|', info['what'][:70])


if __name__ == '__main__':
    main()
