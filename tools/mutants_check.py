#!/venv/bin/python
"""Apply every recorded mutant (mutants/<ID>/<name>/patch.diff) to a scratch copy of /repo's sources, run the check of its property and
refresh meta.json (`caught_by`, `stale`, `analysis_error`).

usage: tools/mutants_check.py [ID ...] [--only name-substring] [--jobs N] [--dry]
A breaking mutant that is not reported and a behaviour-preserving rewrite that is reported are listed at the end."""
import json, os, subprocess, sys
from concurrent.futures import ProcessPoolExecutor

VERIF = os.path.dirname(os.path.dirname(os.path.abspath(__file__)))


def sh(cmd, cwd=None):
    p = subprocess.run(cmd, shell=True, cwd=cwd, stdout=subprocess.PIPE, stderr=subprocess.STDOUT, text=True)
    return p.returncode, p.stdout


def one(job):
    pid, name = job
    d = os.path.join(VERIF, 'mutants', pid, name)
    scratch = '/tmp/mutchk_%s_%d' % (pid, os.getpid())
    sh('rm -rf %s && mkdir -p %s && cp -r /repo/Cython /repo/pyximport %s/ && mkdir -p %s/docs/src && cp -r /repo/docs/src/userguide %s/docs/src/ ; find %s -name "*.so" -delete' % (
        scratch, scratch, scratch, scratch, scratch, scratch))
    try:
        rc, out = sh('patch -p1 --no-backup-if-mismatch -F3 < %s' % os.path.join(d, 'patch.diff'), cwd=scratch)
        if rc != 0:
            return pid, name, 'stale', []
        rc, out = sh('./check %s --no-evidence --quiet --scratch %s --repo %s' % (pid, scratch, scratch), cwd=VERIF)
        lines = [l.strip() for l in out.splitlines() if l.startswith('  ') and ' — ' in l]
        if rc == 1:
            return pid, name, 'reported', [l[:300] for l in lines[:3]]
        if rc == 0:
            return pid, name, 'silent', []
        return pid, name, 'error', [out.strip().splitlines()[-1][:300] if out.strip() else 'exit %d' % rc]
    finally:
        sh('rm -rf %s' % scratch)


def main():
    args = sys.argv[1:]
    jobs_n, only, dry = 16, None, False
    ids = []
    i = 0
    while i < len(args):
        if args[i] == '--jobs':
            jobs_n = int(args[i + 1]); i += 2
        elif args[i] == '--only':
            only = args[i + 1]; i += 2
        elif args[i] == '--dry':
            dry = True; i += 1
        else:
            ids.append(args[i]); i += 1
    md = os.path.join(VERIF, 'mutants')
    jobs = []
    for pid in sorted(os.listdir(md)):
        if (ids and pid not in ids) or not os.path.isdir(os.path.join(md, pid)):
            continue
        for name in sorted(os.listdir(os.path.join(md, pid))):
            if only and only not in name:
                continue
            if os.path.exists(os.path.join(md, pid, name, 'patch.diff')) and os.path.exists(os.path.join(md, pid, name, 'meta.json')):
                jobs.append((pid, name))
    bad = []
    n = {'reported': 0, 'silent': 0, 'stale': 0, 'error': 0}
    with ProcessPoolExecutor(jobs_n) as ex:
        for pid, name, outcome, lines in ex.map(one, jobs, chunksize=1):
            mp = os.path.join(md, pid, name, 'meta.json')
            try:
                m = json.load(open(mp))
            except ValueError:
                print('unreadable meta', mp)
                continue
            n[outcome] += 1
            breaking = bool(m.get('breaking'))
            if outcome == 'stale':
                m['stale'] = True
            else:
                m.pop('stale', None)
                m.pop('analysis_error', None)
                if outcome == 'reported':
                    m['caught_by'] = {pid: lines[:1] or ['reported']}
                elif outcome == 'silent':
                    m['caught_by'] = {}
                else:
                    m['caught_by'] = {}
                    m['analysis_error'] = {pid: lines}
            if not dry:
                json.dump(m, open(mp, 'w'), indent=1)
            if outcome != 'stale' and ((breaking and outcome != 'reported' and not m.get('declined_reason')) or (not breaking and outcome != 'silent')):
                bad.append((pid, name, 'breaking' if breaking else 'preserving', outcome, (lines or [''])[0][:160]))
    print('mutants: %d reported, %d silent, %d stale, %d analysis errors' % (n['reported'], n['silent'], n['stale'], n['error']))
    for b in bad:
        print('  UNEXPECTED %s/%s (%s): %s %s' % b)
    return 0


if __name__ == '__main__':
    sys.exit(main())
