#!/venv/bin/python
"""Regenerate /verif/MANIFEST.json from the property modules under sa/props and NOT_APPLICABLE below."""
import importlib, json, os, sys
HERE = os.path.dirname(os.path.dirname(os.path.abspath(__file__)))
sys.path.insert(0, HERE)

NOT_APPLICABLE = {
    'C06': 'agreement of double arithmetic and of a hand-written float parser with CPython on every input is a property of numeric values and of a recognised language; no structural clause is both necessary and decidable without running code (DESIGN.md section 5)',
    'C08': 'IEEE special-value behaviour of the complex helpers is numeric; no table/protocol-shaped clause exists that static analysis could decide',
    'C26': 'freshness of a version-tagged lookup cache over mutation histories; the mechanism is a two-line macro that could only be matched as a frozen text fragment (and is compiled out on CPython >= 3.12)',
    'C27': 'same dict-version mechanism as C26; a history property with no structural necessary clause',
    'C34': 'run-time dispatch on argument types generated from a type lattice; nothing table-shaped to compare statically',
    'C47': 'equivalence of a hand-written scanner with the Python tokenizer on all inputs; the only structural facts are not necessary conditions in a refactoring-robust form',
}
HOLD = set(open(os.path.join(HERE, 'tools', 'hold.txt')).read().split()) if os.path.exists(os.path.join(HERE, 'tools', 'hold.txt')) else set()
NOT_BUILT = 'static rule designed (DESIGN.md section 4) but not built/validated yet; not claimed until its core rules are silent on the clean tree and fire on their self-test variants'

props = [json.loads(l) for l in open(os.path.join(HERE, 'properties.jsonl'))]
checks, na = [], []
for p in props:
    pid = p['id']
    if pid in NOT_APPLICABLE:
        na.append({'property_id': pid, 'reason': NOT_APPLICABLE[pid]})
        continue
    if pid in HOLD or not os.path.exists(os.path.join(HERE, 'sa', 'props', pid + '.py')):
        na.append({'property_id': pid, 'reason': NOT_BUILT})
        continue
    mod = importlib.import_module('sa.props.' + pid)
    checks.append({
        'property_id': pid,
        'quick_cmd': './check %s --tier quick' % pid,
        'thorough_cmd': './check %s --tier thorough' % pid,
        'evidence_file': '/verif/evidence/%s.json' % pid,
        'replay_cmd_template': './check %s --replay {path}' % pid,
        'engine': 'sa',
        'level_claimed': {
            'category': 'other',
            'text': 'Static decision of structural clauses that are necessary conditions of the property, on the current source of /repo, '
                    'for all rule instances found (exhaustive over the source, not over behaviours). Decides: %s Not decided: %s' % (
                        ' '.join(mod.DECIDES.split()), ' '.join(mod.NOT_DECIDED.split())),
            'design_ref': 'DESIGN.md section 4, ' + pid,
        },
        'level_note': 'Trusted base: CPython 3.12 ast module, nominal name resolution (exact for name-dispatched code), frozen reference tables in sa/reference.py, '
                      'installed CPython headers/stdlib as reference tables; clang 14 as a parser where used. The behaviour itself is not executed. '
                      'Thorough tier = the same decision on the tree under test, plus a liveness pass: every recorded breaking change of this property (mutation corpus of tools/selftest.py, '
                      'independently seeded defects under seeded/, reverted fix commits under regress/) is applied to a scratch copy of the sources and the rules are re-run on it; '
                      'the outcome (reported / stale / not reported) is written to the evidence file and a SELFCHECK line and does not change the verdict.',
        'technique': 'static analysis: ' + mod.TECHNIQUE,
    })
man = {
    'version': 1,
    'setup_cmd': '/venv/bin/python -m compileall -q sa >/dev/null 2>&1; true',
    'hooks': {
        'guard': 'CYTHON_VERIF_STATIC',
        'enable': 'no hooks: every check is a reader of source files under /repo (nothing to enable)',
        'baseline_off_cmd': 'cd /repo && /venv/bin/python -m pytest -ra -q -p no:cacheprovider --timeout=900 --continue-on-collection-errors',
        'source_commits': [],
        'add_only': True,
    },
    'engines': [
        {'name': 'sa', 'path': '/verif/sa', 'serves_properties': [c['property_id'] for c in checks],
         'kind_free_text': 'custom static analyser (Python ast class/call graph, structured dataflow, C utility-code catalogue, table extraction, clang front end for the thorough tier)'},
    ],
    'checks': checks,
    'notes': 'All checks are static: they read /repo sources on every run and never import or execute them. Exit 2 = ANALYSIS-ERROR (checker cannot find its anchors).',
    'not_applicable': na,
}
json.dump(man, open(os.path.join(HERE, 'MANIFEST.json'), 'w'), indent=1)
print('claimed', len(checks), 'not_applicable', len(na))
