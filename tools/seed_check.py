#!/venv/bin/python
"""Run the built checks against a confirmed seeded defect: apply seeded/<id>/patch.diff to /repo, run ./check for
every built property (quick tier, no evidence written), restore /repo.  Records which checks caught it in meta.json."""
import json, os, subprocess, sys

VERIF = os.path.dirname(os.path.dirname(os.path.abspath(__file__)))


def sh(cmd, cwd=None):
    p = subprocess.run(cmd, shell=True, cwd=cwd, stdout=subprocess.PIPE, stderr=subprocess.STDOUT, text=True)
    return p.returncode, p.stdout


def main():
    tier = 'thorough' if '--thorough' in sys.argv else 'quick'
    ids = [a for a in sys.argv[1:] if not a.startswith('--')]
    own_only = '--own' in sys.argv      # run only the check of the seed's own property (fast)
    all_props = props = sorted(f[:-3] for f in os.listdir(os.path.join(VERIF, 'sa', 'props')) if f.startswith('C') and f.endswith('.py'))
    # baseline: violation lines of every check on the unmodified tree (pending findings must not count as "caught")
    import concurrent.futures as cf
    baseline = {}

    def base(p):
        rc, out = sh('./check %s --no-evidence --quiet --tier %s --scratch /tmp' % (p, tier), cwd=VERIF)
        return p, (None if rc == 2 else {l.strip().split(' — ')[0].split(' ', 2)[-1] for l in out.splitlines() if l.startswith('  ') and ' — ' in l})
    with cf.ThreadPoolExecutor(max_workers=12) as ex:
        for p, b in ex.map(base, props):
            baseline[p] = b
    for sid in ids:
        d = os.path.join(VERIF, 'seeded', sid)
        meta = json.load(open(os.path.join(d, 'meta.json')))
        props = [meta['property']] if own_only else all_props
        # a scratch copy of the analysed part of /repo's working tree (the checks only read sources), so that
        # concurrent work on /repo is not disturbed; equivalent to `git -C /repo apply` + `git checkout -- .`
        scratch = '/tmp/seedrepo_%s_%d' % (sid, os.getpid())
        sh('rm -rf %s && mkdir -p %s && cp -r /repo/Cython /repo/pyximport %s/ && mkdir -p %s/docs/src && cp -r /repo/docs/src/userguide %s/docs/src/ ; '
           'find %s -name "*.so" -delete' % (scratch, scratch, scratch, scratch, scratch, scratch))
        patch = os.path.join(d, 'patch.diff')
        if os.path.exists(os.path.join(d, 'patch_ported.diff')):
            patch = os.path.join(d, 'patch_ported.diff')
        rc, out = sh('patch -p1 --no-backup-if-mismatch -F3 < %s' % patch, cwd=scratch)
        if rc != 0:
            sh('rm -rf %s' % scratch)
            print(sid, 'PATCH DOES NOT APPLY to current /repo:', out[-300:])
            continue
        caught = {}
        refused = {}      # checks that refused to decide the patched tree (exit 2): not a VIOLATION, reported separately
        try:
            def one(p):
                return p, sh('./check %s --no-evidence --quiet --tier %s --scratch %s --repo %s' % (p, tier, scratch, scratch), cwd=VERIF)
            with cf.ThreadPoolExecutor(max_workers=12) as ex:
                results = list(ex.map(one, props))
            for p, (rc, out) in results:
                lines = [l for l in out.splitlines() if l.startswith('  ') and ' — ' in l]
                if baseline.get(p) is None:
                    continue
                lines = [l for l in lines if l.strip().split(' — ')[0].split(' ', 2)[-1] not in baseline[p]]
                if rc == 1 and lines:
                    caught[p] = [l.strip()[:300] for l in lines][:4]
                elif rc == 2:
                    refused[p] = 'ANALYSIS-ERROR: ' + out.strip()[-300:]
        finally:
            sh('rm -rf %s' % scratch)
            sh('rm -f /tmp/replay-C*.json')
        meta['checks_run'] = props
        meta['tier'] = tier
        meta['caught_by'] = caught
        meta['analysis_error'] = refused
        meta['caught'] = bool(caught)
        json.dump(meta, open(os.path.join(d, 'meta.json'), 'w'), indent=1)
        print(sid, 'prop', meta['property'], 'CAUGHT by %s' % sorted(caught) if caught else ('MISSED' + (' (analysis-error in %s)' % sorted(refused) if refused else '')))
        for p, ls in caught.items():
            for l in ls[:2]:
                print('    ', p, l[:200])


if __name__ == '__main__':
    main()
