#!/venv/bin/python
"""Confirm a seeded defect produced by an independent sub-agent and record it under /verif/seeded/<id>/.

usage: tools/seed.py <src_dir with patch.diff demo.py README.md> <seed id e.g. C13a> <property id> [--no-suite]

Steps (all in a scratch worktree of /repo's HEAD under /tmp, removed afterwards):
  1. demo on the unmodified tree must exit 0
  2. patch applies; demo must exit non-zero
  3. pinned test suite with the patch: same pass count as BASELINE (504)
Then, separately, the patch is applied to /repo itself, ./check <property> (and every other built check) is run,
and /repo is restored with `git checkout -- .`.
"""
import json, os, shutil, subprocess, sys, time

VERIF = os.path.dirname(os.path.dirname(os.path.abspath(__file__)))


def sh(cmd, cwd=None, env=None, timeout=1800):
    p = subprocess.run(cmd, shell=True, cwd=cwd, env=env, stdout=subprocess.PIPE, stderr=subprocess.STDOUT, text=True, timeout=timeout)
    return p.returncode, p.stdout


def main():
    src, sid, pid = sys.argv[1:4]
    suite = '--no-suite' not in sys.argv
    dst = os.path.join(VERIF, 'seeded', sid)
    os.makedirs(dst, exist_ok=True)
    for f in ('patch.diff', 'demo.py', 'README.md'):
        if os.path.exists(os.path.join(src, f)):
            shutil.copy(os.path.join(src, f), os.path.join(dst, f))
    wt = '/tmp/seedverify_%s' % sid
    sh('git -C /repo worktree remove --force %s' % wt)
    rc, out = sh('git -C /repo worktree add --detach %s HEAD' % wt)
    meta = {'seed': sid, 'property': pid, 'repo_head': sh('git -C /repo rev-parse --short HEAD')[1].strip(), 'steps': {}}
    env = dict(os.environ, PYTHONPATH=wt, PYTHONDONTWRITEBYTECODE='1')
    try:
        rc0, out0 = sh('/venv/bin/python %s/demo.py' % dst, cwd=wt, env=env)
        meta['steps']['demo_unpatched'] = {'rc': rc0, 'tail': out0[-600:]}
        rca, outa = sh('git apply %s/patch.diff' % dst, cwd=wt)
        meta['steps']['apply'] = {'rc': rca, 'out': outa[-300:]}
        rc1, out1 = sh('/venv/bin/python %s/demo.py' % dst, cwd=wt, env=env)
        meta['steps']['demo_patched'] = {'rc': rc1, 'tail': out1[-900:]}
        if suite and rca == 0:
            rcs, outs = sh('/venv/bin/python -m pytest -q -p no:cacheprovider --timeout=900 --continue-on-collection-errors 2>&1 | tail -3', cwd=wt, env=env)
            meta['steps']['suite_patched'] = {'tail': outs[-400:]}
            meta['suite_504_passed'] = '504 passed' in outs
        meta['confirmed'] = (rc0 == 0 and rca == 0 and rc1 != 0 and (not suite or meta.get('suite_504_passed', False)))
    finally:
        sh('git -C /repo worktree remove --force %s' % wt)
        sh('rm -rf %s' % wt)
    json.dump(meta, open(os.path.join(dst, 'meta.json'), 'w'), indent=1)
    print(sid, 'confirmed' if meta.get('confirmed') else 'NOT CONFIRMED', {k: v.get('rc') for k, v in meta['steps'].items() if 'rc' in v}, meta.get('suite_504_passed'))


if __name__ == '__main__':
    main()
