#!/venv/bin/python
"""E6 — mutation self-test of the checker ("test the checker both ways").

For every variant: copy the analysed part of /repo to a scratch directory under /tmp, apply ONE textual edit,
run `./check <prop> --repo <scratch>`, and compare with the expectation:
  kind 'break'    -> exit 1 and some violation line mentions the expected rule id
  kind 'preserve' -> exit 0 (behaviour-preserving refactoring: the checker must stay silent)
The unedited copy must be silent (exit 0) for every property in the corpus.
Scratch copies are removed afterwards.  Usage: tools/selftest.py [-j N] [PROP ...]
"""
import concurrent.futures as cf, json, os, shutil, subprocess, sys, tempfile, time

VERIF = os.path.dirname(os.path.dirname(os.path.abspath(__file__)))
B, P = 'break', 'preserve'
CORPUS = [
    # prop, kind, file, old text, new text, expected rule id
    ('C44', B, 'Cython/Compiler/LineTable.py', 'start_column < 80', 'start_column <= 80', 'C44-NUM'),
    ('C44', B, 'Cython/Compiler/LineTable.py', '(end_column - start_column) < 16', '(end_column - start_column) <= 16', 'C44-NUM'),
    ('C44', B, 'Cython/Compiler/LineTable.py', 'start_column < 128 and', 'start_column <= 128 and', 'C44-NUM'),
    ('C44', B, 'Cython/Compiler/LineTable.py', 'low_bits << 4', 'low_bits << 3', 'C44-NUM'),
    ('C44', B, 'Cython/Compiler/LineTable.py', '= 10 + line_delta', '= 11 + line_delta', 'C44-NUM'),
    ('C44', B, 'Cython/Compiler/LineTable.py', 'last_lineno_delta < 3 and', 'last_lineno_delta < 4 and', 'C44-NUM'),
    ('C44', B, 'Cython/Compiler/LineTable.py', '64 | (value & 63)', '(value & 63)', 'C44-NUM'),
    ('C44', B, 'Cython/Compiler/LineTable.py', 'value >>= 6', 'value >>= 7', 'C44-NUM'),
    ('C44', B, 'Cython/Compiler/LineTable.py', 'while value >= 64:', 'while value > 64:', 'C44-NUM'),
    ('C44', B, 'Cython/Compiler/LineTable.py', '    return start_lineno\n', '    return end_lineno\n', 'C44-BASE'),
    ('C44', P, 'Cython/Compiler/LineTable.py', 'low_bits: cython.int = start_column & 7', 'low_bits: cython.int = 7 & start_column', ''),
    ('C12', B, 'Cython/LZSS.py', 'output.append(length - 3)', 'output.append(length - 2)', 'C12-BITS'),
    ('C12', B, 'Cython/LZSS.py', 'offset <= 0x7F:', 'offset <= 0x80:', 'C12-BITS'),
    ('C12', B, 'Cython/LZSS.py', '0x180) >> 2', '0x180) >> 1', 'C12-BITS'),
    ('C12', B, 'Cython/LZSS.py', 'offset < (1 << 9)', 'offset <= (1 << 9)', 'C12-BITS'),
    ('C12', B, 'Cython/LZSS.py', 'offset -= 0x80', 'offset -= 0x7F', 'C12-BITS'),
    ('C12', B, 'Cython/LZSS.py', '(flag << 7) | (flags >> 1)', '(flag << 6) | (flags >> 1)', 'C12-STRUCT'),
    ('C12', B, 'Cython/Utility/StringTools.c', 'match_length += 3;', 'match_length += 2;', 'C12-BITS'),
    ('C12', B, 'Cython/Utility/StringTools.c', '(hi << 2) & 0x180', '(hi << 2) & 0x100', 'C12-BITS'),
    ('C12', B, 'Cython/Utility/StringTools.c', 'if (out_pos >= dst_len) return pos;', 'if (out_pos > dst_len) return pos;', 'C12-STRUCT'),
    ('C12', B, 'Cython/Utility/StringTools.c', 'algo == 2 ? "bz2"', 'algo == 1 ? "bz2"', 'C12-ALG'),
    ('C12', P, 'Cython/Utility/StringTools.c', 'uint32_t lo = src[pos++], hi = src[pos++];', 'uint32_t lo = src[pos++];\n                uint32_t hi = src[pos++];', ''),
    ('C49', B, 'Cython/StringIOTree.py', '        self.commit()\n        self.prepended_children.append(iotree)', '        self.prepended_children.append(iotree)', 'C49b'),
    ('C49', B, 'Cython/StringIOTree.py', '            self.prepended_children[-1].markers = self.markers\n', '', 'C49c'),
    ('C49', B, 'Cython/Compiler/Code.py', "        self.buffer.markers.extend([filename_line] * s.count('\\n'))", "        self.buffer.markers.extend([filename_line] * len(s.splitlines()))", 'C49d'),
    ('C49', P, 'Cython/StringIOTree.py', '        for child in self.prepended_children:\n            child.copyto(target)', '        kids = self.prepended_children\n        for child in kids:\n            child.copyto(target)', ''),
    ('C48', B, 'Cython/Compiler/Options.py', "elif key in ['cplus', 'language_level', 'compile_time_env', 'np_pythran']:", "elif key in ['cplus', 'compile_time_env', 'np_pythran']:\n                data[key] = value\n            elif key in ['language_level']:\n                continue\n            elif key in ['zzz']:", 'K1'),
    ('C48', B, 'Cython/Build/Cache.py', '            m.update(compilation_options.get_fingerprint().encode("UTF-8"))\n', '', 'K1b'),
    ('C48', B, 'Cython/Build/Dependencies.py', '            if loop is None:\n                seen[node] = deps', '            seen[node] = deps', 'DEP1'),
    ('C48', B, 'Cython/Build/Inline.py', 'key_hash = _inline_key(orig_code, arg_sigs, language_level, cython_compiler_directives, cython_include_dirs)', 'key_hash = _inline_key(orig_code, arg_sigs, language_level, None, cython_include_dirs)', 'K2'),
    ('C09', B, 'Cython/Compiler/ExprNodes.py', 'else (node.type, node.constant_result, repr(node.constant_result),', 'else (node.type, node.constant_result,', 'K3'),
    ('C09', B, 'Cython/Compiler/Code.py', "c = self.num_const_index[(str_value, 'float')]", "c = self.num_const_index[(float(str_value), 'float')]", 'K3n'),
    ('C25', B, 'Cython/CodeWriter.py', "        '*': 10, '@': 10, '/': 10, '//': 10, '%': 10,", "        '*': 10, '@': 10, '/': 10, '%': 10,", 'C25-PREC'),
    ('C25', B, 'Cython/CodeWriter.py', "        self.precedence[-1] = prec if op == '**' else prec + 1\n", "", 'C25-ASSOC'),
    ('C25', B, 'Cython/Compiler/Code.py', 'max_posonly_args = max(max_posonly_args, def_node.num_posonly_args)', 'max_posonly_args = max(max_kwonly_args, def_node.num_posonly_args)', 'C25-FIELDS'),
    ('C42', B, 'Cython/Build/Dependencies.py', 'return tuple(sorted(cimports)), externs, incdirs', 'return tuple(cimports), externs, incdirs', 'D1'),
    ('C42', B, 'Cython/Compiler/Nodes.py', 'for temp, type in sorted(temps):', 'for temp, type in temps:', 'D1'),
    ('C43', B, 'Cython/Compiler/Nodes.py', 'UtilityCode.load_cached("KeywordStringCheck", "FunctionArguments.c")', 'UtilityCode.load_cached("KeywordStringChecks", "FunctionArguments.c")', 'I1'),
    ('C43', B, 'Cython/Compiler/Options.py', '    elif callable(type) and not isinstance(type, _type_class):\n        return type(name, value)', '    elif callable(type):\n        return type(name, value)', 'L5'),
    ('C41', B, 'Cython/Compiler/ParseTreeTransforms.py', '        retbody = self.visit_Node(node)\n        self.directives = old_directives\n', '        retbody = self.visit_Node(node)\n', 'V3'),
    ('C13', B, 'Cython/Compiler/Optimize.py', '            node, args, 3, PyrexTypes.c_py_ssize_t_type, "-1", none_is_default=False)', '            node, args, 3, PyrexTypes.c_py_ssize_t_type, "-1")', 'TRN2'),
    ('C13', B, 'Cython/Compiler/Optimize.py', '    def _handle_simple_method_unicode_replace(', '    def _handle_simple_method_unicode_replaces(', 'V1h'),
    ('C01', B, 'Cython/Compiler/Nodes.py', '    #  else_clause  StatNode\n\n    child_attrs = ["condition", "body", "else_clause"]\n\n    def analyse_declarations(self, env):', '    #  else_clause  StatNode\n\n    child_attrs = ["condition", "body"]\n\n    def analyse_declarations(self, env):', 'T1'),
    ('C22', B, 'Cython/Compiler/Nodes.py', '        code.return_label = old_return_label\n        code.break_label = old_break_label\n        code.continue_label = old_continue_label\n        code.error_label = old_error_label\n', '        code.return_label = old_return_label\n        code.break_label = old_break_label\n        code.continue_label = old_continue_label\n', 'G3'),
    ('C35', B, 'Cython/Compiler/Nodes.py', '        for cname in exc_save_vars:\n            code.funcstate.release_temp(cname)\n', '', 'G2'),
]


def run_variant(i, v, base):
    prop, kind, rel, old, new, rule = v
    d = tempfile.mkdtemp(prefix='selftest_', dir='/tmp')
    try:
        shutil.copytree(os.path.join(base, 'Cython'), os.path.join(d, 'Cython'), ignore=shutil.ignore_patterns('*.so', '__pycache__'))
        shutil.copytree(os.path.join(base, 'pyximport'), os.path.join(d, 'pyximport'), ignore=shutil.ignore_patterns('__pycache__'))
        if os.path.isdir(os.path.join(base, 'docs', 'src', 'userguide')):
            os.makedirs(os.path.join(d, 'docs', 'src'))
            shutil.copytree(os.path.join(base, 'docs', 'src', 'userguide'), os.path.join(d, 'docs', 'src', 'userguide'))
        p = os.path.join(d, rel)
        s = open(p, encoding='utf-8').read()
        if s.count(old) != 1:
            return (i, v, 'STALE', 'anchor text occurs %d times' % s.count(old))
        open(p, 'w', encoding='utf-8').write(s.replace(old, new))
        r = subprocess.run([os.path.join(VERIF, 'check'), prop, '--repo', d, '--no-evidence', '--quiet', '--scratch', d],
                           stdout=subprocess.PIPE, stderr=subprocess.STDOUT, text=True, cwd=VERIF)
        viol = [l for l in r.stdout.splitlines() if ' — ' in l]
        if kind == B:
            ok = r.returncode == 1 and any(l.strip().startswith(rule) for l in viol)
            return (i, v, 'ok' if ok else 'MISSED', 'rc=%d %s' % (r.returncode, (viol or [r.stdout.strip()[-200:]])[0][:200]))
        ok = r.returncode == 0
        return (i, v, 'ok' if ok else 'FALSE-ALARM', 'rc=%d %s' % (r.returncode, (viol or [''])[0][:200]))
    finally:
        shutil.rmtree(d, ignore_errors=True)


def main():
    args = [a for a in sys.argv[1:] if not a.startswith('-')]
    jobs = 16
    if '-j' in sys.argv:
        jobs = int(sys.argv[sys.argv.index('-j') + 1]); args = [a for a in args if a != str(jobs)]
    corpus = [v for v in CORPUS if not args or v[0] in args]
    t0 = time.time()
    res = []
    with cf.ThreadPoolExecutor(max_workers=jobs) as ex:
        futs = [ex.submit(run_variant, i, v, '/repo') for i, v in enumerate(corpus)]
        for f in cf.as_completed(futs):
            res.append(f.result())
    res.sort(key=lambda x: x[0])
    bad = 0
    for i, v, status, info in res:
        if status != 'ok':
            bad += 1
        print('%-11s %s %-8s %s :: %s' % (status, v[0], v[1], v[3][:50].replace('\n', ' '), info if status != 'ok' else v[5]))
    print('selftest: %d variants, %d not ok, %.1fs' % (len(res), bad, time.time() - t0))
    out = os.path.join(VERIF, 'evidence', 'selftest.json')
    json.dump([dict(prop=v[0], kind=v[1], file=v[2], old=v[3], new=v[4], expected_rule=v[5], status=s, info=info) for i, v, s, info in res], open(out, 'w'), indent=1)
    return 1 if bad else 0


if __name__ == '__main__':
    sys.exit(main())
