#!/venv/bin/python
"""Run ONE property check against ONE seeded defect on a scratch copy of /repo's sources (fast: a few seconds).

usage: tools/seed_one.py <seed id> [<property id>]      e.g. tools/seed_one.py C15a   or   tools/seed_one.py C15a C36
Prints the check's verdict lines for the patched copy; exit code = exit code of the check (0 ok / 1 VIOLATION / 2 ANALYSIS-ERROR)."""
import json, os, subprocess, sys

VERIF = os.path.dirname(os.path.dirname(os.path.abspath(__file__)))


def sh(cmd, cwd=None):
    p = subprocess.run(cmd, shell=True, cwd=cwd, stdout=subprocess.PIPE, stderr=subprocess.STDOUT, text=True)
    return p.returncode, p.stdout


def main():
    sid = sys.argv[1]
    d = os.path.join(VERIF, 'seeded', sid)
    pid = sys.argv[2] if len(sys.argv) > 2 else json.load(open(os.path.join(d, 'meta.json')))['property']
    scratch = '/tmp/seedone_%s_%d' % (sid, os.getpid())
    sh('rm -rf %s && mkdir -p %s && cp -r /repo/Cython /repo/pyximport %s/ && mkdir -p %s/docs/src && cp -r /repo/docs/src/userguide %s/docs/src/ ; find %s -name "*.so" -delete' % (
        scratch, scratch, scratch, scratch, scratch, scratch))
    try:
        patch = os.path.join(d, 'patch_ported.diff') if os.path.exists(os.path.join(d, 'patch_ported.diff')) else os.path.join(d, 'patch.diff')
        rc, out = sh('patch -p1 --no-backup-if-mismatch -F3 < %s' % patch, cwd=scratch)
        if rc != 0:
            print('PATCH DOES NOT APPLY:', out[-300:])
            return 3
        rc, out = sh('./check %s --no-evidence --quiet --scratch %s --repo %s' % (pid, scratch, scratch), cwd=VERIF)
        print(out[-3000:])
        return rc
    finally:
        sh('rm -rf %s' % scratch)


if __name__ == '__main__':
    sys.exit(main())
