#!/venv/bin/python
"""Run the check of each seed's OWN property against the seed on a scratch copy of /repo's sources, in parallel, and refresh
seeded/<id>/meta.json (`caught_by[<own property>]`, `analysis_error`).  Entries of other properties in caught_by (from tools/seed_check.py
runs over all properties) are kept.   usage: tools/seeds_check_par.py [seed ids ...] [--jobs N]"""
import json, os, subprocess, sys
from concurrent.futures import ProcessPoolExecutor

VERIF = os.path.dirname(os.path.dirname(os.path.abspath(__file__)))


def sh(cmd, cwd=None):
    p = subprocess.run(cmd, shell=True, cwd=cwd, stdout=subprocess.PIPE, stderr=subprocess.STDOUT, text=True)
    return p.returncode, p.stdout


def one(sid):
    d = os.path.join(VERIF, 'seeded', sid)
    pid = json.load(open(os.path.join(d, 'meta.json')))['property']
    scratch = '/tmp/seedpar_%s_%d' % (sid, os.getpid())
    sh('rm -rf %s && mkdir -p %s && cp -r /repo/Cython /repo/pyximport %s/ && mkdir -p %s/docs/src && cp -r /repo/docs/src/userguide %s/docs/src/ ; find %s -name "*.so" -delete' % (
        scratch, scratch, scratch, scratch, scratch, scratch))
    try:
        patch = os.path.join(d, 'patch_ported.diff') if os.path.exists(os.path.join(d, 'patch_ported.diff')) else os.path.join(d, 'patch.diff')
        rc, out = sh('patch -p1 --no-backup-if-mismatch -F3 < %s' % patch, cwd=scratch)
        if rc != 0:
            return sid, pid, 'stale', []
        rc, out = sh('./check %s --no-evidence --quiet --scratch %s --repo %s' % (pid, scratch, scratch), cwd=VERIF)
        lines = [l.strip()[:300] for l in out.splitlines() if l.startswith('  ') and ' — ' in l]
        if rc == 1:
            return sid, pid, 'reported', lines[:3]
        if rc == 0:
            return sid, pid, 'silent', []
        return sid, pid, 'error', [out.strip().splitlines()[-1][:300] if out.strip() else 'exit %d' % rc]
    finally:
        sh('rm -rf %s' % scratch)


def main():
    args = sys.argv[1:]
    jobs = 12
    if '--jobs' in args:
        i = args.index('--jobs'); jobs = int(args[i + 1]); del args[i:i + 2]
    sd = os.path.join(VERIF, 'seeded')
    ids = args or sorted(x for x in os.listdir(sd) if os.path.exists(os.path.join(sd, x, 'meta.json')))
    n = {'reported': 0, 'silent': 0, 'stale': 0, 'error': 0}
    missed = []
    with ProcessPoolExecutor(jobs) as ex:
        for sid, pid, outcome, lines in ex.map(one, ids, chunksize=1):
            n[outcome] += 1
            mp = os.path.join(sd, sid, 'meta.json')
            m = json.load(open(mp))
            cb = dict(m.get('caught_by') or {})
            ae = dict(m.get('analysis_error') or {})
            cb.pop(pid, None); ae.pop(pid, None)
            if outcome == 'reported':
                cb[pid] = lines
            elif outcome == 'error':
                ae[pid] = lines
            m['caught_by'] = cb
            if ae:
                m['analysis_error'] = ae
            else:
                m.pop('analysis_error', None)
            if outcome == 'stale':
                m['stale_patch'] = True
            else:
                m.pop('stale_patch', None)
            json.dump(m, open(mp, 'w'), indent=1)
            if outcome != 'reported':
                missed.append((sid, outcome, (lines or [''])[0][:140]))
    print('seeds: %d reported by their own property, %d silent, %d patch no longer applies, %d analysis errors' % (n['reported'], n['silent'], n['stale'], n['error']))
    for x in missed:
        print('  NOT REPORTED %s: %s %s' % x)


if __name__ == '__main__':
    sys.exit(main())
