#!/venv/bin/python
"""Regenerate the machine-derived tables of DESIGN.md (between the AUTOGEN markers) from the property modules, the
evidence files of the last run, known_findings.txt and seeded/*/meta.json."""
import importlib, json, os, re, sys
HERE = os.path.dirname(os.path.dirname(os.path.abspath(__file__)))
sys.path.insert(0, HERE)


def esc(s):
    return ' '.join(str(s).replace('|', '\\|').split())


out = []
out.append('### A.1 Claimed properties as built\n')
out.append('| id | deciding technique | rules (instances on the current tree) | not decided |')
out.append('|----|---------------------|---------------------------------------|-------------|')
props = sorted(f[:-3] for f in os.listdir(os.path.join(HERE, 'sa', 'props')) if f.startswith('C') and f.endswith('.py'))
for pid in props:
    mod = importlib.import_module('sa.props.' + pid)
    ev = None
    p = os.path.join(HERE, 'evidence', pid + '.json')
    if os.path.exists(p):
        ev = json.load(open(p))
    rules = ''
    if ev:
        rules = ', '.join('%s (%d)' % (r['id'], r['instances']) for r in ev['coverage'].get('rules', []))
    out.append('| %s | %s | %s | %s |' % (pid, esc(mod.TECHNIQUE), esc(rules), esc(mod.NOT_DECIDED)[:400]))
out.append('')
out.append('### A.2 Findings ledger (known_findings.txt)\n')
out.append('| status | property | commit / rule:construct | what failed |')
out.append('|--------|----------|-------------------------|-------------|')
for line in open(os.path.join(HERE, 'known_findings.txt')):
    line = line.strip()
    m = re.match(r'fixed:\s+property=(\S+)\s+(\S+)\s+(.*)$', line)
    if m:
        out.append('| fixed | %s | `%s` | %s |' % (m.group(1), m.group(2), esc(m.group(3))))
    m = re.match(r'known:\s+property=(\S+)\s+rule=(\S+)\s+construct=(\S+)\s+(.*)$', line)
    if m:
        out.append('| known | %s | `%s:%s` | %s |' % (m.group(1), m.group(2), esc(m.group(3)), esc(m.group(4))))
out.append('')
out.append('### A.3 Independently seeded defects and which checks catch them\n')
out.append('| seed | property | confirmed (demo fails with patch, passes without; 504 tests pass) | caught by | first reported construct |')
out.append('|------|----------|------|-----------|--------------------------|')
sd = os.path.join(HERE, 'seeded')
for sid in sorted(os.listdir(sd)) if os.path.isdir(sd) else []:
    mp = os.path.join(sd, sid, 'meta.json')
    if not os.path.exists(mp):
        continue
    m = json.load(open(mp))
    caught = m.get('caught_by') or {}
    own = caught.get(m['property'])
    first = ''
    if caught:
        k = m['property'] if own else sorted(caught)[0]
        first = esc(caught[k][0])[:160]
    out.append('| %s | %s | %s | %s | %s |' % (sid, m['property'], 'yes' if m.get('confirmed') else 'NO', ', '.join(sorted(caught)) or ('**missed**' + (' (exit 2 in %s)' % ', '.join(sorted(m.get('analysis_error') or {})) if m.get('analysis_error') else '')), first))
out.append('')
out.append('Seeds with suffix a/b were produced before the strengthening rounds (batches 1-5; the rules were extended until they were reported); suffix c/d is the fresh batch 6 '
           '(after round 3), e/f batch 7 (after round 4), g/h batch 8 (after round 4, for the properties that had only a/b seeds), i/j batch 9 (the twelve properties of batch 6 again), '
           'k/l batch 10 (a cross-section after round 7).  Each fresh batch was an unbiased sample of '
           'how the rules generalised when it was produced (section 8.5 has the rates at that moment); the following round used it as input, so the table shows the state after that round.')
out.append('')
out.append('### A.4 Regression mutants: the reverse of every `fix:` commit (tools/regress.py)\n')
out.append('| commit | properties | outcome | what the fix repaired |')
out.append('|--------|------------|---------|------------------------|')
rd = os.path.join(HERE, 'regress')
nr = nc = 0
for sha in sorted(os.listdir(rd)) if os.path.isdir(rd) else []:
    mp = os.path.join(rd, sha, 'meta.json')
    if not os.path.exists(mp):
        continue
    m = json.load(open(mp))
    nr += 1
    oc = 'stale (no longer applies)' if m.get('stale') else ('reported by ' + ', '.join(sorted(m['caught_by'])) if m.get('caught_by') else '**not reported**')
    nc += bool(m.get('caught_by'))
    out.append('| `%s` | %s | %s | %s |' % (sha, ', '.join(m.get('properties', [])), oc, esc(m.get('what', ''))[:140]))
out.append('')
out.append('%d regression mutants, %d reported.' % (nr, nc))
out.append('')
out.append('### A.5 Brainstormed mutants per property (mutants/<id>/)\n')
out.append('| property | breaking mutants | reported | declined (no sound static rule) | behaviour-preserving rewrites (all silent) |')
out.append('|----------|------------------|----------|---------------------------------|--------------------------------------------|')
md = os.path.join(HERE, 'mutants')
tb = tc = 0
for pid in sorted(os.listdir(md)) if os.path.isdir(md) else []:
    d = os.path.join(md, pid)
    if not os.path.isdir(d):
        continue
    b = c = pres = 0
    for name in sorted(os.listdir(d)):
        mp = os.path.join(d, name, 'meta.json')
        if not os.path.exists(mp):
            continue
        try:
            m = json.load(open(mp))
        except ValueError:
            continue
        if m.get('breaking'):
            b += 1
            c += bool(m.get('caught_by'))
        else:
            pres += 1
    tb += b
    tc += c
    out.append('| %s | %d | %d | %d | %d |' % (pid, b, c, b - c, pres))
out.append('')
out.append('Total: %d breaking mutants, %d reported.' % (tb, tc))
out.append('')
out.append('### A.6 Exemptions in effect on the current tree (evidence files of the last run)\n')
out.append('One construct each (DESIGN section 7): the rule matches although no property is violated; anything else matching the rule is still reported.\n')
out.append('| property | rule | construct | reason |')
out.append('|----------|------|-----------|--------|')
seen_ex = set()
for pid in props:
    p = os.path.join(HERE, 'evidence', pid + '.json')
    if not os.path.exists(p):
        continue
    ev = json.load(open(p))
    for f in ev['coverage'].get('exempted', []) if isinstance(ev.get('coverage'), dict) else []:
        k = (f.get('rule'), f.get('construct'))
        tag = '' if k not in seen_ex else ' (shared rule, see above)'
        seen_ex.add(k)
        out.append('| %s | %s | `%s` | %s |' % (pid, f.get('rule'), esc(f.get('construct'))[:140], (esc(f.get('reason') or '')[:260] if not tag else tag.strip())))
txt = '\n'.join(out) + '\n'
dp = os.path.join(HERE, 'DESIGN.md')
s = open(dp).read()
a, b = '<!-- AUTOGEN:BEGIN -->', '<!-- AUTOGEN:END -->'
if a not in s:
    s = s.rstrip() + '\n\n---------------------------------------------------------------------------\n\n## Appendix C — as-built tables (generated by tools/gen_design_tables.py)\n\n' + a + '\n' + b + '\n'
s = s[:s.index(a) + len(a)] + '\n' + txt + s[s.index(b):]
open(dp, 'w').write(s)
print('tables written: %d properties' % len(props))
