#!/venv/bin/python
"""Deeply nested parentheses / brackets: CPython compiles 100 levels, so must the compiler.
Exit 0 = right, 1 = wrong (difference printed)."""
import os, subprocess, sys, tempfile

CYTHON_PATH = os.environ.get("DEMO_CYTHON", "/tmp/defects/D8/wt")
SOURCES = {
    "parens_30": "x = " + "(" * 30 + "1" + ")" * 30 + "\n",       # control: works
    "parens_45": "x = " + "(" * 45 + "1" + ")" * 45 + "\n",
    "parens_100": "x = " + "(" * 100 + "1" + ")" * 100 + "\n",
    "lists_100": "x = " + "[" * 100 + "1" + "]" * 100 + "\n",
}


def main():
    bad = 0
    with tempfile.TemporaryDirectory() as tmp:
        for name, source in SOURCES.items():
            path = os.path.join(tmp, name + ".py")
            with open(path, "w") as f:
                f.write(source)
            ns = {}
            exec(compile(source, path, "exec"), ns)        # CPython accepts it
            r = subprocess.run([sys.executable, "-m", "cython", "-3", path, "-o", os.path.join(tmp, name + ".c")],
                               env=dict(os.environ, PYTHONPATH=CYTHON_PATH), capture_output=True, text=True)
            ok = r.returncode == 0 and os.path.exists(os.path.join(tmp, name + ".c"))
            print(f"{name}: {'ok' if ok else 'WRONG'}")
            if not ok:
                lines = (r.stderr or r.stdout).strip().splitlines()
                print("   CPython compiles it (x = %r...), cython fails with: %s" % (str(ns['x'])[:12], lines[-1][:200] if lines else "?"))
                bad = 1
    return bad


if __name__ == "__main__":
    sys.exit(main())
