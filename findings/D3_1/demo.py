"""
Demo: with profile=True, a `return` inside a `with nogil:` block of a function
that was entered with the GIL reports a call event but no return event.

Run with:  PYTHONPATH=/path/to/cython/checkout python demo.py
The same source is compiled and also run as plain Python (pure Python mode);
the call/return events seen by sys.setprofile() must be identical.
Exits 0 if they are, 1 otherwise.
"""
import importlib
import os
import subprocess
import sys
import tempfile

SOURCE = '''\
# cython: language_level=3, profile=True
import cython

@cython.cfunc
@cython.exceptval(check=False)
def ret_in_nogil(x: cython.int) -> cython.int:
    with cython.nogil:
        if x > 0:
            return x + 1
    return 0

@cython.cfunc
def void_ret_in_nogil(x: cython.int) -> cython.void:
    with cython.nogil:
        if x > 0:
            return
    x = 5

@cython.cfunc
@cython.exceptval(check=False)
def ret_in_nested_gil(x: cython.int) -> cython.int:
    with cython.nogil:
        with cython.gil:
            if x > 0:
                return x + 2
    return 0

@cython.cfunc
@cython.nogil
@cython.exceptval(check=False)
def nogil_func(x: cython.int) -> cython.int:
    return x + 3

def run(x):
    xi: cython.int = x
    c: cython.int
    a = ret_in_nogil(x)
    void_ret_in_nogil(x)
    b = ret_in_nested_gil(x)
    with cython.nogil:
        c = nogil_func(xi)
    return (a, b, c)
'''

NAMES = {'ret_in_nogil', 'void_ret_in_nogil', 'ret_in_nested_gil', 'nogil_func', 'run'}


def collect(func, *args):
    events = []

    def prof(frame, event, arg):
        if event in ('call', 'return') and frame.f_code.co_name in NAMES:
            events.append((event, frame.f_code.co_name))

    sys.setprofile(prof)
    try:
        result = func(*args)
    finally:
        sys.setprofile(None)
    return result, events


def main():
    import Cython
    print("Using Cython from", os.path.dirname(Cython.__file__))
    with tempfile.TemporaryDirectory() as tmp:
        for name in ("d3_1_compiled", "d3_1_plain"):
            with open(os.path.join(tmp, name + ".py"), "w") as f:
                f.write(SOURCE)
        proc = subprocess.run(
            [sys.executable, "-m", "Cython.Build.Cythonize", "-i", "-q", "d3_1_compiled.py"],
            cwd=tmp, stdout=subprocess.PIPE, stderr=subprocess.STDOUT, text=True, timeout=600)
        if proc.returncode != 0:
            print(proc.stdout)
            print("FAIL: could not build the test module")
            return 1
        os.remove(os.path.join(tmp, "d3_1_compiled.py"))
        sys.path.insert(0, tmp)
        compiled = importlib.import_module("d3_1_compiled")
        plain = importlib.import_module("d3_1_plain")
        assert compiled.__file__.endswith(".so") or compiled.__file__.endswith(".pyd"), compiled.__file__

        failures = 0
        for arg in (1, 0):
            got_result, got = collect(compiled.run, arg)
            exp_result, expected = collect(plain.run, arg)
            # 'nogil_func' is a nogil function: it is not traced at all unless CYTHON_TRACE_NOGIL is set.
            expected = [e for e in expected if e[1] != 'nogil_func']
            if got_result != exp_result:
                failures += 1
                print("MISMATCH run(%d): result %r, CPython %r" % (arg, got_result, exp_result))
            if got != expected:
                failures += 1
                print("MISMATCH run(%d): profile events differ" % arg)
                print("   compiled:", got)
                print("   CPython :", expected)
                for name in sorted(NAMES):
                    calls = got.count(('call', name))
                    returns = got.count(('return', name))
                    if calls != returns:
                        print("   unbalanced: %s has %d call and %d return events" % (name, calls, returns))
    if failures:
        print("FAIL")
        return 1
    print("OK: compiled module reports the same call/return events as CPython")
    return 0


if __name__ == "__main__":
    sys.exit(main())
