"""
Demo for: errors of the tokenizer are lost when they occur while the parser scans
ahead tentatively (tentatively_scan), e.g. in "with (...)" or in a match pattern.

For each INVALID source CPython raises a SyntaxError.  Cython (the checkout found
through PYTHONPATH, default /tmp/defects/D6/wt) must exit with a non-zero status and
print a positioned message ("file:line:col: text") that names the problem, without
a Python traceback.

A valid module with parenthesised "with" items and strings is compiled with
cython + gcc and run as a control; its result must be the same as under CPython.

Exit status 0: all right.  Non-zero: the differences are printed.
"""
import os
import re
import subprocess
import sys
import sysconfig
import tempfile
import textwrap

CYTHON_PATH = os.environ.get("PYTHONPATH") or "/tmp/defects/D6/wt"

# (source, word expected in Cython's message)
INVALID = [
    ("with ('abc\n): pass\n", "Unclosed string"),
    ("with (f'abc\n): pass\n", "Unclosed string"),
    ('with (f"}"): pass\n', "single '}'"),
    ("x = 1\nmatch x:\n    case ('abc\n        ): pass\n", "Unclosed string"),
    # same errors where nothing is scanned tentatively (these were always right)
    ("x = ('abc\n)\n", "Unclosed string"),
    ('x = f"}"\n', "single '}'"),
]

VALID = textwrap.dedent('''
    import contextlib

    @contextlib.contextmanager
    def cm(value):
        yield value

    def f():
        out = []
        with (cm("abc")): out.append("one")
        with (cm("""a
        b""") as s, cm(f"{1 + 1}}}") as t):
            out.append((s, t))
        with (cm('x')) as one, (cm('y')) as two:
            out.append(one + two)
        with (
            cm('p') as p,
            cm('q') as q,
        ):
            out.append(p + q)
        return out

    RESULT = f()
''')


def run_cython(src_path):
    env = dict(os.environ, PYTHONPATH=CYTHON_PATH)
    c_path = os.path.splitext(src_path)[0] + ".c"
    proc = subprocess.run(
        [sys.executable, "-m", "cython", "-3", src_path, "-o", c_path],
        env=env, stdout=subprocess.PIPE, stderr=subprocess.STDOUT, text=True)
    return proc.returncode, proc.stdout, c_path


def check_invalid(tmp, index, source, expected_word):
    try:
        compile(source, "<case>", "exec")
    except SyntaxError as e:
        cpython = "SyntaxError: %s" % e.msg
    else:
        return ["demo is wrong: CPython accepts %r" % source]
    name = "bad%d" % index
    path = os.path.join(tmp, name + ".py")
    with open(path, "w") as f:
        f.write(source)
    rc, out, _ = run_cython(path)
    positioned = re.findall(r"^(?:\S*/)?%s\.py:(\d+:\d+: \S.*)$" % name, out, re.M)
    problems = []
    if rc == 0:
        problems.append("cython compiled it without any error")
    elif not any(expected_word in msg for msg in positioned):
        problems.append("no positioned message mentioning %r, got %s" % (expected_word, positioned))
    for marker in ("Traceback", "TypeError", "Compiler crash"):
        if marker in out:
            problems.append("output contains %r" % marker)
    return ["%r: %s  (CPython: %s)" % (source, p, cpython) for p in problems]


def check_valid(tmp):
    expected = {}
    exec(compile(VALID, "<valid>", "exec"), expected)
    path = os.path.join(tmp, "validmod.py")
    with open(path, "w") as f:
        f.write(VALID)
    rc, out, c_path = run_cython(path)
    if rc != 0:
        return ["valid control module rejected:\n" + out]
    ext = sysconfig.get_config_var("EXT_SUFFIX")
    so_path = os.path.join(tmp, "validmod" + ext)
    cc = subprocess.run(
        ["gcc", "-shared", "-fPIC", "-O0", "-w", "-I", sysconfig.get_paths()["include"],
         c_path, "-o", so_path],
        stdout=subprocess.PIPE, stderr=subprocess.STDOUT, text=True)
    if cc.returncode != 0:
        return ["gcc failed on the control module:\n" + cc.stdout[-2000:]]
    os.remove(path)  # make sure the extension module is imported
    run = subprocess.run(
        [sys.executable, "-c", "import validmod; print(repr(validmod.RESULT))"],
        cwd=tmp, stdout=subprocess.PIPE, stderr=subprocess.STDOUT, text=True)
    got = run.stdout.strip()
    if got != repr(expected["RESULT"]):
        return ["control module: CPython gives %r, compiled module gives %s" % (expected["RESULT"], got)]
    return []


def main():
    problems = []
    with tempfile.TemporaryDirectory() as tmp:
        for index, (source, word) in enumerate(INVALID):
            problems += check_invalid(tmp, index, source, word)
        problems += check_valid(tmp)
    if problems:
        print("WRONG with the Cython in %s:" % CYTHON_PATH)
        for p in problems:
            print("  " + p)
        return 1
    print("ok: %d invalid sources rejected with the tokenizer's message, control module agrees with CPython"
          % len(INVALID))
    return 0


if __name__ == "__main__":
    sys.exit(main())
