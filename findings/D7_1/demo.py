#!/usr/bin/env python
"""A float (or any other non-integer number) must not convert silently to a C integer.

A small module with one `def f(<ctype> x): return x` per C integer type (plus an
assignment and a cast) is compiled with the Cython on sys.path
(run with PYTHONPATH=<cython checkout>).  CPython's own conversion of the same
object to the same C type is taken from array.array(<typecode of that size and
signedness>, [obj])[0], which raises TypeError for everything that is not an
integer (no __index__), as PyLong_AsLong() and the 'i' argument format do.
Exit 0: same outcome (value or exception class) everywhere.  Exit 1: differences printed.
"""
import array, importlib.util, os, shutil, subprocess, sys, tempfile

CTYPES = [  # (function suffix, C type, signed)
    ("schar", "signed char", True), ("uchar", "unsigned char", False),
    ("short", "short", True), ("ushort", "unsigned short", False),
    ("int", "int", True), ("uint", "unsigned int", False),
    ("long", "long", True), ("ulong", "unsigned long", False),
    ("longlong", "long long", True), ("ulonglong", "unsigned long long", False),
    ("size_t", "size_t", False), ("py_ssize_t", "Py_ssize_t", True), ("ssize_t", "ssize_t", True),
]

SOURCE = "# cython: language_level=3\n"
for name, ctype, _ in CTYPES:
    SOURCE += "def as_%s(%s x):\n    return x\n" % (name, ctype)
    SOURCE += "def sizeof_%s():\n    return sizeof(%s)\n" % (name, ctype)
SOURCE += '''
def assign_int(obj):
    cdef int x = obj
    return x
def cast_ulong(obj):
    return <unsigned long> obj
'''


import decimal, fractions

class MyFloat(float):
    pass

class OnlyInt:
    """Not an integer: has __int__() (like float) but no __index__()."""
    def __int__(self):
        return 8

VALUES = [2.5, -0.5, 1e3, float("nan"), float("inf"), MyFloat(3.75),
          decimal.Decimal("2.5"), fractions.Fraction(5, 2), OnlyInt(),
          5, True, "7", None]   # the last four are controls that already agree


def outcome(func, *args):
    import warnings
    with warnings.catch_warnings():
        warnings.simplefilter("ignore")
        try:
            return ("value", func(*args))
        except Exception as e:
            return ("raises", type(e).__name__)


def typecode(size, signed):
    for code in "bhilq":
        if array.array(code).itemsize == size:
            return code if signed else code.upper()
    raise SystemExit("no array typecode of size %d" % size)


def build(workdir):
    modname = "d7_1_compiled"
    path = os.path.join(workdir, modname + ".pyx")
    with open(path, "w") as f:
        f.write(SOURCE)
    cmd = [sys.executable, "-c",
           "import sys; from Cython.Build.Cythonize import main; main(sys.argv[1:])",
           "-i", "-3", "-q", path]
    proc = subprocess.run(cmd, cwd=workdir, capture_output=True, text=True)
    if proc.returncode != 0:
        print(proc.stdout); print(proc.stderr); print("BUILD FAILED")
        sys.exit(2)
    so = [f for f in os.listdir(workdir) if f.startswith(modname + ".") and f.endswith((".so", ".pyd"))][0]
    spec = importlib.util.spec_from_file_location(modname, os.path.join(workdir, so))
    mod = importlib.util.module_from_spec(spec)
    spec.loader.exec_module(mod)
    return mod


def main():
    import Cython
    print("Using Cython %s from %s" % (Cython.__version__, os.path.dirname(Cython.__file__)))
    workdir = tempfile.mkdtemp(prefix="d7_1_demo_")
    try:
        mod = build(workdir)
    finally:
        shutil.rmtree(workdir, ignore_errors=True)
    bad = total = 0

    def compare(label, expected, actual):
        nonlocal bad, total
        total += 1
        if expected != actual:
            bad += 1
            print("MISMATCH %s\n    cpython : %r\n    compiled: %r" % (label, expected, actual))

    for name, ctype, signed in CTYPES:
        code = typecode(getattr(mod, "sizeof_" + name)(), signed)
        for v in VALUES:
            expected = outcome(lambda: array.array(code, [v])[0])
            actual = outcome(getattr(mod, "as_" + name), v)
            compare("def f(%s x) called with %s" % (ctype, type(v).__name__), expected, actual)
    for v in VALUES:
        compare("cdef int x = %s" % type(v).__name__,
                outcome(lambda: array.array("i", [v])[0]), outcome(mod.assign_int, v))
        compare("<unsigned long> %s" % type(v).__name__,
                outcome(lambda: array.array("L", [v])[0]), outcome(mod.cast_ulong, v))
    print("%d of %d conversions behave differently from CPython" % (bad, total))
    return 1 if bad else 0


if __name__ == "__main__":
    sys.exit(main())
