"""
Demo: "(a or b) and c" tests the truth of the selected operand once, not twice.

CPython 3.12+ evaluates "(a or b) and c" as two nested operations: "a or b"
tests a, and when that yields a the outer "and" tests a again.  Cython
compiles nested and/or expressions into one flat jump cascade, where a true
"a" jumps straight to the evaluation of "c".  The difference can only be seen
with a __bool__ that counts its calls or answers differently from call to
call.  (CPython up to 3.11 short-cuts the second test as well, and CPython
3.12 still does in an "if" condition.)

Builds the module with the Cython found on sys.path (use PYTHONPATH to select
the checkout) and compares every function result with the running CPython.

Exit status 0: same results as CPython.  Exit status 1: difference (printed).
"""
import os
import subprocess
import sys
import tempfile
import textwrap

SOURCE = textwrap.dedent('''
    LOG = []

    class B:
        def __init__(self, name, answers):
            self.name = name
            self.answers = list(answers)
        def __bool__(self):
            LOG.append(self.name)
            return self.answers.pop(0) if len(self.answers) > 1 else self.answers[0]
        def __repr__(self):
            return self.name

    def or_and(a, b, c):
        return (a or b) and c

    def and_or(a, b, c):
        return (a and b) or c

    def and_and(a, b, c):
        return (a and b) and c

    def if_or_and(a, b, c):
        if (a or b) and c:
            return "yes"
        return "no"

    def results():
        out = []
        for func in (or_and, and_or, and_and, if_or_and):
            for answers in ([True], [False], [True, False], [False, True]):
                del LOG[:]
                res = func(B("a", answers), B("b", [True]), B("c", [True]))
                out.append(("%s(a%r)" % (func.__name__, answers), (repr(res), list(LOG))))
        return out
''')

MODNAME = "boolop_tests_demo"


def main():
    import Cython
    print("Using Cython %s from %s, Python %s" % (Cython.__version__, Cython.__file__, sys.version.split()[0]))

    namespace = {}
    exec(compile(SOURCE, MODNAME + ".py", "exec"), namespace)
    expected = namespace["results"]()

    with tempfile.TemporaryDirectory() as tmp:
        with open(os.path.join(tmp, MODNAME + ".py"), "w") as f:
            f.write(SOURCE)
        env = dict(os.environ)
        build = subprocess.run(
            [sys.executable, "-m", "Cython.Build.Cythonize", "-i", "-q", "-3", MODNAME + ".py"],
            cwd=tmp, env=env, stdout=subprocess.PIPE, stderr=subprocess.STDOUT, text=True)
        if build.returncode != 0:
            print(build.stdout)
            print("FAIL: could not build the demo module")
            return 2
        run = subprocess.run(
            [sys.executable, "-c",
             "import %s as m; assert m.__file__.endswith(('.so', '.pyd')), m.__file__; print(repr(m.results()))" % MODNAME],
            cwd=tmp, env=env, stdout=subprocess.PIPE, stderr=subprocess.STDOUT, text=True)
        if run.returncode != 0:
            print(run.stdout)
            print("FAIL: compiled module raised")
            return 1
        compiled = eval(run.stdout.strip().splitlines()[-1])

    status = 0
    for (name, want), (_, got) in zip(expected, compiled):
        if want == got:
            print("ok    %-32s %r" % (name, got))
        else:
            status = 1
            print("WRONG %-32s compiled: %r" % (name, got))
            print("      %-32s CPython:  %r" % ("", want))
    print("PASS" if status == 0 else "FAIL: compiled results differ from CPython")
    return status


if __name__ == "__main__":
    sys.exit(main())
