"""
Demo: with profile=True, a `return` inside a try-finally (or `with`) block
reports its return event before the finally clause has run.  If the finally
clause returns or raises itself, the function reports a second return event.

Run with:  PYTHONPATH=/path/to/cython/checkout python demo.py
The same source is compiled and also run as plain Python; the call/return
events (and the returned values) seen by sys.setprofile() must be identical.
Exits 0 if they are, 1 otherwise.
"""
import importlib
import os
import subprocess
import sys
import tempfile

SOURCE = '''\
# cython: language_level=3, profile=True

def ret_try_and_finally():
    try:
        return 1
    finally:
        return 2

def ret_try_raise_finally():
    try:
        return 1
    finally:
        raise ValueError("x")

def ret_try_plain_finally():
    x = []
    try:
        return x
    finally:
        x.append(1)

class CM:
    def __init__(self, fail=False):
        self.fail = fail
    def __enter__(self):
        return self
    def __exit__(self, *args):
        if self.fail:
            raise KeyError("exit")
        return False

def ret_in_with(cm):
    with cm:
        return 5

def ret_loop_finally():
    for i in range(3):
        try:
            return i
        finally:
            continue
    return -1

def ret_loop_finally_cond():
    for i in range(3):
        try:
            return i
        finally:
            if i < 2:
                continue
    return -1

def ret_nested():
    try:
        try:
            return 1
        finally:
            pass
    finally:
        return 3

def ret_nested_inner_finally():
    try:
        try:
            pass
        finally:
            return 1
    finally:
        pass

def ret_in_finally_only(x):
    try:
        x = x + 1
    finally:
        return x

def ret_try_except(x):
    try:
        if x:
            raise ValueError
        return 1
    except ValueError as e:
        return 2

def ret_except_in_finally(x):
    try:
        try:
            raise ValueError
        except ValueError as e:
            return 4
    finally:
        x.append(1)

def ret_closure():
    try:
        def inner():
            return 7
        return inner()
    finally:
        pass

def gen_ret():
    try:
        yield 1
        return 2
    finally:
        pass

def run_gen():
    return list(gen_ret())

def run():
    out = []
    for func, args in [
            (ret_try_and_finally, ()), (ret_try_raise_finally, ()), (ret_try_plain_finally, ()),
            (ret_in_with, (CM(),)), (ret_in_with, (CM(True),)),
            (ret_loop_finally, ()), (ret_loop_finally_cond, ()), (ret_nested, ()), (ret_nested_inner_finally, ()),
            (ret_in_finally_only, (1,)), (ret_try_except, (0,)), (ret_try_except, (1,)),
            (ret_except_in_finally, ([],)), (ret_closure, ()), (run_gen, ())]:
        try:
            out.append(func(*args))
        except (ValueError, KeyError) as exc:
            out.append(type(exc).__name__)
    return out
'''


def collect(func):
    events = []

    def prof(frame, event, arg):
        name = frame.f_code.co_name
        if event in ('call', 'return') and (name.startswith(('ret_', 'gen_')) or name == 'inner'):
            events.append((event, name, repr(arg) if event == 'return' else ''))

    sys.setprofile(prof)
    try:
        result = func()
    finally:
        sys.setprofile(None)
    return result, events


def main():
    import Cython
    print("Using Cython from", os.path.dirname(Cython.__file__))
    with tempfile.TemporaryDirectory() as tmp:
        for name in ("d3_2_compiled", "d3_2_plain"):
            with open(os.path.join(tmp, name + ".py"), "w") as f:
                f.write(SOURCE)
        proc = subprocess.run(
            [sys.executable, "-m", "Cython.Build.Cythonize", "-i", "-q", "d3_2_compiled.py"],
            cwd=tmp, stdout=subprocess.PIPE, stderr=subprocess.STDOUT, text=True, timeout=600)
        if proc.returncode != 0:
            print(proc.stdout)
            print("FAIL: could not build the test module")
            return 1
        os.remove(os.path.join(tmp, "d3_2_compiled.py"))
        sys.path.insert(0, tmp)
        compiled = importlib.import_module("d3_2_compiled")
        plain = importlib.import_module("d3_2_plain")
        assert compiled.__file__.endswith((".so", ".pyd")), compiled.__file__

        got_result, got = collect(compiled.run)
        exp_result, expected = collect(plain.run)

    failures = 0
    if got_result != exp_result:
        failures += 1
        print("MISMATCH: results %r, CPython %r" % (got_result, exp_result))
    if got != expected:
        failures += 1
        print("MISMATCH: profile events differ (compiled | CPython)")
        import difflib
        for line in difflib.unified_diff([str(e) for e in expected], [str(e) for e in got], 'CPython', 'compiled', lineterm='', n=1):
            print("   " + line)
    if failures:
        print("FAIL")
        return 1
    print("OK: compiled module reports the same %d call/return events as CPython" % len(got))
    return 0


if __name__ == "__main__":
    sys.exit(main())
