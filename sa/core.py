"""Core data model of the static checker: rule results, findings, evidence, known findings.

Nothing in here (or anywhere under sa/) imports or executes code from /repo; every
engine only *reads* files below the repository root given by Ctx.repo.
"""
import ast, hashlib, json, os, re, sys, time, traceback

VERIF = os.path.dirname(os.path.dirname(os.path.abspath(__file__)))


class AnalysisError(Exception):
    """The checker cannot do its job (anchor vanished, floor not reached, parse failure).
    Reported as ANALYSIS-ERROR / exit 2 — never a silent pass, never a VIOLATION."""


class Finding:
    __slots__ = ('rule', 'construct', 'file', 'line', 'msg', 'detail')

    def __init__(self, rule, construct, file, line, msg, detail=None):
        self.rule, self.construct, self.file, self.line, self.msg = rule, construct, file, line, msg
        self.detail = detail or {}

    @property
    def key(self):
        return '%s:%s' % (self.rule, self.construct)

    def as_dict(self):
        return dict(rule=self.rule, construct=self.construct, file=self.file, line=self.line,
                    msg=self.msg, detail=self.detail)

    def __repr__(self):
        return '%s %s:%s %s — %s' % (self.rule, self.file, self.line, self.construct, self.msg)


class Rule:
    """Accumulates the instances one rule evaluated in this run."""

    def __init__(self, rid, desc, floor=0):
        self.id, self.desc, self.floor = rid, desc, floor
        self.instances = 0
        self.nontrivial = set()      # distinct non-vacuous obligations (keys)
        self.samples = []
        self.findings = []
        self.infos = []
        self.selfcheck = None        # result of the embedded positive example, if any

    def inst(self, key=None, sample=None, nontrivial=True):
        self.instances += 1
        if nontrivial:
            self.nontrivial.add(key if key is not None else self.instances)
        if sample is not None and len(self.samples) < 6:
            self.samples.append(sample)

    def violate(self, construct, file, line, msg, **detail):
        self.findings.append(Finding(self.id, construct, file, line, msg, detail))

    def info(self, msg):
        self.infos.append(msg)

    def positive_control(self, ok, what):
        """An embedded example the rule must fire on; a rule that cannot see it is broken."""
        self.selfcheck = (bool(ok), what)
        if not ok:
            raise AnalysisError('rule %s: embedded positive example not detected (%s)' % (self.id, what))


class Ctx:
    def __init__(self, repo='/repo', tier='quick', seed=0):
        self.repo = os.path.abspath(repo)
        self.tier = tier
        self.seed = seed
        self._cache = {}
        self.consulted = set()

    def path(self, rel):
        return os.path.join(self.repo, rel)

    def read(self, rel):
        p = self.path(rel)
        if not os.path.exists(p):
            raise AnalysisError('anchor file missing: %s' % rel)
        self.consulted.add(rel)
        with open(p, encoding='utf-8', errors='surrogateescape') as f:
            return f.read()

    def parse(self, rel):
        k = ('ast', rel)
        if k not in self._cache:
            try:
                self._cache[k] = ast.parse(self.read(rel), filename=rel)
            except SyntaxError as e:
                raise AnalysisError('cannot parse %s: %s' % (rel, e))
        return self._cache[k]

    def memo(self, key, fn):
        if key not in self._cache:
            self._cache[key] = fn()
        return self._cache[key]

    @property
    def index(self):
        from .engine import pyindex
        return self.memo('pyindex', lambda: pyindex.PyIndex(self))

    @property
    def cat(self):
        from .engine import cutil
        return self.memo('cutil', lambda: cutil.Catalogue(self))

    def digest(self):
        h = hashlib.sha256()
        for rel in sorted(self.consulted):
            h.update(rel.encode())
            try:
                with open(self.path(rel), 'rb') as f:
                    h.update(hashlib.sha256(f.read()).digest())
            except OSError:
                pass
        return h.hexdigest()[:16]


# ---------------------------------------------------------------- known findings / exemptions

def load_known(path=None):
    """known_findings.txt: lines 'known: property=Cxx rule=R construct=K <text>' suppress exactly
    that (rule, construct); 'fixed: ...' lines are records and suppress nothing."""
    path = path or os.path.join(VERIF, 'known_findings.txt')
    known = {}
    if os.path.exists(path):
        for line in open(path, encoding='utf-8'):
            line = line.strip()
            m = re.match(r'known:\s+property=(\S+)\s+rule=(\S+)\s+construct=(\S+)\s*(.*)$', line)
            if m:
                known[(m.group(1), m.group(2) + ':' + m.group(3))] = m.group(4)
    return known


def node_src(n, limit=160):
    try:
        s = ast.unparse(n)
    except Exception:
        s = '<%s>' % type(n).__name__
    s = ' '.join(s.split())
    return s if len(s) <= limit else s[:limit - 3] + '...'


def norm_stmt(n):
    """Normalised statement text used in finding keys (no line numbers, no layout)."""
    s = node_src(n, 100)
    return re.sub(r'\s+', '', s)
