"""C09 — compile-time constants keep their exact Python values (structural clause: pooling keys are injective)."""
import ast, re

from ..core import Rule, AnalysisError, node_src
from ..engine import tables
from ..engine.pyindex import walk_no_nested

ID = 'C09'
TECHNIQUE = 'key-injectivity obligations on the constant-pooling keys (AST dataflow from key construction to GlobalState pooling dictionaries); abstract interpretation of the big-integer text encoder over a finite sign domain'
DECIDES = ('K3: every key under which a Python constant object is pooled (GlobalState.dedup_const_index via get_py_const(dedup_key=...), num_const_index via get_int_const/get_float_const) '
           'is an injective encoding of what CPython distinguishes: (i) a raw numeric constant_result appears in a key only together with a sign-preserving text encoding (repr/literal text) of the same value '
           '(0.0 == -0.0, 1 == 1.0 == True), (ii) item keys are collected in an order-preserving container unless the items are characters of one string, (iii) a type tag accompanies each value, '
           '(iv) numeric literal pools are keyed by the literal text, never by a converted number; LEX1-lite: a decimal literal with a leading zero is rejected by the parser before Utils.str_to_number sees it. '
           'B32: the base-32 text encoding of big integer constants keeps the sign ("-" first for negatives only), returns the digits most significant first, runs its digit loop on non-negative values only, '
           'and mask, shift, alphabet and the PyLong_FromString base agree (abstract interpretation over the sign domain {<0, 0, >0}).')
NOT_DECIDED = 'constant folding arithmetic; the numeric value of each emitted base-32 digit beyond mask/shift/alphabet agreement.'

SIGN_SAFE = ('repr', 'str', 'hex', 'copysign')


def _mentions(node, attr):
    return [x for x in ast.walk(node) if isinstance(x, ast.Attribute) and x.attr == attr]


def rule_dedup_key(ctx):
    r = Rule('K3', 'constant pooling keys are injective encodings of the constants (sign of zero, numeric type, element order)', floor=5)
    rel = 'Cython/Compiler/ExprNodes.py'
    tree = ctx.parse(rel)
    fn = tables.find_function(tree, 'make_dedup_key')
    # (a) every call site of get_py_const(dedup_key=K): K comes from make_dedup_key or is a literal-typed key
    n_sites = 0
    for n in ast.walk(tree):
        if isinstance(n, ast.Call) and isinstance(n.func, ast.Attribute) and n.func.attr == 'get_py_const':
            for k in n.keywords:
                if k.arg == 'dedup_key':
                    n_sites += 1
                    r.inst('get_py_const@%s' % node_src(k.value, 40), sample='get_py_const(dedup_key=%s)' % node_src(k.value, 60))
    if n_sites < 3:
        raise AnalysisError('only %d get_py_const(dedup_key=...) sites found' % n_sites)
    # (b) inside make_dedup_key: tuples that contain <x>.constant_result
    tuples = [t for t in ast.walk(fn) if isinstance(t, ast.Tuple) and any(isinstance(e, ast.Attribute) and e.attr == 'constant_result' for e in t.elts)]
    if not tuples:
        # the syntactic shape is gone (e.g. the item key is built in a helper from a local): the obligation is decided semantically by C09-KEYCOV
        r.info('make_dedup_key: no key tuple that mentions .constant_result directly; sign / type-tag clauses are decided by C09-KEYCOV only')
    for t in tuples:
        key = 'ExprNodes.make_dedup_key:item-key'
        r.inst(key, sample=node_src(t, 120))
        raw = [e for e in t.elts if isinstance(e, ast.Attribute) and e.attr == 'constant_result']
        base = ast.unparse(raw[0].value)
        safe = False
        for e in t.elts:
            if isinstance(e, ast.Call) and isinstance(e.func, (ast.Name, ast.Attribute)):
                fname = e.func.id if isinstance(e.func, ast.Name) else e.func.attr
                if fname in SIGN_SAFE and any(isinstance(x, ast.Attribute) and x.attr == 'constant_result' and ast.unparse(x.value) == base for x in ast.walk(e)):
                    safe = True
            if isinstance(e, ast.Attribute) and e.attr == 'value' and ast.unparse(e.value) == base:
                safe = True    # the literal's source text
        if not safe:
            r.violate('ExprNodes.make_dedup_key:raw-number', rel, t.lineno,
                      'the pooling key contains the raw number %s.constant_result without a sign-preserving encoding (repr / literal text) of it: '
                      '0.0 == -0.0 hash and compare equal, so (-0.0, 1) is replaced by an earlier (0.0, 1)' % base)
        tagged = any((isinstance(e, ast.Attribute) and e.attr == 'type' and ast.unparse(e.value) == base) or
                     (isinstance(e, (ast.Call, ast.IfExp)) and any(isinstance(x, ast.Call) and isinstance(x.func, ast.Name) and x.func.id == 'type' for x in ast.walk(e)))
                     for e in t.elts)
        r.inst(key + ':type-tag')
        if not tagged:
            r.violate('ExprNodes.make_dedup_key:no-type-tag', rel, t.lineno, 'the pooling key for a constant has no type tag: 1, 1.0 and True would share one pooled object')
    # (c) container of the item keys
    item_var = None
    for n in walk_no_nested(fn):
        if isinstance(n, ast.Assign) and isinstance(n.value, (ast.ListComp, ast.List)) and isinstance(n.targets[0], ast.Name) and _mentions(n.value, 'constant_result'):
            item_var = n.targets[0].id
    if item_var is None:
        # any list / comprehension assigned in the function is a candidate container of item keys
        for n in walk_no_nested(fn):
            if isinstance(n, ast.Assign) and isinstance(n.value, (ast.ListComp, ast.List)) and isinstance(n.targets[0], ast.Name):
                item_var = n.targets[0].id
    if item_var is None:
        r.info('make_dedup_key: list of item keys not recognised; the order clause is decided by C09-KEYCOV only')
        return r
    r.inst('ExprNodes.make_dedup_key:container')
    for n in walk_no_nested(fn):
        # any expression that can evaluate to an order-losing constructor applied to the item keys
        if isinstance(n, ast.Call) and any(isinstance(a, ast.Name) and a.id == item_var for a in n.args):
            ctors = set()
            if isinstance(n.func, ast.Name):
                if n.func.id in ('set', 'frozenset'):
                    ctors.add(n.func.id)
                else:
                    for m in walk_no_nested(fn):
                        if isinstance(m, ast.Assign) and any(isinstance(t, ast.Name) and t.id == n.func.id for t in m.targets):
                            ctors |= {x.id for x in ast.walk(m.value) if isinstance(x, ast.Name) and x.id in ('set', 'frozenset', 'tuple', 'list', 'sorted')}
            if ctors & {'set', 'frozenset'}:
                r.violate('ExprNodes.make_dedup_key:unordered-container', rel, n.lineno,
                          'item keys are collected in an order-losing %s: frozenset((1.0, 1)) and frozenset((1, 1.0)) get the same key although CPython keeps the first element of each' % sorted(ctors & {'set', 'frozenset'}))
    return r


def rule_num_keys(ctx):
    r = Rule('K3n', 'numeric literal pools (num_const_index) are keyed by the literal text and the Python type, never by a converted number', floor=2)
    rel = 'Cython/Compiler/Code.py'
    ix = ctx.index
    gs = ix.cls('Code', 'GlobalState')
    for name in ('get_int_const', 'get_float_const', 'new_num_const'):
        fn = gs.methods.get(name)
        if fn is None:
            raise AnalysisError('GlobalState.%s vanished' % name)
        params = [a.arg for a in fn.args.args]
        for n in walk_no_nested(fn):
            if isinstance(n, ast.Subscript) and isinstance(n.value, ast.Attribute) and n.value.attr == 'num_const_index':
                key = 'Code.GlobalState.%s:key' % name
                r.inst(key, sample='%s: num_const_index[%s]' % (name, node_src(n.slice, 60)))
                sl = n.slice
                elts = sl.elts if isinstance(sl, ast.Tuple) else [sl]
                conv = [x for x in ast.walk(sl) if isinstance(x, ast.Call) and isinstance(x.func, ast.Name) and x.func.id in ('float', 'int', 'abs', 'round', 'eval', 'complex')]
                names = {x.id for x in ast.walk(sl) if isinstance(x, ast.Name)}
                # local aliases computed from a conversion
                for m in walk_no_nested(fn):
                    if isinstance(m, ast.Assign) and any(isinstance(t, ast.Name) and t.id in names for t in m.targets):
                        conv += [x for x in ast.walk(m.value) if isinstance(x, ast.Call) and isinstance(x.func, ast.Name) and x.func.id in ('float', 'int', 'abs', 'round', 'eval', 'complex')]
                if conv:
                    r.violate(key + ':converted', rel, n.lineno,
                              '%s keys the numeric constant pool by a converted number (%s): values that compare equal (0.0 / -0.0) share one pooled object' % (name, node_src(conv[0], 40)))
                if not any(isinstance(e, ast.Name) and e.id == params[1] for e in elts) and name != 'new_num_const':
                    r.violate(key + ':not-text', rel, n.lineno, '%s does not key the pool by the literal text %r' % (name, params[1]))
                if len(elts) < 2:
                    r.violate(key + ':no-type', rel, n.lineno, '%s keys the pool without a Python type tag' % name)
    return r


def rule_leading_zero(ctx):
    """LEX1-lite: the token language of decimal integer literals includes Py2-style '09'; Utils.str_to_number treats a leading 0 as
    octal and int('09', 8) raises.  The parser must reject such a literal with a positioned error before converting it."""
    r = Rule('LEX1', 'integer literals with a leading zero followed by non-octal digits are rejected by the parser before Utils.str_to_number converts them', floor=2)
    lex = ctx.read('Cython/Compiler/Lexicon.py')
    accepts = bool(re.search(r'Rep1\(digit\)', lex)) and not re.search(r"decimal\s*=\s*Rep1\(digit\)\s*$", lex)
    tree = ctx.parse('Cython/Utils.py')
    stn = tables.find_function(tree, 'str_to_number')
    octal_branch = any(isinstance(n, ast.Call) and isinstance(n.func, ast.Name) and n.func.id == 'int' and len(n.args) == 2 and tables.literal(n.args[1]) == 8
                       for n in ast.walk(stn))
    r.inst('Utils.str_to_number:octal-branch', sample='str_to_number converts leading-zero literals with int(value, 8): %s' % octal_branch)
    ptree = ctx.parse('Cython/Compiler/Parsing.py')
    fn = tables.find_function(ptree, 'p_int_literal')
    r.inst('Parsing.p_int_literal:guard')
    if octal_branch:
        # a guard: an error(...) call whose condition inspects the literal text for a leading zero / non-octal digit
        guarded = False
        # the guard may live in a module-level helper p_int_literal calls (one level)
        called = {c.func.id for c in ast.walk(fn) if isinstance(c, ast.Call) and isinstance(c.func, ast.Name)}
        helpers = [f for f in ptree.body if isinstance(f, ast.FunctionDef) and f.name in called and f.name != 'error']
        for n in [x for f in [fn] + helpers for x in ast.walk(f)]:
            if isinstance(n, ast.If) and any(isinstance(c, ast.Call) and isinstance(c.func, (ast.Name, ast.Attribute)) and
                                             (getattr(c.func, 'id', None) == 'error' or getattr(c.func, 'attr', None) == 'error') for s in n.body for c in ast.walk(s)):
                t = ast.unparse(n.test)
                if re.search(r"'0'|\"0\"|startswith|isdigit|\[0\]|octal|89", t):
                    guarded = True
        if not guarded:
            r.violate('Parsing.p_int_literal:leading-zero', 'Cython/Compiler/Parsing.py', fn.lineno,
                      "the lexer accepts decimal literals with a leading zero (e.g. `x = 09`), Utils.str_to_number converts them with int(value, 8) and raises ValueError: "
                      "the compiler crashes with a traceback instead of a positioned syntax error; p_int_literal has no guard")
    return r


def _b32(ctx):
    """C09-B32 recognises the emitted decoder call by its C local names; when those are renamed (behaviour-preserving) it cannot find its anchor.  The obligations it
    decides (sign, digit order, radix / alphabet / decoder-base agreement, separators) are also decided by C09-NUMTAB, which reads the emitted code without fixed names:
    the give-up is then informational."""
    from ..rules import b32
    try:
        return b32.rule_b32(ctx)
    except AnalysisError as e:
        if not str(e).startswith('decoder call'):
            raise
        r = Rule('C09-B32', 'big integer constants: base-32 text encoder (gave up on the spelling of the emitted decoder call; decided by C09-NUMTAB)', floor=0)
        r.info('C09-B32 gave up: %s - the same obligations are decided by C09-NUMTAB' % e)
        return r


def run(ctx):
    from ..rules import sC09
    return [rule_dedup_key(ctx), rule_num_keys(ctx), rule_leading_zero(ctx), _b32(ctx),
            sC09.rule_keycov(ctx), sC09.rule_literals(ctx), sC09.rule_numtab(ctx), sC09.rule_fold(ctx), sC09.rule_ctv(ctx)]


# ---------------------------------------------------------------------------------------------------------------------------------
# fourth strengthening round (session G11): rules of sa/rules/sC09.py
TECHNIQUE += ('; finite-domain folding (sa/rules/sC25.ObjFolder: AST interpretation with a small object model, nothing of the repository is executed) of the literal readers / '
              'emitters, of Optimize.ConstantFolding, of the node classes\' calculate_constant_result, of the pooling-key construction and of the number-table generator; the emitted '
              'table initialisation code is interpreted by a reader for its small C subset; references are the checker\'s own CPython (int(text, 0), float(), operator semantics)')
DECIDES += (' C09-KEYCOV: make_dedup_key and the key expressions at all five get_py_const(dedup_key=...) sites (tuple, slice, frozenset() of nothing / a string / an argument, '
            'frozenset from items) give different keys to 21 pairs of constants that CPython distinguishes (type, sign of zero, order, length, None, slice start/stop/step, constant '
            'multiplier also nested, container kind, C type). '
            'C09-LIT: Utils.str_to_number, IntNode.value_as_c_integer_string (read back with the C literal grammar), the text IntNode.generate_evaluation_code pools, '
            'FloatNode.get_constant_c_result_code (nan / +-inf / +-0.0 / finite), IntNode.find_suitable_type_for_value at the 32-bit boundaries and IntNode.coerce_to(float) denote the '
            'value CPython gives the literal, for every base prefix x sign x digit class x C suffix. '
            'C09-NUMTAB: generate_num_constants folded on the 63 non-empty combinations of constant classes; in the emitted code every #define names the slot that is filled with its '
            'constant (element types hold their values, offsets, index arithmetic, PyLong_FromLong only up to 32 bits, big-int text separators). '
            'C09-FOLD: ConstantFolding.visit_UnopNode / visit_BinopNode / visit_BoolBinopNode / _negate_operator / _calculate_constant_seq on every operand kind (bool, int, float, both signs, zero, '
            'C char, C suffixes, symbolic multipliers): a replacement literal has the class, text and constant_result of the value CPython computes. '
            'C09-CTV: compile_time_binary_operators / compile_time_unary_operators agree with the Python operators; calculate_constant_result of tuple, list, set, dict, slice, index, '
            'conditional, and/or, not, unary, binary and comparison nodes gives the CPython value.')
NOT_DECIDED = ('arithmetic on run-time magnitudes inside one formula where no finite partition exists beyond the classes used (e.g. which huge values PyLong_FromString accepts); '
               'C type selection of folded C expressions (widest_numeric_type) - one abstract C type is used; calculate_constant_result of the remaining ~30 node classes '
               '(string methods, casts, comprehension-like nodes); the C compiler\'s reading of float literal texts beyond sign / inf / nan classes; '
               'PrimaryCmpNode cascades folded by visit_PrimaryCmpNode.')
MUTATIONS = 'see /verif/mutants/C09/*/meta.json (41 brainstormed mutants: 32 breaking - all reported, 9 behaviour-preserving - all silent)'
