"""C18 — string formatting produces CPython's text (structural clauses of the format-spec parsers, the C helpers' interface and the %-format rewrite)."""
import collections

from ..engine import pyindex
from ..rules import pC18, iface

ID = 'C18'
TECHNIQUE = ('translation validation by symbolic execution: the three pure string-manipulating decision functions (CIntLike._parse_format, CFloatType._parse_format, the '
             'chunk loop of ConstantFolding._build_fstring) are interpreted on their AST over the COMPLETE finite set of spec shapes (every combination of the optional '
             'fields of the format-spec / printf-style grammars, with width digits, precision digits and the fill character kept as opaque tokens) and each result is '
             'compared with a frozen reference model of the two mini-languages (library reference: "Format Specification Mini-Language", "printf-style String Formatting", '
             'C-API PyOS_double_to_string); table agreement Python <-> C for the helper interface (arity, literal kinds, name-aligned order, handled format characters); '
             'guard dominance (pyflow) for conversion_char; key completeness for the f-string de-duplication; cache-key completeness (def-use closure + path facts) of the '
             'memo slots on the shared type objects; decision tables of the !s / str() elision by path enumeration of the four deciding functions over all valuations of their '
             'atomic tests (rules/sC18.py); fourth round (rules/s4C18.py, rules/sC18.py): abstract interpretation of the C helpers with a checker-side interpreter - integers as '
             'linear forms over the number of digits, character buffers as piece lists with symbolic lengths, code points as bit vectors - over the complete partitions induced by '
             'the comparisons of the code (sign x width-relative-to-digits x padding; or-combinations of string kinds; code-point classes x width classes); symbolic extraction of '
             'the per-format-character digit step (modulus, divisor, stride, table) against the numeral tables; decision tables / path facts (pyflow) for the Python-side f-string '
             'machinery (constant folding, helper selection, operand arity, length/kind accounting, default specs)')
DECIDES = ('C18-INT: for every format-spec shape, if CIntLike._parse_format accepts it for C-level formatting then CPython accepts it for an int and it means right alignment '
           'with space padding or sign-aware zero padding with exactly the returned (format char, width, padding); rejected-by-CPython specs (sign with c, precision, ...) are '
           'not accepted. C18-CHR: every format character it returns is handled by the C helper (macro routing, switch cases, remapping tests read from TypeConversion.c). '
           'C18-DBL: CFloatType._parse_format accepts exactly [.precision]<e E f F g G> (default precision 6) and the empty spec (repr, precision 0); codes are valid '
           'PyOS_double_to_string codes. '
           'C18-CALL: the emitted `helper(value, width, \'pad\', \'fmt\')` / `__Pyx_PyUnicode_FromDouble(value, \'fmt\', prec)` calls have the arity of the C macro/function, character '
           'literals fill char parameters, no mutually swapped name-carrying arguments, the callee is the template variable of the loaded section, the (code, precision) pair '
           'reaches the format_code/precision arguments of PyOS_double_to_string, can_coerce_to_pystring rejects a None format character. C18-I5: arity of the emitted '
           '__Pyx_PyUnicode_Join/__Pyx_PyUnicode_FromDouble calls (shared rule I5). C18-FMTFN: every value of the format_func name variable is a helper with the emitted arity '
           'defined by a loaded section; !s !r !a map to PyObject_Str/Repr/ASCII. '
           'C18-TRN: for every placeholder shape the rewrite regex admits (flag runs over - 0 and space incl. both orders and repetitions x width x precision x the 16 conversion '
           'types) the FormattedValueNode built by _build_fstring has the conversion and a format spec with the same padding side, fill, sign option, width, precision and type as '
           'the % placeholder (strings right-aligned, - overrides 0, flags in any order, space ignored for strings, d/i/u converted to int, no integer precision, c not '
           'translated), or the whole expression is left alone; a break out of the chunk loop always gives up. '
           'C18-CONV: C-level number formatting is selected only on paths that test conversion_char. '
           'C18-KEY: the f-string de-duplication key contains every text-relevant attribute of FormattedValueNode. '
           'C18-MEMO: in every PyrexTypes method that memoises a computed value on the (process-wide) type object, each parameter the value is computed from takes part in the '
           'decision to use the slot and in the decision to fill it (CIntLike.convert_to_pystring: the helper instantiated for `int` is not served for an external typedef passed as name_type). '
           'C18-STRNONE: FormattedValueNode.analyse_types / generate_result_code, OptimizeBuiltinCalls._handle_simple_function_unicode / visit_FormattedValueNode drop the str()/!s '
           'conversion (bare operand returned, conversion call not emitted) only for conversion !s or none, without a format spec where the node itself disappears, on a statically-str '
           'operand AND after may_be_none() was excluded; !r !a (and the internal d) are always applied. '
           'C18-DIGITS: per format character reaching the digit switch of __Pyx__{{TO_PY_FUNCTION}}: remainder modulus == divisor == base**k, k characters written contiguously below '
           'the previous position, table stride k, the table holds the k-digit numerals in order (upper case for X), the index goes through abs(), the excess-zero flag is true exactly '
           'for indices < base**(k-1), the loop runs until the value is 0, the stack buffer holds the longest text of 1..16-byte types. '
           'C18-LAYOUT: the tail of that function + __Pyx_PyUnicode_BuildFromAscii (both #if branches) produce, for every class of (signedness, sign class of the value incl. -1/0, one digit / '
           'n digits, excess zero, width absolute 0/1 or n-1..n+6, padding space/0), exactly [spaces][-]digits resp. [-][zeros]digits of total length max(width, digits+sign), every cell '
           'written, nothing outside the allocation, allocated as ASCII. '
           "C18-CHRRANGE: the range guard of the 'c' format (__Pyx_uchar_{{TO_PY_FUNCTION}} + __Pyx_CheckUnicodeValue) accepts exactly 0..0x10FFFF and raises OverflowError otherwise, for "
           'signed/unsigned 1/2/4/8-byte types: truth table over the interval classes of every literal, every single bit, every literal with one bit flipped and both ends of every plane. '
           'C18-CHRPAD: __Pyx_PyUnicode_FromOrdinal_Padded gives padding*(width-1)+chr(value) for every class of code points (all constants of the function and the UTF-8/Latin-1/surrogate '
           'boundaries) x width classes around its limits: stack buffer bounds, surrogates never through the UTF-8 decoder, encoded bytes == RFC 3629 bit slices (bit-vector domain). '
           'C18-JOINC: __Pyx_PyUnicode_Join for all 8 or-combinations of kinds: canonical allocation (max_char table + clamp), memcpy offset/size scaled by the character size, '
           'CopyCharacters arguments, write position advances by the substring length on every path (both copy configurations of CPython). '
           'C18-CHELP: Py_DTSF_ADD_DOT_0 exactly for the repr code; __Pyx_PyUnicode_Unicode maps exactly None to the text str(None); type fast paths of FormatSimple/Format test the exact '
           'type and use the slots/formatter of that type. '
           'C18-FOLD: ConstantFolding.visit_FormattedValueNode unwraps only string literals under !s/none without spec, folds only int constants without spec, discards only an empty literal spec. '
           'C18-EMIT: FormatSimple* only on paths without format spec; emitted (value, spec) order == the order every C helper hands to PyObject_Format; the conversion call wraps the value. '
           'C18-CONVSEL: per conversion character, c_format_spec + format spec only for none / d; the no-spec default is the default_format_spec of the value type. '
           'C18-ARITY: no %-rewrite for a multiplied tuple; a surplus operand makes _build_fstring return None. C18-MERGE: operand order of the f-string merges in visit_AddNode. '
           'C18-JOINPY: every path of the accounting loop counts the part in the length (literal len / run-time index / repetition) and in the kind unless c_format_spec is not None and its '
           "type character is not 'c'; repetition factors reach every emitted accumulation; the table keeps every count >= 2; kind shortcut only for kind 4; values array filled at the "
           'loop index; the emitted join call passes (array, count, length temp, kind temp); get_ustring_kind == CPython kind boundaries. '
           "C18-TYPES: default_format_spec per C type in the set that gives str(x) (int: ''/'d', bool/float: ''); bint: falsy spec -> True/False helper with the texts str(True)/str(False), "
           "selection on non-zero; return code -> str(None); external typedef passes itself as name_type. C18-STRSEL: a non-converting str() helper only on statically-str paths.")
NOT_DECIDED = ('the digits themselves beyond the step relations (C18-LAYOUT takes the digit run as opaque and relies on the loop summary established by C18-DIGITS); the text produced by '
               'PyOS_double_to_string / PyObject_Format themselves; the character-by-character fallback of __Pyx_PyUnicode_Join (no _PyUnicode_FastCopyCharacters) and its overflow checks; '
               'which adjacent literals simplify_JoinedStrNode merges (contents of node lists: needs relational reasoning about sequences, no engine for it); which operands the f-string '
               'de-duplication may share beyond the key (is_name/is_simple: how often an expression is evaluated is decided under C20, and whether a value changes between two uses is a '
               'run-time property); the width limit 2**30 of can_coerce_to_pystring; invalid %-templates (a "-" after the '
               'width, unknown type characters), the "#" and "+" flags and "*" widths (not admitted by the rewrite regex - ANALYSIS-ERROR if it starts admitting them); the '
               'error type for mismatched operands (known finding K6: "%x" % 2.5 raises ValueError instead of TypeError); format specs that are not literals; unicode digits in '
               'widths; the "z" option is only checked as a field the helpers cannot express.')
ASSUMPTIONS = ['re.split with the one-group regex yields each placeholder as one chunk (the interpreter runs one loop iteration per placeholder shape)',
               'EncodedString(x) and <X>Node(pos, value=x) carry the text x (constructors are not interpreted)',
               'width digits have no leading zero (a leading zero is the 0 flag) and the fill character is none of the characters spelled in the interpreted code']
EXEMPT = {}

# Genuine defects on the unchanged tree that these rules report (each confirmed by compiling a module with PYTHONPATH=/repo in a temp dir):
#  1. C18-TRN  (DESIGN finding 24) ConstantFolding._build_fstring: '%5s|' % ('ab',) -> 'ab   |' (CPython '   ab|'; same for %r %a); '%-05s' -> 'ab000', '%-05d' % 3 -> '30000';
#     '%0-5d' % 3 -> ValueError; additionally found here: '% s' % 'ab' -> ValueError (CPython 'ab'), '%--5s' -> ValueError, '%005s' -> '000ab'.
#  2. C18-INT  CIntLike._parse_format: f"{c_int:>05d}" with -5 -> '-0005' (CPython '000-5': explicit alignment + '0' is a plain fill, not sign-aware);
#     f"{c_int:-5c}" -> '    A' (CPython ValueError: Sign not allowed with integer format specifier 'c').
#  3. C18-CONV FormattedValueNode.analyse_types ignores conversion_char when it selects C-level formatting: f"{c_int!s:5}|" -> '   65|' (CPython '65   |'),
#     f"{c_int!r:x}" -> '41' (CPython ValueError), f"{c_double!r:.2f}" -> '1.50' (CPython ValueError), f"{c_int!s:05}" with -65 -> '-0065' (CPython '-6500').

# Single-edit variants tried on a scratch copy: (file, edit, rule/construct that reported it).  All were reported with exit 1 and a new construct, except the two marked.
MUTATIONS = [
    ('Cython/Compiler/PyrexTypes.py', "CIntLike._parse_format: `in 'odxXc'` -> `in 'odxXcb'`", 'C18-CHR ...:format-char:b'),
    ('Cython/Compiler/PyrexTypes.py', "CIntLike._parse_format: `prefix[0] in '>-'` -> `in '<>-'`", 'C18-INT ...:alignment'),
    ('Cython/Compiler/PyrexTypes.py', "CIntLike._parse_format: `prefix[0] in '>-'` -> `in '>-+'`", 'C18-INT ...:drops-field'),
    ('Cython/Compiler/PyrexTypes.py', "CIntLike._parse_format: `padding = '0'` -> `padding = 'x'`", 'C18-INT ...:padding'),
    ('Cython/Compiler/PyrexTypes.py', 'CIntLike._parse_format: `return (format_type, int(prefix), padding)` -> `(format_type, 0, padding)`', 'C18-INT ...:width'),
    ('Cython/Compiler/PyrexTypes.py', "CIntLike._parse_format: digit-only spec gets format_type 'x' instead of 'd'", 'C18-INT ...:format-char'),
    ('Cython/Utility/TypeConversion.c', "CIntToPyUnicode: `case 'o':` -> `case 'O':`", 'C18-CHR ...:format-char:o'),
    ('Cython/Utility/TypeConversion.c', "CIntToPyUnicode: delete the `if (format_char == 'X') {...}` remapping", 'C18-CHR ...:format-char:X'),
    ('Cython/Utility/TypeConversion.c', "CIntToPyUnicode.proto: macro routes on ('C') instead of ('c')", 'C18-CHR ...:format-char:c'),
    ('Cython/Compiler/PyrexTypes.py', 'CFloatType._parse_format: default precision 6 -> 5', 'C18-DBL ...:default-precision'),
    ('Cython/Compiler/PyrexTypes.py', "CFloatType._parse_format: `in 'eEfFgG'` -> `in 'eEfFgGn'`", 'C18-DBL ...:invalid-code'),
    ('Cython/Compiler/PyrexTypes.py', "CFloatType._parse_format: `return ('r', 0)` -> `('r', 17)`", 'C18-DBL ...:repr'),
    ('Cython/Compiler/PyrexTypes.py', 'CFloatType._parse_format: strip leading digits before the "." (accepts a width)', 'C18-DBL ...:drops-field'),
    ('Cython/Compiler/PyrexTypes.py', "CIntLike.convert_to_pystring: template `%s(%s, '%s', %d, '%s')` with (padding_char, width) swapped", 'C18-CALL ...:1<->2, arg1:kind, arg2:kind'),
    ('Cython/Compiler/PyrexTypes.py', 'CIntLike.convert_to_pystring: unpack `padding_char, width, format_type = self._parse_format(...)`', 'C18-CALL ...:unpack (+ C18-CHR)'),
    ('Cython/Compiler/PyrexTypes.py', "CFloatType.convert_to_pystring: `(%s, %d, '%s') % (cvalue, precision, format_char)`", 'C18-CALL ...:1<->2, kind, code-position'),
    ('Cython/Utility/TypeConversion.c', 'CIntToPyUnicode.proto: macro loses the padding_char parameter', 'C18-CALL ...:arity + C18-INT ...:interface'),
    ('Cython/Compiler/PyrexTypes.py', 'CIntLike.can_coerce_to_pystring: drop `format_type is not None and`', 'C18-CALL ...can_coerce_to_pystring:none'),
    ('Cython/Utility/TypeConversion.c', 'CDoubleToPyUnicode: PyOS_double_to_string(value, precision, format_char, ...)', 'C18-CALL ...:code-position'),
    ('Cython/Compiler/ExprNodes.py', 'JoinedStrNode: drop the last argument of the emitted __Pyx_PyUnicode_Join call', 'C18-I5 ...__Pyx_PyUnicode_Join/3'),
    ('Cython/Compiler/ExprNodes.py', "FormattedValueNode: `format_func += 'AndDecRef'`", 'C18-FMTFN ...__Pyx_PyObject_FormatAndDecRef'),
    ('Cython/Compiler/ExprNodes.py', "find_conversion_func: 'r' -> 'PyObject_Str'", 'C18-FMTFN ...find_conversion_func:r'),
    ('Cython/Compiler/ExprNodes.py', 'FormattedValueNode: load "PyObjectFormat" instead of "PyObjectFormatSimple"', 'C18-FMTFN ...__Pyx_PyObject_FormatSimple:section'),
    ('Cython/Compiler/Optimize.py', "_build_fstring: `conversion_char = 'd'` -> None", 'C18-TRN ...:d-int-conversion:int'),
    ('Cython/Compiler/Optimize.py', "_build_fstring: integer precision test `in 'doxX'` -> `in 'oxX'`", 'C18-TRN ...:int-precision:int'),
    ('Cython/Compiler/Optimize.py', "_build_fstring: guard `in 'asrfdoxX'` -> `'asrfdoxXi'`", 'C18-TRN ...:d-int-conversion:int'),
    ('Cython/Compiler/Optimize.py', "_build_fstring: guard `in 'asrfdoxX'` -> `'asrfdoxXc'`", 'C18-TRN ...:untranslatable-type:c'),
    ('Cython/Compiler/Optimize.py', '_build_fstring: `if arg.is_starred: break` without can_be_optimised = False', 'C18-TRN ...:give-up-is-complete:*'),
    ('Cython/Compiler/Optimize.py', "_build_fstring: '%%' chunk appends '%%'", 'C18-TRN ...:percent-literal:%'),
    ('Cython/Compiler/Optimize.py', "_build_fstring: `'<' + format_spec[1:]` -> `'>' + ...`", 'C18-TRN ...:equivalent-spec:int/float'),
    ('Cython/Compiler/Optimize.py', "_build_fstring: `conversion_char = format_type` -> 's'", 'C18-TRN ...:str-conversion:str'),
    ('Cython/Compiler/Optimize.py', '_build_fstring: do not strip the type character for r/s/a', 'C18-TRN ...:equivalent-spec:str'),
    ('Cython/Compiler/Optimize.py', "_build_fstring: delete the `startswith('0')` -> '>' branch", 'NOT separately visible today (the construct str-right-align:str already fires); caught on the repaired tree, see below'),
    ('Cython/Compiler/Optimize.py', "visit_JoinedStrNode: key without `conversion_char or 's'`", 'C18-KEY ...:key:conversion_char'),
    ('Cython/Compiler/Optimize.py', 'visit_JoinedStrNode: key without c_format_spec', 'C18-KEY ...:key:c_format_spec'),
    # on a tree with finding 24 repaired (flags parsed with lstrip('-0 '), '<' for '-', '>' for r/s/a with a width, '0' re-added for numbers): C18-TRN silent, and
    ('Cython/Compiler/Optimize.py', "repaired _build_fstring: no '>' for r/s/a", 'C18-TRN ...:str-right-align:str'),
    ('Cython/Compiler/Optimize.py', "repaired _build_fstring: `'-' in flags` -> `flags.startswith('-')`", 'C18-TRN ...:flag-order:*'),
    ('Cython/Compiler/Optimize.py', "repaired _build_fstring: lstrip('- ') keeps the zeros", 'C18-TRN ...:minus-overrides-zero:*'),
    ('Cython/Compiler/Optimize.py', "repaired _build_fstring: lstrip('-0') keeps the space", 'C18-TRN ...:space-flag-str:str'),
    ('Cython/Compiler/Optimize.py', "repaired _build_fstring: '0' not re-added for numbers", 'C18-TRN ...:equivalent-spec:int/float'),
    # C18-MEMO / C18-STRNONE (rules/sC18.py), tried on /tmp/strengthen/G4/scr.  Seeds: C18a -> C18-MEMO ...convert_to_pystring:to_pyunicode_utility:use ; C18b -> C18-STRNONE ...generate_result_code:conv=s
    ('Cython/Compiler/PyrexTypes.py', 'CIntLike.convert_to_pystring: fill guard `if name_type is self:` -> `if True:`', 'C18-MEMO ...:to_pyunicode_utility:fill'),
    ('Cython/Compiler/PyrexTypes.py', 'CIntLike.convert_to_pystring: hit condition `... and name_type is None` -> `... and format_spec is None`', 'C18-MEMO ...:to_pyunicode_utility:use'),
    ('Cython/Compiler/PyrexTypes.py', 'CIntLike.convert_to_pystring: slot copied to a local `cached`, hit flag `cached is not None` without name_type', 'C18-MEMO ...:to_pyunicode_utility:use'),
    ('Cython/Compiler/ExprNodes.py', 'FormattedValueNode.analyse_types: `resolved_type.is_pystr_type and not self.value.may_be_none()` -> `resolved_type.is_pystr_type`', 'C18-STRNONE ...analyse_types:conv=None, conv=s'),
    ('Cython/Compiler/Optimize.py', '_handle_simple_function_unicode: `if not arg.may_be_none(): return arg` -> `return arg`', 'C18-STRNONE ..._handle_simple_function_unicode:str(x) + visit_FormattedValueNode:conv=None/s'),
    ('Cython/Compiler/Optimize.py', 'visit_FormattedValueNode: drop `and not node.format_spec`', 'C18-STRNONE ...visit_FormattedValueNode:conv=None, conv=s'),
    ('Cython/Compiler/Optimize.py', "visit_FormattedValueNode: `node.conversion_char == 's'` -> `in 'sr'`", 'C18-STRNONE ...visit_FormattedValueNode:conv=r'),
    ('Cython/Compiler/ExprNodes.py', "generate_result_code: `conversion_char == 's' and value_is_unicode` -> `conversion_char in ('s', 'a') and ...`", 'C18-STRNONE ...generate_result_code:conv=a'),
    # reverting/applying fixes
    ('Cython/Compiler/PyrexTypes.py', "FIX: strip '-' only when format_type != 'c'; after '>' return None for a following '0'", 'C18-INT goes silent'),
    ('Cython/Compiler/ExprNodes.py', "FIX: `(not c_format_spec or self.conversion_char in (None, 'd')) and can_coerce_to_pystring(...)`", 'C18-CONV goes silent'),
]
# Fourth round: 51 + 29 + 6 + 3 brainstormed mutants with their outcomes before/after are kept as patches under /verif/mutants/C18/ (meta.json: breaking?, caught_by); the ones recorded as
# caught are replayed by the thorough tier.  Rules added in that round: C18-DIGITS, C18-LAYOUT, C18-CHRPAD, C18-JOINC, C18-CHELP (rules/s4C18.py), C18-FOLD, C18-EMIT, C18-CONVSEL,
# C18-ARITY, C18-MERGE, C18-JOINPY, C18-TYPES, C18-STRSEL (rules/sC18.py); written but not registered: C18-CHRRANGE (pending finding).
SILENT_EDITS = [   # behaviour-preserving, no new violation
    "CIntLike._parse_format: `in 'odxXc'` -> `in ('o', 'd', 'x', 'X', 'c')`",
    "CIntLike._parse_format: `prefix[0] in '>-'` -> `prefix.startswith('>') or prefix.startswith('-')`",
    'CIntLike._parse_format: strip zeros into a new local `digits` with an else branch',
    'CIntLike.convert_to_pystring: %-template -> f-string',
    "CIntToPyUnicode: move `case 'x'` to the top of the switch and rename the C parameter format_char -> fmt",
    "_build_fstring: `format_spec.startswith('-')` -> `format_spec[:1] == '-'` with a convoluted but equal right-hand side",
    "_build_fstring: guard `in 'asrfdoxX'` -> tuple of characters",
    "CFloatType._parse_format: `if not precision: return (format_char, 6)` -> `if precision == '': return (format_char, 3 + 3)`",
    'visit_JoinedStrNode: reorder the elements of the de-duplication key',
    "repaired _build_fstring: `left = '-' in flags; if left:`, tuple membership; '>' added also when there is no width",
    # C18-MEMO / C18-STRNONE stayed silent on:
    'CIntLike.convert_to_pystring: hit condition reordered + De Morgan `name_type is None and not (self.to_pyunicode_utility is None)`',
    'CIntLike.convert_to_pystring: `cached = self.to_pyunicode_utility; hit = cached is not None and name_type is None; if hit: ... = cached`',
    'CIntLike.convert_to_pystring: fill as `if name_type is not self: pass else: pair = (...); self.to_pyunicode_utility = pair`',
    'generate_result_code: `value_is_unicode = not (not self.value.type.is_pystr_type or self.value.may_be_none())`',
    "generate_result_code: nested ifs on a local alias `val = self.value` instead of the value_is_unicode flag",
    'analyse_types: `not self.value.may_be_none() and resolved_type is unicode_type`',
    '_handle_simple_function_unicode: local flag is_str, early return `if is_str and not arg.may_be_none(): return arg`',
]


class _TwoModuleIndex:
    """The part of PyIndex that the shared rule I5 uses (modules, functions_of), over the two anchored modules only:
    building the whole-package index would triple the run time of this check for two call sites."""
    functions_of = pyindex.PyIndex.functions_of

    def __init__(self, ctx, rels):
        self.modules = {}
        self.classes_by_name = collections.defaultdict(list)
        for rel in rels:
            name = rel[:-3].replace('/', '.')
            self.modules[name] = pyindex.Module(name, rel, ctx.parse(rel), '')


class _Ctx:
    def __init__(self, ctx):
        self.cat = ctx.cat
        self.index = _TwoModuleIndex(ctx, (pC18.EXPRNODES, pC18.PYREX))


def run(ctx):
    from ..rules import fmtascii, sC18, s4C18
    site = pC18.PyCallSite(ctx, 'CIntLike')
    helper = pC18.IntHelper(ctx)
    r_int, accepted = pC18.rule_int(ctx, site, helper)
    names = lambda n: n in ('__Pyx_PyUnicode_Join', '__Pyx_PyUnicode_FromDouble')
    r_i5 = iface.rule_I5(_Ctx(ctx), modules=('ExprNodes', 'PyrexTypes'), names=names, floor=2, rid='C18-I5')
    fmt_chars = {d.get('type') or 'd' for d in accepted} & set(s4C18.BASE_OF) or None
    # C18-ASCII (shared file): floor 0 here - when the type-character test disappears altogether the obligation is decided by C18-JOINPY:kind-accounting,
    # which reports the unguarded path instead of ending in ANALYSIS-ERROR.
    # s4C18.rule_chrrange: registered since FINDING_C18_1 was repaired (a3e04b332); round 9 added the per-bit classes of the guard's masks (seed C18n)
    return [r_int, pC18.rule_chr(ctx, accepted), pC18.rule_dbl(ctx), pC18.rule_call(ctx), r_i5, pC18.rule_fmtfn(ctx),
            pC18.rule_trn(ctx), pC18.rule_conv(ctx), pC18.rule_key(ctx), fmtascii.rule_ascii(ctx, floor=0),
            sC18.rule_memo(ctx), sC18.rule_strnone(ctx), s4C18.rule_chrrange(ctx),
            s4C18.rule_digits(ctx, fmt_chars), s4C18.rule_layout(ctx), s4C18.rule_chrpad(ctx), s4C18.rule_joinc(ctx), s4C18.rule_chelp(ctx),
            sC18.rule_fold(ctx), sC18.rule_emit(ctx), sC18.rule_convsel(ctx), sC18.rule_arity(ctx), sC18.rule_merge(ctx), sC18.rule_joinpy(ctx), sC18.rule_types(ctx), sC18.rule_strsel(ctx)]
