"""C23 — generators/coroutines: `is_running` acquire/release typestate on clang's CFG of Coroutine.c/AsyncGen.c (rule S1), must-hold calls,
the accessors of the flag, and the agreement between yield sites, `new_yield_label()` and the resume switch (G4 style).

How S1 works (all in sa/rules/pC23.py): the utility sections of Coroutine.c and AsyncGen.c with their `@requires` closure are assembled into one
C translation unit (prototypes first, module-state struct synthesised, pseudo-macros of the utility loader defined by a prelude, likely()/unlikely()
taken from Nodes.branch_prediction_macros).  Every function that calls test_and_set / unset / a helper asserting the flag is copied to the end of
the unit once per combination of the `#if` conditions inside it (a small preprocessor-expression evaluator resolves them, identical bodies are
merged: 44 copies of 7 functions today).  clang is run once, as a parser, with every checker off except `debug.DumpCFG`; the typestate
(U not acquired / P result pending / V result in a local / A acquired / B already-running branch / R released / H held by caller) is a fixpoint
over the basic blocks of each copy.  If clang reports a single error the result is ANALYSIS-ERROR, never a pass.
"""
from ..rules import pC23

ID = 'C23'
TECHNIQUE = ('typestate fixpoint on clang CFGs (clang --analyze, debug.DumpCFG only) of an assembled Coroutine.c/AsyncGen.c translation unit, one copy '
             'of each protocol function per #if configuration; path-sensitive AST dataflow (pyflow) of the yield-site emitter; table agreement of '
             'resume_label constants between compiler and C runtime; flow-insensitive points-to (ownership) analysis of the closure-slot allocator; '
             'path-sensitive typestate of gen->yieldfrom over the parsed C text of every SendEx caller (all #if variants, interprocedural entry states); push/pop pairing, '
             'guard tables and flag/slot agreement by structural extraction; path-sensitive dynamic-scope (save / set / restore) dataflow of the handled-exception attributes of '
             'FunctionState over every generator method that writes them (attributes found from their readers); error-result discipline (unchecked / dropped result of the file\'s own fallible int helpers, '
             'instances inferred from their return statements) with an enclosing-guard test at the GeneratorExit site')
DECIDES = ('S1: in every function of Coroutine.c/AsyncGen.c that calls __Pyx_Coroutine_test_and_set_is_running, for every combination of the #if '
           'conditions inside it: the result of the call is branched on; the "already running" branch never releases; on the acquired branch every path '
           'to a return (or the end of the function) passes __Pyx_Coroutine_unset_is_running exactly once; no second acquire while holding; macros and '
           'release helpers are followed (clang expands macros, one-level summaries for helpers that release a parameter). '
           'S1b: every call of a helper that asserts __Pyx_Coroutine_get_is_running(param) (SendEx, FinishDelegation, SendToDelegate, CloseIter; set '
           'extracted from the source) is made while the flag is held, i.e. the body is never (re)entered with gi_running false. '
           'S1c: the is_running field is touched only by the three accessors and zeroed by the constructor; test_and_set reads the old value, stores a '
           'non-zero constant and returns the old value, unset stores 0. '
           'YL (G4 style): FunctionState.new_yield_label appends and returns the same (len+k>=1, fresh label) pair; each yield site stores exactly that '
           'number into ->resume_label, then emits `return`, then places exactly that label once, on every path; GeneratorBodyDefNode emits '
           '`switch (gen->resume_label)` into an insertion point taken before the body, `case 0` to a placed first-run label, and after '
           'generate_function_body() one unconditional `case number: goto label` per element of code.yield_labels with the placeholders bound in pair order. '
           'RL: the finished marker stored by the generated body is negative, the C constructor initialises resume_label to the first-run case, and every '
           'C comparison of resume_label with a constant separates values that are really stored (-1 / 0 / 1..n). '
           'UNDEL: every jump to throw_here in __Pyx__Coroutine_Throw is dominated by __Pyx_Coroutine_Undelegate(gen). '
           'SLOT: in Code.ClosureTempAllocator (the closure fields that hold live temporaries across a yield) no list/dict object that is mutated in place is reachable from '
           'more than one pool attribute (shallow copies share their elements), and the slot allocate_temp returns out of a pool list is removed from it (.pop). '
           'DELEG: __Pyx_Coroutine_SendEx (resume of the body) is reached only with gen->yieldfrom known cleared — tested NULL or Undelegate called — on every path of every caller, every #if variant, '
           'helpers entered in the state of their call sites. EXCSTACK: SendEx links previous_item before pushing the generator\'s exception item and pops exactly that link after the body. '
           'TERM: the "already terminated" exit and the RETURN/ERROR classification of SendEx are taken exactly for the finished marker the generated body stores (a missing marker emission is itself reported by RL). '
           'ITERNEXT: iternext=1 is passed exactly by the functions installed in tp_iternext. '
           'AGRUN: every INIT->ITER transition of an asend/athrow awaitable follows the already-running test of its branch and stores ag_running_async = 1. '
           'RESUME: generate_yield_code copies live temporaries into the closure before the return and out of it after the resume label, NULL-checks the sent value after the label, and swaps the '
           'handled exception into the generator exactly inside an except block. '
           'EXCSCOPE: the funcstate attribute that test reads (current_except) and the re-raise variables (exc_vars) are dynamically scoped in every method of Cython/Compiler that writes them: '
           'on every normal exit the attribute holds the value found on entry (restored from a local loaded before the first write, not a constant), except clauses are generated while '
           'current_except holds a value set by the method, the try body / else clause while it holds the entry value. '
           'ERRRESULT: the result of every int helper of Coroutine.c/AsyncGen.c whose returns produce both -1 (exception pending) and 0 (set extracted from the source) is consumed at each call site - '
           'used in a condition / return, or stored in a variable read afterwards, or the failure travels through an out-parameter the caller reads - and __Pyx_Coroutine_Close sets GeneratorExit only '
           'under a test of the result of __Pyx_Coroutine_CloseIter (PEP 380: a failing delegate.close() is what the body sees).')
NOT_DECIDED = ('the observable trace itself (values, StopIteration payloads, finally blocks, exception chaining) — only the run-state, delegation and resume-point '
               'bookkeeping is decided. The set of exceptions close() '
               'swallows (that GeneratorExit is raised in the body only when closing the delegate succeeded is decided by ERRRESULT since batch 12), and the PEP 479 replacement emission (a single emission under a future-directive test, no structural partner) are not decided. Rule S3 of the design (raise => error return on the same CFGs) is not armed: its 12 untriaged sites need value '
               'tracking and would be a proxy today. The typestate is path-sensitive only in the test_and_set result (directly, through !/__builtin_expect/'
               '== 0, or parked in one local); a release made conditional on a second, correlated flag would be reported although correct. '
               'Configurations are enumerated per function over the atoms of its own #if lines (defined(X) and X are independent atoms); macro bodies '
               'are expanded for the configuration of the installed CPython headers only. AsyncGen.c has no test_and_set call today (it goes through '
               'the Coroutine.c entry points); its functions are scanned and would be analysed if one appears. '
               'EXCSCOPE analyses each writer method on its own: a set / restore pair split over two helper methods (or a context manager) would be reported although correct; '
               'that a yield inside the exceptional copy of a finally clause keeps the in-flight exception is not decided.')
ASSUMPTIONS = ['clang 14 is on PATH and the CPython headers of the running interpreter are installed (clang is used as a parser; nothing is compiled or run)',
               'the textual format of `debug.DumpCFG` (block headers, `N: stmt`, `T:` terminators, `Succs`) is that of clang 14; a changed format yields ANALYSIS-ERROR through the ENTRY/EXIT and control-function checks',
               'the first successor of a two-way block is the true edge (clang CFG convention); checked by the embedded `inverted` control']
EXEMPT = {}

# (file, single edit, rule expected to fire) — all tried on a scratch copy /tmp/scr_C23; every one was reported with a message naming the function/construct.
MUTATIONS = [
    ('Cython/Utility/Coroutine.c', 'SEED C23o: __Pyx_Coroutine_Close drops the result of CloseIter ((void) cast) and sets GeneratorExit unconditionally; variant: err stored but the `if (err == 0)` removed', 'C23-ERRRESULT ...:__Pyx_Coroutine_CloseIter#1 + GeneratorExit-guard'),
    ('Cython/Utility/Coroutine.c', "__Pyx__Coroutine_Throw: add `if (unlikely(!typ)) return NULL;` after Py_INCREF(yf) (early return without release; the design's mutation)", 'C23-S1 return-while-held'),
    ('Cython/Utility/Coroutine.c', '__Pyx_Coroutine_AmSend: delete unset_is_running in the `if (likely(ret))` block', 'C23-S1 return-while-held `return PYGEN_NEXT;`'),
    ('Cython/Utility/Coroutine.c', '__Pyx_Generator_Next: add unset_is_running before `return AlreadyRunningError` ', 'C23-S1 release-on-busy-branch'),
    ('Cython/Utility/Coroutine.c', '__Pyx_Coroutine_Close: duplicate the unset_is_running of the PYGEN_RETURN branch', 'C23-S1 release-twice'),
    ('Cython/Utility/Coroutine.c', '__Pyx_Coroutine_AmSend: add `if (!ret) return PYGEN_ERROR;` inside the `#ifdef __Pyx_AsyncGen_USED` arm (only reachable with CYTHON_USE_AM_SEND=0)', 'C23-S1 return-while-held, reported "in 8 of 17 #if configurations"'),
    ('Cython/Utility/Coroutine.c', '__Pyx_Generator_GetInlinedResult: negate the test_and_set condition', 'C23-S1 release-on-busy-branch + return-while-held, C23-S1b'),
    ('Cython/Utility/Coroutine.c', '__Pyx__Coroutine_Throw: call test_and_set without testing the result', 'C23-S1 result-ignored'),
    ('Cython/Utility/Coroutine.c', '__Pyx__Coroutine_Throw: delete the unset_is_running of the propagate_exception: block (reached by goto only)', 'C23-S1 return-while-held'),
    ('Cython/Utility/Coroutine.c', '__Pyx_Generator_GetInlinedResult: move unset_is_running before __Pyx_Coroutine_SendEx', 'C23-S1b'),
    ('Cython/Utility/Coroutine.c', '__Pyx_Coroutine_Send: call __Pyx_Coroutine_SendEx directly without acquiring', 'C23-S1b'),
    ('Cython/Utility/Coroutine.c', '__Pyx_Coroutine_clear: add `gen->is_running = 0;`', 'C23-S1c'),
    ('Cython/Utility/Coroutine.c', 'test_and_set: store 0 / read after the store; unset: store 1', 'C23-S1c (3 variants)'),
    ('Cython/Compiler/Code.py', 'new_yield_label: number = len(self.yield_labels) (no +1)', 'C23-YL number'),
    ('Cython/Compiler/Code.py', 'new_yield_label: return a re-evaluated (len(...)+1, label) after the append', 'C23-YL return'),
    ('Cython/Compiler/Nodes.py', 'resume switch: "case %s: goto %s;" % (label, i)', 'C23-YL switch-case'),
    ('Cython/Compiler/Nodes.py', 'resume switch: iterate code.yield_labels[1:]', 'C23-YL switch-iter'),
    ('Cython/Compiler/Nodes.py', 'resume switch: switch on ->is_running', 'C23-YL switch-subject'),
    ('Cython/Compiler/ExprNodes.py', 'generate_yield_code: put_label(resume_label) moved before the return / deleted / resume_label = label_num + 1 / `return` emitted in one branch only', 'C23-YL (4 variants)'),
    ('Cython/Compiler/Nodes.py', "exit code: resume_label = -2", 'C23-RL (SendEx, athrow tests dead)'),
    ('Cython/Utility/Coroutine.c', 'NewInit: resume_label = 1; SendEx: `resume_label == -2`', 'C23-RL (2 variants)'),
    ('Cython/Compiler/Nodes.py', '"case 1: goto %s;" % first_run_label', 'C23-RL init'),
    ('Cython/Compiler/Code.py', 'seed C23b: ClosureTempAllocator.reset: self.temps_free = dict(self.temps_allocated)', 'C23-SLOT'),
    ('Cython/Compiler/Code.py', 'reset: self.temps_free[type] = cnames (no copy) / = self.temps_allocated.copy() / .update(self.temps_allocated) / {t: c for t, c in ...items()}', 'C23-SLOT (4 variants)'),
    ('Cython/Compiler/Code.py', 'allocate_temp: self.temps_allocated[type] = self.temps_free[type] = []', 'C23-SLOT'),
    ('Cython/Compiler/Code.py', 'allocate_temp: return self.temps_free[type][0] (read, not popped)', 'C23-SLOT return'),
    # fourth round (rules/sC23.py; the full list with patches is in /verif/mutants/C23/)
    ('Cython/Utility/Coroutine.c', 'Undelegate dropped in SendToDelegate / FinishDelegation / Close', 'C23-DELEG (3 variants)'),
    ('Cython/Utility/Coroutine.c', 'SendEx: pop of tstate->exc_info dropped; previous_item link dropped', 'C23-EXCSTACK (2 variants)'),
    ('Cython/Utility/Coroutine.c', 'SendEx: `resume_label == 0` terminated test; classification by `!= -1`', 'C23-TERM (2 variants)'),
    ('Cython/Utility/Coroutine.c', '__Pyx_Coroutine_Send passes iternext=1', 'C23-ITERNEXT'),
    ('Cython/Utility/AsyncGen.c', 'asend_throw without ag_running_async = 1; athrow_throw without the already-running test', 'C23-AGRUN (2 variants)'),
    ('Cython/Compiler/ExprNodes.py', 'generate_yield_code: restore copy reversed; sent-value check dropped; SwapException under `current_except is None`', 'C23-RESUME (3 variants)'),
    ('Cython/Compiler/Nodes.py', 'exit code without `resume_label = -1`', 'C23-RL finished-marker:missing (was ANALYSIS-ERROR)'),
    ('Cython/Utility/Coroutine.c', 'Close: GeneratorExit raised although CloseIter failed; only GeneratorExit swallowed; Nodes: PEP 479 replacement dropped', 'MISSED (see NOT_DECIDED)'),
    # fifth round (session H3; patches in /verif/mutants/C23/except-scope-* and excvars-*)
    ('Cython/Compiler/Nodes.py', 'SEED C23f: TryExceptStatNode.generate_execution_code resets funcstate.current_except to None after the clauses instead of the saved outer value', 'C23-EXCSCOPE ...:current_except:restore'),
    ('Cython/Compiler/Nodes.py', 'restore dropped / made conditional / moved into the clause loop / restoring a local read after the set', 'C23-EXCSCOPE restore (4 variants)'),
    ('Cython/Compiler/Nodes.py', 'current_except = self dropped / moved behind the clause loop; set at the top of the method (try body generated as if inside the handler)', 'C23-EXCSCOPE set (2 variants) / outside'),
    ('Cython/Compiler/Nodes.py', 'ExceptClauseNode: exc_vars restore dropped; TryFinallyStatNode: exc_vars reset to None', 'C23-EXCSCOPE ...:exc_vars:restore (2 variants)'),
]
PRESERVING = [
    ('Cython/Utility/Coroutine.c', '__Pyx_Coroutine_Close: `if (!err) { PyErr_SetNone(PyExc_GeneratorExit); }`', 'silent'),
    ('Cython/Utility/Coroutine.c', 'Close: Undelegate after Py_DECREF(yf), `yf != NULL`; AmSend: `else if (!gen->yieldfrom) SendEx`; SendEx: `resume_label < 0`', 'silent'),
    ('Cython/Compiler/ExprNodes.py', 'restore loop with renamed locals; AsyncGen.c: running flag stored before the state', 'silent'),
    ('Cython/Utility/Coroutine.c', '__Pyx_Generator_Next: `char busy = test_and_set(gen); if (unlikely(busy != 0))`', 'silent'),
    ('Cython/Utility/Coroutine.c', 'new macro __Pyx_Coroutine_Release(g) and new helper function __Pyx_Coroutine_Done(g) used instead of unset in Throw / GetInlinedResult (argument spelled (__pyx_CoroutineObject*)self)', 'silent'),
    ('Cython/Utility/Coroutine.c', '__Pyx_Coroutine_Close: three returns of the error arm rewritten to `goto done; done: unset; return result;`', 'silent'),
    ('Cython/Utility/Coroutine.c', '__Pyx_Coroutine_AmSend: test written as `if (test_and_set(gen) == 0) {...} else {...}` with swapped arms', 'silent'),
    ('Cython/Utility/Coroutine.c', 'test_and_set: local `result` renamed', 'silent'),
    ('Cython/Compiler/ExprNodes.py', 'generate_yield_code: label_num renamed', 'silent'),
    ('Cython/Compiler/Nodes.py', 'resume switch case emitted with an f-string', 'silent'),
    ('Cython/Compiler/Code.py', 'new_yield_label: `number = 1 + len(...)`; pair built in two steps', 'silent'),
    ('Cython/Compiler/Code.py', 'ClosureTempAllocator.reset: self.temps_free = {t: list(c) for t, c in self.temps_allocated.items()}', 'silent'),
    ('Cython/Compiler/Code.py', 'reset: loop over keys, `names = self.temps_allocated[ctype]; self.temps_free[ctype] = names[:]`', 'silent'),
    ('Cython/Compiler/Code.py', 'reset: copy.deepcopy(self.temps_allocated); allocate_temp: `free = self.temps_free[type]; if free: return free.pop(0)`', 'silent'),
    ('Cython/Compiler/Nodes.py', 'current_except: funcstate aliased, restore in a try/finally; save+set as one tuple assignment, exc_vars saved and restored unconditionally; save/set/loop/restore extracted into a helper method', 'silent'),
]


def run(ctx):
    from ..rules import undeleg, sC23, s4C23, s10C23
    # the quick tier already runs the clang CFG version (about 1 s for the clang call); the thorough tier is the same analysis
    return [pC23.rule_S1(ctx), pC23.rule_S1b(ctx), pC23.rule_S1c(ctx), pC23.rule_YL(ctx), pC23.rule_RL(ctx), undeleg.rule_undelegate(ctx), sC23.rule_slots(ctx),
            sC23.rule_deleg(ctx), sC23.rule_excstack(ctx), sC23.rule_term(ctx), sC23.rule_iternext(ctx), sC23.rule_agrun(ctx), sC23.rule_resume(ctx), s4C23.rule_excscope(ctx), s10C23.rule_errresult(ctx)]
