"""C39 — build configurations: the preprocessor structure of the utility code is consistent in every configuration; the #if variants of one
helper agree on reference ownership, object family and integer sign predicates; the string-table branches pass the lengths of their own arrays.

Pure reading of Cython/Utility/*.c|h|cpp and the compiler sources; no compiler or preprocessor is run.
"""
import ast, collections, os, re

from ..core import Rule, AnalysisError
from ..rules import pC39, tabs, num, sC39, s4C39
from ..engine import cutil

ID = 'C39'
TECHNIQUE = ('must-analysis of #define/#undef over the #if tree of the platform blocks; defined()-guard aware scan of every #if/#elif for macros '
             'whose value is read; satisfiability/implication of #if conditions (enumeration over small domains, `defined(X)` tied to X) for every '
             'prototype/definition pair of a utility section; table agreement for the string-compression switch; known-bits abstract interpretation of the LZSS '
             'writer/reader pair (shared with C12); symbolic execution (linear length forms + path constraints) of the C-API variant of a unicode builder against the '
             'length its PyUnicode_New variant allocates; abstract evaluation of the #if variants of one helper macro (reference ownership lattice new/borrowed/null, object family of '
             'the C-API applied to the first argument; small path-sensitive walk for C function variants); complete decision table of the __Pyx_PyLong_* sign/size macros over '
             'sign x digit count for both integer layouts; reconstruction of the emitted __Pyx_Decompress* calls (f-string / %-format / .format) with name resolution through locals, '
             'loop targets, list rows and call sites; result-type classification of every return of the expanded PyLongBinop / PyFloatBinop / PyLongCompare fast paths against the '
             'type the running interpreter\'s operator yields for the guarded operand kinds (instantiations enumerated by path-forking interpretation of optimise_numeric_binop)')
DECIDES = ('(M3a) in ModuleSetupCode.c the branches of the platform selection (#if CYTHON_LIMITED_API / GraalPy / PyPy / CPython) leave the same set of CYTHON_* '
           'feature macros certainly defined on every preprocessor path; (M3b) every CYTHON_* macro whose *value* is read by an #if/#elif in Cython/Utility '
           '(not protected by a defined() guard) is #defined somewhere in Cython/Utility or emitted as a #define by Cython/Compiler/*.py - an undefined '
           'macro silently evaluates to 0 and selects the wrong branch in every configuration; (M2a) a prototype and a definition of the same C function '
           'in one utility section whose #if conditions can hold together have identical parameter type lists (otherwise that configuration does not compile); '
           '(M2b) where prototype and definition are both conditional, every configuration that activates the prototype activates a definition or a macro of '
           'that name (otherwise the function is declared but missing there); (ALG) Code.compression_algorithms numbers <-> the module chain in '
           '__Pyx_DecompressString <-> the special cases of the generator (shared with C10e/C12). '
           '(LZSS-BITS/LZSS-STRUCT, rules of C12 run here under C39 ids) the default/`CYTHON_COMPRESS_STRINGS=90` string table decodes to the bytes the uncompressed table '
           'holds: for every token form of LZSS.lzss_compress the decoder __pyx_lzss_decompress takes the matching branch and recomputes offset and length (bit fields, '
           'biases, range guards vs field widths). '
           '(LEN, sa/rules/sC39.py) a helper that allocates its result with PyUnicode_New(n) under one setting of the feature macros and composes it from C-API calls under '
           'the other (__Pyx_PyUnicode_BuildFromAscii: CYTHON_USE_UNICODE_INTERNALS / Limited API) returns a string of length n on every path of the composing variant, for '
           'flag parameters in {0, 1} and all lengths with 0 <= clength <= ulength. '
           '(OWN, round 4) every variant of a multi-variant utility helper (function-like macro under #if CYTHON_ASSUME_SAFE_MACROS / CYTHON_AVOID_BORROWED_REFS / Limited API / version tests; C function '
           'variants where one returned local or one `PyObject **` out-parameter can be followed) hands its caller a reference of the same ownership class; no variant mixes classes on its ?: arms '
           'or takes a new reference to a new reference. (FAM) the variants of one helper apply the concrete-type C-API of one object family to the first argument, and it is the family the helper is '
           'named after. (SIGN) with CYTHON_USE_PYLONG_INTERNALS the sign/size macros of the 3.12 tag-word layout and of the ob_size layout return, for every sign x digit count, what their name '
           'promises (IsNeg/IsNonNeg/IsZero/IsNonZero/IsPos/Sign/DigitCount/SignedDigitCount/CompactValue/CompactValueUnsigned; IsCompact one-sided: true only for ints of at most one digit - it merely gates fast paths), other names the same value in both layouts; the fallback '
           '_PyLong_* constants equal cpython/longintrepr.h. (STRTAB) every emitted __Pyx_DecompressString*/LZSS call passes len() of the array written under the C name it passes, and len() of the data '
           'that was compressed into it for the result-size parameter; no preprocessor branch #defines the macro that compiles the helper it calls to `return NULL`. '
           '(KIND, sa/rules/s4C39.py) for every (section, operator, order) that optimise_numeric_binop requests from PyLongBinop / PyFloatBinop / PyLongCompare, every return of the '
           'expanded fast path (compiled only with CYTHON_USE_PYLONG_INTERNALS / outside PyPy) yields an object of the Python type that the generic PyNumber_<Op> / RichCompare path yields for '
           'the operand types guarding that return (int / float / bool); a return not dominated by a type test is right for int and float operands; a direct Py<T>_Type nb_<slot> call uses '
           'the slot PyNumber_<Op> dispatches to.')
NOT_DECIDED = ('behavioural equality of the branches selected by a feature macro beyond the result length of the unicode builder and the result TYPE of the numeric fast paths (KIND; the VALUE they compute is '
               'decided under C02-FAST, not here; PyNumberBinop / py_abs / PyNumberPow2 fast paths are not classified) (the characters written, '
               '__Pyx_PyUnicode_Join whose fallback length depends on the joined values); C versus C++ semantics; optimisation levels; the semantics-neutral directives '
               '(binding, optimize.*, always_allow_keywords, auto_pickle); the text of the emitted `#if (CYTHON_COMPRESS_STRINGS) == n` chain beyond the table '
               '(its #else fallback is emitted from string fragments and is not modelled); M1 of the design (clang -fsyntax-only of assembled translation units '
               'under a macro matrix) is not built: the assembly needs a hand-written prelude and module-state stubs, which would make it a brittle proxy. '
               'Templated sections (Tempita / %-substituted conditions or names) are skipped by M2 and M3b and counted as info. '
               'OWN/FAM: helpers whose variants are statement macros, C functions with loops/goto/#if inside, or whose result is not an object are not classified (counted in the info line); '
               'agreement of the variants on index wrap-around / bounds checking / exception type is not decided (depends on the index values callers pass; __Pyx_PySequence_ITEM differs by design). '
               'SIGN: the delegating variants (PyUnstable_Long_IsCompact / _CompactValue) and the two-argument __Pyx_PyLong_CompareSignAndSize (C function in one layout) are not evaluated. '
               'STRTAB: that a missing `#define ..._UNUSED` leaves an unused helper in the module is not a behavioural defect and is not reported; the `algo` argument is covered by ALG only.')
ASSUMPTIONS = ['an identifier that is not #defined evaluates to 0 in #if (C11 6.10.1p4)',
               'every section of a utility file is emitted as a unit, so its #if groups are balanced within the section',
               'C39-LEN: C-API result lengths from the CPython documentation (FromOrdinal 1, Repeat len*n, DecodeASCII n, Concat sum); allocation failures are not explored; '
               'the contract of the builder is 0 <= clength <= ulength (implied by the in-bounds writes of the PyUnicode_New variant) and 0/1 flags - the stronger guarantee '
               'of today\'s callers (ulength >= clength + 2 when prepend_sign is set) is not used',
               'C39-OWN: a C-API function declared in the installed headers as returning `PyObject *` returns a new reference unless it is in the frozen table of "Return value: Borrowed reference" '
               'entries of the C-API reference (sC39.BORROWED_API); private (_Py*), PyUnstable_* and foreign functions are never guessed; a bare macro parameter is the caller\'s own (borrowed) reference',
               'C39-FAM: Py<Family>_* functions with a type object Py<Family>_Type in the installed headers require an object of that family as first argument, except *_Check/*_CheckExact, '
               'constructors/conversions (From*/New*) and functions whose first parameter is not an object; FrozenSet/AnySet=Set, AnyDict/FrozenDict/ODict=Dict, Bool=Long',
               'C39-SIGN: 3.12 tag word = (ndigits << _PyLong_NON_SIZE_BITS) | {positive 0, zero 1, negative 2}; before 3.12 ob_size = sign * ndigits; zero has no digits (its digit[0] is 0 in the '
               'tag layout, undefined in the ob_size layout); casts to signed types are value preserving on the small values of the domain',
               'C39-KIND: the object parameter of a fast-path entry that is not type-tested is the constant operand whose C value arrives as `long intval` / `double floatval` (int / float; '
               'decided by C02-ORDER); Py<T>_From* / Py<T>_New return a <T>; number slot -> special method as in CPython typeobject.c slotdefs (frozen in sa/rules/s4C39.py)',
               'C39-STRTAB: a name assigned inside a loop and read outside of it holds the value of the last iteration; the writer of a C array is the call that receives the C variable name as a string '
               'constant next to the data']

MSC = 'Cython/Utility/ModuleSetupCode.c'
UTIL = 'Cython/Utility'
QUAL = re.compile(r'\bCYTHON_\w*UNUSED\w*\b|\bregister\b')

MUTATIONS = [
    # (file, single edit tried on a scratch copy, rule that reported it) - all 15 were reported, each naming the edited construct
    (MSC, "delete `#undef CYTHON_USE_AM_SEND / #define CYTHON_USE_AM_SEND 0` from the PyPy block", 'C39-M3a'),
    (MSC, "GraalPy block: wrap `#define CYTHON_FAST_GIL 0` in `#if PY_VERSION_HEX < 0x030C0000`", 'C39-M3a'),
    (MSC, "CPython block: `#elif !defined(CYTHON_USE_DICT_VERSIONS)` -> `#elif !defined(CYTHON_USE_DICT_VERSION)`", 'C39-M3a'),
    (MSC, "add `#define CYTHON_NEW_FEATURE 1` to the CPython block only", 'C39-M3a'),
    (MSC, "Limited-API block: delete `#define CYTHON_FAST_THREAD_STATE 0` but keep its #undef", 'C39-M3a'),
    ('Cython/Utility/Optimize.c', "ListAppend definition guard: CYTHON_USE_PYLIST_INTERNALS -> CYTHON_USE_PYLIST_INTERNAL (typo)", 'C39-M3b'),
    ('Cython/Utility/Exceptions.c', "`#if CYTHON_FAST_THREAD_STATE` -> `#if CYTHON_FAST_THREADSTATE` around __Pyx_ErrRestoreInState", 'C39-M3b'),
    ('Cython/Compiler/ModuleNode.py', "rename the emitted `#define CYTHON_CLINE_IN_TRACEBACK_RUNTIME` to CYTHON_CLINE_IN_TB_RUNTIME", 'C39-M3b'),
    (MSC, "delete `#ifndef CYTHON_REFNANNY / #define CYTHON_REFNANNY 0 / #endif`", 'C39-M3b'),
    ('Cython/Utility/ObjectHandling.c', "OwnedDictNext: `PyObject **ppos` -> `Py_ssize_t *ppos` in the CYTHON_AVOID_BORROWED_REFS prototype only", 'C39-M2a'),
    ('Cython/Utility/StringTools.c', "add a parameter to the __Pyx_DecompressString prototype only", 'C39-M2a'),
    ('Cython/Utility/Builtins.c', "__Pyx_HasAttr definition: `PyObject *n` -> `const char *n`", 'C39-M2a'),
    ('Cython/Utility/ObjectHandling.c', "PyObjectFastCallMethod definition: `#if !CYTHON_VECTORCALL` -> `#if !CYTHON_VECTORCALL && CYTHON_COMPILING_IN_CPYTHON`", 'C39-M2b'),
    ('Cython/Utility/Builtins.c', "__Pyx_HasAttr definition guard: `< 0x030d0000` -> `< 0x030c0000` (prototype keeps the complement of `>= 0x030d0000`)", 'C39-M2b'),
    ('Cython/Compiler/Code.py', "renumber (2, 'bz2') to (4, 'bz2') in compression_algorithms", 'C39-ALG'),
]
MUTATIONS += [   # strengthening round (seeds C39a / C39b): all reported with exit 1
    ('Cython/LZSS.py', "seed C39a: 2-byte form guard `offset < (1 << 9)` -> `<=`", 'C39-LZSS-BITS LZSS:backref/2-byte:end-offset'),
    ('Cython/LZSS.py', "`((offset & 0x180) >> 2)` -> `>> 1`", 'C39-LZSS-BITS LZSS:backref/2-byte:end-offset, :consumed'),
    ('Cython/LZSS.py', "3-byte form guard `offset < (1 << 14)` -> `<=`", 'C39-LZSS-BITS LZSS:backref/3-byte:end-offset'),
    ('Cython/LZSS.py', "bias `offset -= 0x80` -> `0x7F`", 'C39-LZSS-BITS LZSS:backref/*:end-offset'),
    ('Cython/Utility/StringTools.c', "seed C39b: fallback `PySequence_Repeat(padding, uoffset - prepend_sign)` -> `uoffset`", 'C39-LEN StringTools.c:__Pyx_PyUnicode_BuildFromAscii'),
    ('Cython/Utility/StringTools.c', "fallback: `if (uoffset > prepend_sign) {` -> `prepend_sign + 1`", 'C39-LEN StringTools.c:__Pyx_PyUnicode_BuildFromAscii'),
    ('Cython/Utility/StringTools.c', "fallback: sign concatenated only `if (likely(uval) && sign && padding)`", 'C39-LEN StringTools.c:__Pyx_PyUnicode_BuildFromAscii'),
    ('Cython/Utility/StringTools.c', "fallback: `PyUnicode_DecodeASCII(chars, clength - 1, NULL)`", 'C39-LEN StringTools.c:__Pyx_PyUnicode_BuildFromAscii'),
    ('Cython/Utility/StringTools.c', "internals variant: `PyUnicode_New(ulength + 1, 127)`", 'C39-LEN StringTools.c:__Pyx_PyUnicode_BuildFromAscii'),
]
MUTATIONS += [   # strengthening round 4 (patches under mutants/C39/, replayed by the thorough tier): all reported with exit 1
    (MSC, "__Pyx_PyList_GetItemRef (!SAFE_MACROS variant): drop __Pyx_XNewRef()", 'C39-OWN own:__Pyx_PyList_GetItemRef'),
    (MSC, "__Pyx_PyList_GET_ITEM_REF (SAFE_MACROS variant): drop __Pyx_NewRef()", 'C39-OWN own:__Pyx_PyList_GET_ITEM_REF'),
    (MSC, "__Pyx_PyTuple_GET_ITEM (!SAFE_MACROS variant): PyTuple_GetItem -> PySequence_GetItem", 'C39-OWN own:__Pyx_PyTuple_GET_ITEM'),
    (MSC, "__Pyx_PyDict_GetItemRef (PyDict_GetItemWithError variant): delete Py_INCREF(*result) / move it into the NULL branch", 'C39-OWN own:__Pyx_PyDict_GetItemRef:*result'),
    ('Cython/Utility/FunctionArguments.c', "__Pyx_ArgRef_VARARGS (else variant): drop __Pyx_XNewRef()", 'C39-OWN own:__Pyx_ArgRef_VARARGS'),
    ('Cython/Utility/Exceptions.c', "__Pyx_PyProbablyModule_GetDict macro variant: drop __Pyx_XNewRef() (the C function variant returns a new reference)", 'C39-OWN own:__Pyx_PyProbablyModule_GetDict'),
    (MSC, "__Pyx_PySequence_ListKeepNew (3.14 variant): `__Pyx_NewRef(obj)` -> `(obj)`", 'C39-OWN own:__Pyx_PySequence_ListKeepNew'),
    (MSC, "__Pyx_PySequence_ITEM (!SAFE_MACROS variant): __Pyx_NewRef(PySequence_GetItem(o, i))", 'C39-OWN own:__Pyx_PySequence_ITEM'),
    (MSC, "__Pyx_PySet_GET_SIZE (!SAFE_SIZE): PySet_Size -> PyDict_Size", 'C39-FAM fam:__Pyx_PySet_GET_SIZE'),
    (MSC, "__Pyx_PyBytes_GET_SIZE (SAFE_SIZE): PyBytes_GET_SIZE -> PyByteArray_GET_SIZE", 'C39-FAM fam:__Pyx_PyBytes_GET_SIZE'),
    (MSC, "__Pyx_PyTuple_GET_SIZE (!SAFE_SIZE): PyTuple_Size -> PyList_Size; __Pyx_PyList_SET_ITEM (SAFE_MACROS): PyTuple_SET_ITEM", 'C39-FAM'),
    ('Cython/Utility/TypeConversion.c', "__Pyx_PyByteArray_AsString (!SAFE_MACROS): PyBytes_AsString", 'C39-FAM fam:__Pyx_PyByteArray_AsString'),
    ('Cython/Utility/TypeConversion.c', "tag layout: IsNeg `& 1`; Sign `SignBits - 1`; IsZero `& 2`; DigitCount `>> 2`; fallback _PyLong_SIGN_MASK 1", 'C39-SIGN sign:__Pyx_PyLong_<name> / sign:const:'),
    ('Cython/Utility/TypeConversion.c', "ob_size layout: IsPos `>= 0`; CompactValue negates for `> 0`; IsCompact accepting two digits; SignedDigitCount abs()", 'C39-SIGN sign:__Pyx_PyLong_<name>'),
    ('Cython/Compiler/Code.py', "generate_pystring_constants: len(concat_bytes) as length of the compressed array; LZSS lengths swapped; len(bytes_values) as result size; stale `compressed_size`; "
     "concat_bytes written as `cstring`", 'C39-STRTAB strtab:GlobalState.generate_pystring_constants:<helper>:<parameter>'),
    ('Cython/Compiler/Code.py', "generate_pystring_constants: the two `#define ..._UNUSED` lines exchanged / the LZSS branch defines both", 'C39-STRTAB strtab:...:__Pyx_DecompressString_LZSS:enabled'),
]
MUTATIONS += [   # round 6 (seed C39h: `0 / const` returns the int operand with PyLong internals) - patches under mutants/C39/, 8 breaking all reported
    ('Cython/Utility/Optimize.c', "PyLongBinop: zero shortcut enabled for true division (seed; by c_op == '/'); exact-division shortcut returning PyLong_FromLong; "
     "`x * 0` returning the constant before the type test; float helper boxing with PyLong_FromDouble", 'C39-KIND kind:PyLongBinop(<op>,<order>):<function>:int'),
    ('Cython/Utility/Optimize.c', "PyLongBinop: slot_name maps TrueDivide -> floor_divide / Rshift -> lshift", 'C39-KIND kind:... / slot:PyLongBinop(<op>,<order>):__Pyx_Unpacked_$'),
    ('Cython/Utility/Optimize.c', "PyLongCompare: object variant returns PyLong_FromLong(a op b); PyFloatBinop: `x + 0.0` returns the (int) operand", 'C39-KIND kind:PyLongCompare(...)/PyFloatBinop(...)'),
]
PRESERVING = [
    # behaviour-preserving edits, all silent
    (MSC, "`#ifndef CYTHON_USE_TYPE_SPECS` -> `#if !defined(CYTHON_USE_TYPE_SPECS)` in the PyPy block"),
    (MSC, "swap the CYTHON_FAST_THREAD_STATE and CYTHON_FAST_GIL stanzas of the PyPy block"),
    ('Cython/Utility/Builtins.c', "`#if __PYX_LIMITED_VERSION_HEX < 0x030d0000` -> `#if !(__PYX_LIMITED_VERSION_HEX >= 0x030d0000)` around the __Pyx_HasAttr definition"),
    ('Cython/Utility/ObjectHandling.c', "rename the parameters of the __Pyx_PyDict_NextRef prototype, `PyObject* dict` spacing, split over two lines"),
    ('Cython/Utility/ObjectHandling.c', "widen the definition guard: `#if !CYTHON_VECTORCALL || defined(CYTHON_FORCE_FASTCALLMETHOD)`"),
    ('Cython/Utility/ObjectHandling.c', "add `#if defined(CYTHON_DEBUG_CALLS) && CYTHON_DEBUG_CALLS` (value test behind a defined() guard)"),
    # strengthening round: C39-LZSS-* / C39-LEN silent
    ('Cython/LZSS.py', "`if length_bits < (1 << 5) and offset < (1 << 9):` -> `if offset <= 511 and length_bits < 32:`"),
    ('Cython/LZSS.py', "`(offset & 0x7F) | 0x80` -> `0x80 | (offset & 127)`"),
    ('Cython/Utility/StringTools.c', "fallback: repeat also for a count of 1 (`uoffset > prepend_sign + 1` -> `uoffset > prepend_sign`)"),
    ('Cython/Utility/StringTools.c', "fallback: `if (!(uoffset <= prepend_sign))`, cast on padding_char, temp renamed, count written `-(prepend_sign - uoffset)`"),
    # strengthening round 4: C39-OWN / FAM / SIGN / STRTAB silent
    (MSC, "macro bodies wrapped in casts and parentheses; rows of the SAFE_SIZE table reordered; `#if !CYTHON_ASSUME_SAFE_SIZE` with exchanged branches; last two branches of __Pyx_PyList_GET_ITEM_REF under the negated test"),
    (MSC, "__Pyx_PyDict_GetItemRef borrowed-API variant as if/else with `!= NULL` and Py_XINCREF; through a local variable (variant then skipped)"),
    (MSC, "__Pyx_PyDict_GET_SIZE via PyObject_Size; __Pyx_PySet_GET_SIZE as `PyAnySet_Check(o) ? PySet_GET_SIZE(o) : PySet_Size(o)`"),
    ('Cython/Utility/StringTools.c', "`(Py_INCREF(s), s)` -> `__Pyx_NewRef(s)` in __Pyx_PyObject_FormatSimple"),
    ('Cython/Utility/TypeConversion.c', "IsNeg `== 2`, IsZero `== 1`; Sign as `(Py_SIZE(x) > 0) - (Py_SIZE(x) < 0)`; tag word through a new macro __Pyx_PyLong_Tag; IsCompact via DigitCount; the two layouts "
     "exchanged under `#if PY_VERSION_HEX < 0x030C00A7`"),
    ('Cython/Compiler/Code.py', "lengths held in locals; %-format / str.format instead of f-strings; emission moved into a module-level helper function; `compressions` rows carry the size as a fourth element"),
    # round 6: C39-KIND silent
    ('Cython/Utility/Optimize.c', "zero-shortcut condition as `c_op in '*%&>><<' or (c_op == '/' and op != 'TrueDivide')`; shortcut as `Py_INCREF(op1); return op1;`; PyLongCompare through PyBool_FromLong; "
     "true-division result through locals and the slot call through a local binaryfunc"),
]


# ------------------------------------------------------------------------------------------------ M3a
def platform_blocks(text, rel):
    tree = pC39.cond_tree(pC39.cpp_lines(text))
    cands = []
    for it in tree:
        if isinstance(it, pC39.Group) and len(it.branches) >= 3:
            mays = [pC39.may_defined(b[3]) for b in it.branches]
            common = set.intersection(*mays)
            if any(m.startswith('CYTHON_COMPILING_IN_') for m in common):
                cands.append((it, mays))
    if len(cands) != 1:
        raise AnalysisError('%s: expected exactly one platform selection group defining CYTHON_COMPILING_IN_*, found %d' % (rel, len(cands)))
    return cands[0]


def m3a_problems(text, rel):
    g, mays = platform_blocks(text, rel)
    if not any(b[0] == 'else' for b in g.branches):
        raise AnalysisError('%s: the platform selection group has no #else (CPython) branch' % rel)
    union = sorted({m for ms in mays for m in ms if m.startswith('CYTHON_')})
    out = []
    for (k, r, ln, sub), may in zip(g.branches, mays):
        label = ('#%s %s' % (k, r)).strip()
        must = pC39.must_defined(sub, set())
        for m in union:
            out.append((label, m, ln, m in must, m in may))
    return out


# ------------------------------------------------------------------------------------------------ M3b
def py_emitted_defines(ctx):
    out = {}
    d = ctx.path('Cython/Compiler')
    if not os.path.isdir(d):
        raise AnalysisError('Cython/Compiler missing')
    for fn in sorted(os.listdir(d)):
        if fn.endswith('.py'):
            rel = 'Cython/Compiler/' + fn
            for m in re.finditer(r'#\s*define\s+(CYTHON_\w+)', ctx.read(rel)):
                out.setdefault(m.group(1), rel)
    return out


def section_trees(ctx):
    """[(Section, cpp lines, tree)] of all C utility sections."""
    out = []
    for s in ctx.cat.sections:
        if not s.file.endswith(('.c', '.h', '.cpp')):
            continue
        lines = pC39.cpp_lines(s.raw)
        try:
            tree = pC39.cond_tree(lines)
        except AnalysisError as e:
            raise AnalysisError('%s::%s: %s' % (s.file, s.name, e))
        out.append((s, lines, tree))
    if len(out) < 300:
        raise AnalysisError('only %d C utility sections found' % len(out))
    return out


def m3b_scan(sections):
    defines, uses, bad = {}, [], []
    for s, lines, tree in sections:
        for ln, k, r in lines:
            if k == 'define' and r:
                m = re.match(r'([A-Za-z_]\w*)', r)
                if m:
                    defines.setdefault(m.group(1), '%s::%s' % (s.file, s.name))
        o, b = [], []
        pC39.unguarded_value_tests(tree, set(), o, b)
        uses += [(s, m, ln, txt) for m, ln, txt in o if m.startswith('CYTHON_')]
        bad += [(s, ln, txt) for ln, txt in b]
    return defines, uses, bad


# ------------------------------------------------------------------------------------------------ M2
def _norm_type(t):
    t = QUAL.sub(' ', t)
    t = re.sub(r'\$\{?\w+\}?', ' ', t)
    return ' '.join(t.replace('*', ' * ').split())


def _param_candidates(d):
    """Per parameter the set of possible normalised type texts (name stripped / whole text when it may be unnamed)."""
    params = d.params or []
    if len(params) == 1 and params[0].strip() == 'void':
        params = []
    out = []
    for p, t in zip(params, d.param_types()):
        out.append({_norm_type(t), _norm_type(re.sub(r'\[[^\]]*\]\s*$', '*', p))} - {''})
    return out


def params_agree(p, f):
    a, b = _param_candidates(p), _param_candidates(f)
    if len(a) != len(b):
        return False
    return all(x & y for x, y in zip(a, b))


def _templated(d):
    txt = ' '.join([d.name, d.ret or ''] + list(d.params or []))
    return '{{' in txt or '%(' in txt or d.section.is_tempita


def m2_groups(decls_by_section):
    """Yield (file, section name, C name, protos, funcs, macros) for names with a prototype and a definition in one utility section family."""
    for (f, sn), ds in sorted(decls_by_section.items()):
        names = collections.defaultdict(list)
        for d in ds:
            names[d.name].append(d)
        for n, lst in sorted(names.items()):
            ps = [d for d in lst if d.kind == 'proto']
            fs = [d for d in lst if d.kind == 'func']
            ms = [d for d in lst if d.kind == 'macro']
            if ps and fs:
                yield f, sn, n, ps, fs, ms


class M2:
    def __init__(self):
        self._stacks = {}

    def stack_of(self, d):
        s = d.section
        if id(s) not in self._stacks:
            self._stacks[id(s)] = pC39.cond_stacks(s.text if s.text else cutil.strip_c_comments(s.raw))
        st = self._stacks[id(s)]
        li = d.line - s.line
        return st[li] if 0 <= li < len(st) else ()

    def check(self, decls_by_section, ra, rb):
        skipped = 0
        for f, sn, n, ps, fs, ms in m2_groups(decls_by_section):
            if any(_templated(d) for d in ps + fs):
                skipped += 1
                continue
            try:
                ce = {id(d): pC39.stack_expr(self.stack_of(d)) for d in ps + fs + ms}
            except (pC39.CondError, IndexError):
                skipped += 1
                continue
            rel = UTIL + '/' + f
            for P in ps:
                for F in fs:
                    both = pC39.conj([ce[id(P)], ce[id(F)]])
                    s = pC39.Sat([both])
                    if not s.decidable():
                        ra.info('%s::%s %s: conditions too large to enumerate' % (f, sn, n))
                        continue
                    w = s.find(both)
                    if w is None:
                        continue
                    key = '%s::%s:%s' % (f, sn, n)
                    ra.inst(key + ':%d' % len(P.params or ()), sample='%s  proto(%s) / def(%s)' % (key, pC39.stack_text(self.stack_of(P)), pC39.stack_text(self.stack_of(F))))
                    if not params_agree(P, F):
                        ra.violate(key, rel, F.line,
                                   'prototype (line %d, %s) and definition (line %d, %s) of %s are both active when %s, but their parameter lists differ: '
                                   '(%s) vs (%s) - "conflicting types" compile error in that configuration'
                                   % (P.line, pC39.stack_text(self.stack_of(P)), F.line, pC39.stack_text(self.stack_of(F)), n, pC39.show_env(w),
                                      ', '.join(P.params or ()), ', '.join(F.params or ())))
            for P in ps:
                if not self.stack_of(P) or not any(self.stack_of(F) for F in fs):
                    continue
                goal = pC39.conj([ce[id(P)], pC39.neg(pC39.disj([ce[id(x)] for x in fs + ms]))])
                s = pC39.Sat([goal])
                if not s.decidable():
                    rb.info('%s::%s %s: conditions too large to enumerate' % (f, sn, n))
                    continue
                key = '%s::%s:%s' % (f, sn, n)
                rb.inst(key + '@' + pC39.stack_text(self.stack_of(P)), sample='%s  proto under %s' % (key, pC39.stack_text(self.stack_of(P))))
                w = s.find(goal)
                if w is not None:
                    rb.violate(key, rel, P.line,
                               'the prototype of %s (line %d) is active under [%s] but no definition is: definitions/macros are guarded by %s. '
                               'Witness configuration: %s - there the function is declared but never defined (link/compile failure for every caller)'
                               % (n, P.line, pC39.stack_text(self.stack_of(P)), ' | '.join('[%s]' % pC39.stack_text(self.stack_of(x)) for x in fs + ms), pC39.show_env(w)))
        return skipped


def _index_text(text, fname='x.c', sname='S'):
    """Index a synthetic C text with the catalogue's own indexer (for the embedded positive controls)."""
    cat = object.__new__(cutil.Catalogue)
    cat.decls = collections.defaultdict(list)
    sec = cutil.Section(fname, sname, 'impl', 1)
    sec.raw = text
    cat._index_c(sec)
    by = collections.defaultdict(list)
    for ds in cat.decls.values():
        for d in ds:
            by[(d.file, d.section.name)].append(d)
    return by


# ------------------------------------------------------------------------------------------------ run
def run(ctx):
    rules = []

    # ---------------------------------------------------------------- M3a
    r = Rule('C39-M3a', 'the platform blocks of ModuleSetupCode.c (Limited API / GraalPy / PyPy / CPython) leave the same CYTHON_* macros certainly defined', floor=110)
    blocks = set()
    for label, m, ln, must, may in m3a_problems(ctx.read(MSC), MSC):
        blocks.add(label)
        key = 'block[%s]:%s' % (label, m)
        r.inst(key, sample=key)
        if not must:
            r.violate(key, MSC, ln,
                      'platform block `%s` (line %d) %s %s, which the other platform blocks define: utility code testing `#if %s` silently reads 0 '
                      '(or a stale user value) on that platform' % (label, ln, 'defines only on some preprocessor paths' if may else 'never defines', m, m))
    if len(blocks) < 4:
        raise AnalysisError('only %d platform blocks found in %s' % (len(blocks), MSC))
    pc = ("#if defined(A)\n #define CYTHON_COMPILING_IN_X 1\n #undef CYTHON_F\n #define CYTHON_F 0\n #ifndef CYTHON_G\n  #define CYTHON_G 1\n #endif\n"
          "#elif defined(B)\n #define CYTHON_COMPILING_IN_X 0\n #if V < 3\n  #undef CYTHON_F\n  #define CYTHON_F 0\n #elif !defined(CYTHON_F)\n  #define CYTHON_F 1\n #endif\n #define CYTHON_G 0\n"
          "#else\n #define CYTHON_COMPILING_IN_X 0\n #if V < 3\n  #define CYTHON_F 1\n #endif\n #ifdef CYTHON_G\n  #undef CYTHON_G\n #endif\n#endif\n")
    got = {(lab, m) for lab, m, ln, must, may in m3a_problems(pc, 'pc') if not must}
    r.positive_control(got == {('#else', 'CYTHON_F'), ('#else', 'CYTHON_G')}, 'macro defined on one path only / undefined in one block')
    rules.append(r)

    # ---------------------------------------------------------------- M3b
    r = Rule('C39-M3b', 'every CYTHON_* macro whose value an #if/#elif of Cython/Utility reads (outside a defined() guard) is #defined in Cython/Utility or emitted by Cython/Compiler', floor=150)
    sections = section_trees(ctx)
    defines, uses, bad = m3b_scan(sections)
    pydefs = py_emitted_defines(ctx)
    if len(defines) < 200:
        raise AnalysisError('only %d #define names found in Cython/Utility' % len(defines))
    seen = set()
    for s, m, ln, txt in uses:
        key = 'macro:%s@%s' % (m, s.file)
        if key in seen:
            continue
        seen.add(key)
        r.inst(key, sample='%s in %s::%s (%s)' % (m, s.file, s.name, txt[:60]))
        if m not in defines and m not in pydefs:
            r.violate(key, UTIL + '/' + s.file, s.line + ln - 1,
                      '`%s` in %s::%s reads the value of %s, but no #define of %s exists in Cython/Utility and Cython/Compiler emits none: the test is always 0 '
                      '(misspelled feature macro?) so this branch is selected wrongly in every build configuration' % (txt, s.file, s.name, m, m))
    if bad:
        r.info('%d templated #if conditions skipped (e.g. %s::%s `%s`)' % (len(bad), bad[0][0].file, bad[0][0].name, bad[0][2][:50]))
    o = []
    pC39.unguarded_value_tests(pC39.cond_tree(pC39.cpp_lines(
        "#if defined(CYTHON_DBG) && CYTHON_DBG\n#endif\n#ifdef CYTHON_Q\n #if CYTHON_Q > 1 || CYTHON_TYPO\n #endif\n#endif\n#if !defined(CYTHON_Z) || CYTHON_Z\n#endif\n")), set(), o, [])
    r.positive_control([m for m, _, _ in o] == ['CYTHON_TYPO'], 'value test of an undefined macro next to guarded ones')
    rules.append(r)

    # ---------------------------------------------------------------- M2
    ra = Rule('C39-M2a', 'prototype and definition of a C helper in one utility section that can be active together have identical parameter type lists', floor=330)
    rb = Rule('C39-M2b', 'where prototype and definition are both under #if, every configuration activating the prototype activates a definition (or macro) of that name', floor=60)
    by = collections.defaultdict(list)
    for name, ds in ctx.cat.decls.items():
        for d in ds:
            by[(d.file, d.section.name)].append(d)
    skipped = M2().check(by, ra, rb)
    ra.info('%d templated prototype/definition groups skipped' % skipped)
    ta, tb = Rule('pc-a', ''), Rule('pc-b', '')
    M2().check(_index_text(
        "#if CYTHON_A\nstatic int __Pyx_f(PyObject *o, PyObject **pos);\n#else\nstatic int __Pyx_f(PyObject *o, Py_ssize_t *pos);\n#endif\n"
        "#if CYTHON_B && CYTHON_C\nstatic int __Pyx_g(int x);\n#endif\n"
        "#if PY_VERSION_HEX >= 0x030d0000\n#define __Pyx_h(o) PyThing(o)\n#else\nstatic int __Pyx_h(PyObject *);\n#endif\n"
        "#if CYTHON_A\nstatic int __Pyx_f(PyObject *o, Py_ssize_t *pos) { return 0; }\n#endif\n#if !CYTHON_A\nstatic int __Pyx_f(PyObject *obj, Py_ssize_t* p) { return 1; }\n#endif\n"
        "#if CYTHON_B && CYTHON_C && CYTHON_D\nstatic int __Pyx_g(int x) { return x; }\n#endif\n"
        "#if PY_VERSION_HEX < 0x030d0000\nstatic int __Pyx_h(PyObject *o) { return 0; }\n#endif\n"), ta, tb)
    ra.positive_control([f.construct for f in ta.findings] == ['x.c::S:__Pyx_f'] and ta.instances == 4, 'parameter list differs in the CYTHON_A configuration only')
    rb.positive_control([f.construct for f in tb.findings] == ['x.c::S:__Pyx_g'] and tb.instances == 4, 'definition guarded more narrowly than its prototype')
    rules += [ra, rb]

    # ---------------------------------------------------------------- ALG (C10e)
    r = tabs.rule_compression_algorithms(ctx)
    r.id = 'C39-ALG'
    for f in r.findings:
        f.rule = 'C39-ALG'
    rules.append(r)

    # ---------------------------------------------------------------- LZSS writer/reader agreement (shared with C12): CYTHON_COMPRESS_STRINGS=90 vs 0
    from ..rules import sC12     # the copy of num.lzss_rules with two false alarms on behaviour-preserving rewrites repaired
    for r in sC12.lzss_rules(ctx):
        r.id = r.id.replace('C12-', 'C39-LZSS-')
        for f in r.findings:
            f.rule = r.id
        rules.append(r)

    # ---------------------------------------------------------------- LEN: feature-macro variants of a unicode builder agree on the result length
    rules.append(sC39.rule_len(ctx))

    # ---------------------------------------------------------------- strengthening round 4: #if variants of one helper agree (ownership, object family)
    rules.append(sC39.rule_own(ctx))
    rules.append(sC39.rule_fam(ctx))
    rules.append(sC39.rule_sign(ctx))
    rules.append(sC39.rule_strtab(ctx))
    # ---------------------------------------------------------------- round 6: fast paths under a feature switch return the object type of the generic path
    rules.append(s4C39.rule_kind(ctx))
    return rules
