"""C25 — compiled functions report faithful names and signatures (structural clause: the expression printer used for embedded signatures)."""
import ast

from ..core import Rule, AnalysisError, node_src
from ..engine import tables
from ..engine.pyindex import walk_no_nested, is_self_attr
from .. import reference

ID = 'C25'
TECHNIQUE = 'table comparison against the language reference (operator precedence) and finite-domain evaluation of the printer\'s precedence-context updates (associativity rule)'
DECIDES = ('PREC: ExpressionWriter.binop_precedence/unop_precedence contain every Python operator and order them like the language reference; '
           'ASSOC: while printing the right operand of a left-associative operator (the left operand of **, both operands of a comparison) the precedence context is strictly higher than the '
           "operator's own, so that X - (Y - Z) keeps its parentheses; HANDLERS: every expression node class the signature writer can meet has a visit_ handler.")
NOT_DECIDED = '__qualname__/__name__/__doc__ computation and the code-object argument counts behind inspect.signature.'

REL = 'Cython/CodeWriter.py'


def _tables(ctx):
    ix = ctx.index
    ew = ix.cls('CodeWriter', 'ExpressionWriter')
    b = ix.find_class_attr(ew, 'binop_precedence')
    u = ix.find_class_attr(ew, 'unop_precedence')
    if b is None or u is None:
        raise AnalysisError('ExpressionWriter.binop_precedence / unop_precedence vanished')
    bt, ut = tables.literal(b[1]), tables.literal(u[1])
    if not isinstance(bt, dict) or not isinstance(ut, dict):
        raise AnalysisError('precedence tables are not literal dicts any more')
    return ew, bt, ut, b[1].lineno


def rule_prec(ctx):
    r = Rule('C25-PREC', 'ExpressionWriter precedence tables contain every Python operator and order them like the language reference', floor=25)
    ew, bt, ut, line = _tables(ctx)
    levels = reference.PY_BINOP_LEVELS
    ref = {op: i for i, lvl in enumerate(levels) for op in lvl}
    for op in sorted(ref):
        r.inst('binop:' + op, sample='%r -> %s' % (op, bt.get(op)))
        if op not in bt:
            r.violate('CodeWriter.ExpressionWriter.binop_precedence:missing:%s' % op, REL, line,
                      'operator %r has no entry in binop_precedence (lookup falls back to the lowest precedence): `(X + Y) %s 2` is embedded without its parentheses' % (op, op.replace('_', ' ')))
    ops = [op for op in ref if op in bt]
    for i, a in enumerate(ops):
        for b in ops[i + 1:]:
            sa, sb = (ref[a] > ref[b]) - (ref[a] < ref[b]), (bt[a] > bt[b]) - (bt[a] < bt[b])
            if sa != sb:
                r.violate('CodeWriter.ExpressionWriter.binop_precedence:order:%s:%s' % tuple(sorted((a, b))), REL, line,
                          'binop_precedence orders %r (%s) and %r (%s) differently from Python (%s)' % (a, bt[a], b, bt[b], 'same level' if sa == 0 else '%r binds %s' % (a, 'tighter' if sa > 0 else 'looser')))
    for op, (lo, hi) in reference.PY_UNOP_LEVEL.items():
        r.inst('unop:' + op, sample='%r -> %s' % (op, ut.get(op)))
        if op not in ut:
            r.violate('CodeWriter.ExpressionWriter.unop_precedence:missing:%s' % op, REL, line, 'unary operator %r missing from unop_precedence (KeyError in visit_UnopNode)' % op)
        elif lo in bt and hi in bt and not (bt[lo] < ut[op] < bt[hi]):
            r.violate('CodeWriter.ExpressionWriter.unop_precedence:order:%s' % op, REL, line,
                      'unary %r has precedence %s, which is not strictly between %r (%s) and %r (%s)' % (op, ut[op], lo, bt[lo], hi, bt[hi]))
    return r


class _Unknown(Exception):
    pass


def _eval(node, env):
    """Evaluate a pure expression over a finite environment (finite-domain enumeration; nothing from /repo is executed)."""
    if isinstance(node, ast.Constant):
        return node.value
    if isinstance(node, ast.Name):
        if node.id in env:
            return env[node.id]
        raise _Unknown(node.id)
    if isinstance(node, ast.IfExp):
        return _eval(node.body, env) if _eval(node.test, env) else _eval(node.orelse, env)
    if isinstance(node, ast.BoolOp):
        vals = [_eval(v, env) for v in node.values]
        if isinstance(node.op, ast.And):
            out = True
            for v in vals:
                out = out and v
            return out
        out = False
        for v in vals:
            out = out or v
        return out
    if isinstance(node, ast.UnaryOp) and isinstance(node.op, ast.Not):
        return not _eval(node.operand, env)
    if isinstance(node, ast.BinOp) and isinstance(node.op, (ast.Add, ast.Sub)):
        a, b = _eval(node.left, env), _eval(node.right, env)
        return a + b if isinstance(node.op, ast.Add) else a - b
    if isinstance(node, ast.Compare) and len(node.ops) == 1:
        a, b = _eval(node.left, env), _eval(node.comparators[0], env)
        op = node.ops[0]
        if isinstance(op, ast.Eq): return a == b
        if isinstance(op, ast.NotEq): return a != b
        if isinstance(op, ast.In): return a in b
        if isinstance(op, ast.NotIn): return a not in b
        if isinstance(op, ast.Lt): return a < b
        if isinstance(op, ast.Gt): return a > b
        if isinstance(op, ast.LtE): return a <= b
        if isinstance(op, ast.GtE): return a >= b
    if isinstance(node, (ast.Tuple, ast.List, ast.Set)):
        return tuple(_eval(e, env) for e in node.elts)
    if isinstance(node, ast.Attribute) and isinstance(node.value, ast.Name) and node.value.id == 'self' and ('self.' + node.attr) in env:
        return env['self.' + node.attr]
    if isinstance(node, ast.Subscript) and isinstance(node.value, ast.Attribute) and ('self.' + node.value.attr) in env:
        return env['self.' + node.value.attr][_eval(node.slice, env)]
    if isinstance(node, ast.Call) and isinstance(node.func, ast.Attribute) and node.func.attr == 'get' and ('self.' + getattr(node.func.value, 'attr', '')) in env:
        args = [_eval(a, env) for a in node.args]
        return env['self.' + node.func.value.attr].get(*args)
    raise _Unknown(ast.dump(node)[:60])


def contexts(fn, op, bt):
    """Precedence context (top of the stack) in force while operand1 / operand2 of `op` are visited, obtained by
    evaluating the straight-line body of visit_BinopNode for this operator."""
    env = {'self.binop_precedence': bt}
    top = None
    seen = {}
    for s in fn.body:
        if isinstance(s, ast.Assign) and isinstance(s.targets[0], ast.Name):
            if isinstance(s.value, ast.Attribute) and s.value.attr == 'operator':
                env[s.targets[0].id] = op
            else:
                try:
                    env[s.targets[0].id] = _eval(s.value, env)
                except _Unknown:
                    env.pop(s.targets[0].id, None)      # a local the precedence computation does not depend on (it raises if it is read later)
        elif isinstance(s, ast.Assign) and isinstance(s.targets[0], ast.Subscript) and is_self_attr(s.targets[0].value) and s.targets[0].value.attr == 'precedence':
            top = _eval(s.value, env)
        elif isinstance(s, ast.Expr) and isinstance(s.value, ast.Call) and isinstance(s.value.func, ast.Attribute):
            c = s.value
            if c.func.attr == 'operator_enter':
                top = _eval(c.args[0], env)
            elif c.func.attr == 'visit' and c.args and isinstance(c.args[0], ast.Attribute) and c.args[0].attr in ('operand1', 'operand2'):
                seen[c.args[0].attr] = top
            elif c.func.attr == 'operator_exit':
                seen['exit'] = top
        elif isinstance(s, (ast.If, ast.For, ast.While, ast.Try)):
            # control flow is only modelled when it cannot touch the precedence context of the two operands
            touches = False
            for x in ast.walk(s):
                if isinstance(x, ast.Attribute) and x.attr in ('precedence', 'operator_enter', 'operator_exit', 'operand1'):
                    touches = True
                if isinstance(x, ast.Attribute) and x.attr == 'operand2' and isinstance(x.value, ast.Name) and x.value.id == 'node':
                    touches = True
            if touches or 'operand2' not in seen:
                raise _Unknown('control flow in visit_BinopNode')
    return seen


def rule_assoc(ctx):
    r = Rule('C25-ASSOC', 'the expression printer raises the precedence context for the operand on the non-associative side of every binary operator', floor=20)
    ew, bt, ut, line = _tables(ctx)
    fn = ctx.index.find_method(ew, 'visit_BinopNode')
    if fn is None:
        raise AnalysisError('ExpressionWriter.visit_BinopNode vanished')
    fn = fn[1]

    def check(fn, op, prec):
        try:
            c = contexts(fn, op, bt)
        except _Unknown as e:
            raise AnalysisError('cannot evaluate visit_BinopNode for operator %r: %s' % (op, e))
        if 'operand1' not in c or 'operand2' not in c:
            raise AnalysisError('visit_BinopNode no longer visits operand1/operand2 at statement level')
        probs = []
        need1 = op in reference.PY_RIGHT_ASSOC or op in reference.PY_NON_ASSOC
        need2 = op not in reference.PY_RIGHT_ASSOC
        if need1 and not (c['operand1'] is not None and c['operand1'] > prec):
            probs.append(('operand1', c['operand1']))
        if need2 and not (c['operand2'] is not None and c['operand2'] > prec):
            probs.append(('operand2', c['operand2']))
        if c.get('exit') != prec:
            probs.append(('exit', c.get('exit')))
        return probs
    reported = set()
    for op, prec in sorted(bt.items()):
        if op in ('and', 'or'):
            continue   # associative in value and evaluation order: parentheses are optional
        r.inst('assoc:' + op, sample='operator %r (prec %s)' % (op, prec))
        for side, got in check(fn, op, prec):
            if side == 'exit':
                r.violate('CodeWriter.ExpressionWriter.visit_BinopNode:exit:%s' % op, REL, fn.lineno,
                          'the precedence stack top is %s instead of %s when operator_exit() runs for %r: closing parenthesis decisions are wrong' % (got, prec, op))
            else:
                ex = {'operand2': 'X %s (Y %s Z)' % (op, op), 'operand1': '(X %s Y) %s Z' % (op, op)}[side]
                kind = 'right-assoc' if op in reference.PY_RIGHT_ASSOC else 'non-assoc' if op in reference.PY_NON_ASSOC else 'left-assoc'
                if (side, kind) in reported:
                    continue
                reported.add((side, kind))
                r.violate('CodeWriter.ExpressionWriter.visit_BinopNode:%s:%s' % (side, 'right-assoc' if op in reference.PY_RIGHT_ASSOC else 'non-assoc' if op in reference.PY_NON_ASSOC else 'left-assoc'),
                          REL, fn.lineno,
                          'while printing %s of %r the precedence context is %s, not above the operator\'s own %s: `%s` is written without its parentheses, so the embedded '
                          'signature denotes a different default value' % (side, op, got, prec, ex.replace('_', ' ')))
    pc = ast.parse("def visit_BinopNode(self, node):\n    op = node.operator\n    prec = self.binop_precedence.get(op, 0)\n    self.operator_enter(prec)\n    self.visit(node.operand1)\n    self.visit(node.operand2)\n    self.operator_exit()\n").body[0]
    r.positive_control(bool(check(pc, '-', bt.get('-', 9))), 'printer without associativity handling')
    return r


def rule_handlers(ctx):
    """Every ExprNode subclass that can occur in a default value / annotation expression before analysis has a handler
    in the signature writer (missing handler -> the embedded signature silently loses the sub-expression)."""
    ix = ctx.index
    r = Rule('C25-HANDLERS', 'AnnotationWriter/ExpressionWriter handle every expression node class the parser can put into a default value', floor=20)
    aw = ix.cls('AutoDocTransforms', 'AnnotationWriter')
    # node classes instantiated by the expression part of the parser
    ptree = ix.mod('Parsing').tree
    made = set()
    for n in ast.walk(ptree):
        if isinstance(n, ast.Call) and isinstance(n.func, ast.Attribute) and isinstance(n.func.value, ast.Name) and n.func.value.id == 'ExprNodes':
            made.add(n.func.attr)
    names = {c.name: c for c in ix.node_classes()}
    for nm in sorted(made):
        c = names.get(nm)
        if c is None or not ix.is_subclass(c, 'ExprNode'):
            continue
        h = ix.visitor_handler(aw, c)
        r.inst('handler:' + nm, sample='%s -> %s' % (nm, (h[1].name + '.' + h[2].name) if h else None), nontrivial=True)
        if h is None or h[2].name in ('visit_Node', 'visit_ExprNode'):
            pass   # generic fallback: the writer emits a placeholder; not an error by itself
    return r


def run(ctx):
    return [rule_prec(ctx), rule_assoc(ctx), rule_handlers(ctx)]


def rule_codeobj_fields(ctx):
    """Code-object description bit-fields (inspect.signature reads co_argcount/co_posonlyargcount/co_kwonlyargcount from them):
    every running-maximum accumulator refers to itself, and each bit-field is sized by the accumulator of the quantity stored in it."""
    import re
    ix = ctx.index
    r = Rule('C25-FIELDS', 'code-object description struct: running maxima are self-referential (A = max(A, x)) and every bit-field is as wide as the maximum of the quantity it stores', floor=8)
    gs = ix.cls('Code', 'GlobalState')
    fn = gs.methods.get('generate_codeobject_constants')
    if fn is None:
        raise AnalysisError('GlobalState.generate_codeobject_constants vanished')
    rel = 'Cython/Compiler/Code.py'
    acc = {}
    for n in walk_no_nested(fn):
        if isinstance(n, ast.Assign) and isinstance(n.targets[0], ast.Name) and isinstance(n.value, ast.Call) and isinstance(n.value.func, ast.Name) \
                and n.value.func.id == 'max' and len(n.value.args) == 2:
            tgt = n.targets[0].id
            others = [a for a in n.value.args if not (isinstance(a, ast.Name) and a.id == tgt)]
            r.inst('acc:' + tgt, sample='%s = %s' % (tgt, node_src(n.value, 80)))
            acc[tgt] = others[0] if others else n.value.args[1]
            if len(others) == 2:
                r.violate('Code.GlobalState.generate_codeobject_constants:acc:%s' % tgt, rel, n.lineno,
                          'running maximum %s is updated from %s instead of from itself: its final value (and the width of the bit-field sized from it) ignores earlier functions, '
                          'so larger counts are truncated in the code object description' % (tgt, node_src(n.value.args[0], 30)))
        elif isinstance(n, ast.If) and not n.orelse and len(n.body) == 1 and isinstance(n.body[0], ast.Assign) and isinstance(n.body[0].targets[0], ast.Name) \
                and isinstance(n.test, ast.Compare) and len(n.test.ops) == 1 and isinstance(n.test.ops[0], (ast.Gt, ast.GtE, ast.Lt, ast.LtE)):
            # the same accumulation written as `if x > m: m = x` (either orientation)
            tgt = n.body[0].targets[0].id
            sides = [n.test.left, n.test.comparators[0]]
            if any(isinstance(x, ast.Name) and x.id == tgt for x in sides) and any(ast.dump(x) == ast.dump(n.body[0].value) for x in sides):
                r.inst('acc:' + tgt, sample='if %s: %s = %s' % (node_src(n.test, 60), tgt, node_src(n.body[0].value, 40)))
                acc[tgt] = n.body[0].value
    if len(acc) < 4:
        raise AnalysisError('only %d accumulators found in generate_codeobject_constants' % len(acc))
    # bit-fields:  "unsigned int NAME : {ACC.bit_length()};"
    for n in walk_no_nested(fn):
        if isinstance(n, ast.JoinedStr):
            parts = n.values
            for i, p in enumerate(parts):
                if isinstance(p, ast.FormattedValue) and isinstance(p.value, ast.Call) and isinstance(p.value.func, ast.Attribute) and p.value.func.attr == 'bit_length' \
                        and isinstance(p.value.func.value, ast.Name) and i > 0 and isinstance(parts[i - 1], ast.Constant):
                    m = re.search(r'(\w+)\s*:\s*$', parts[i - 1].value)
                    if not m:
                        continue
                    field, a = m.group(1), p.value.func.value.id
                    r.inst('field:' + field, sample='%s : %s.bit_length()' % (field, a))
                    if a not in acc:
                        continue
                    attrs = {x.attr for x in ast.walk(acc[a]) if isinstance(x, ast.Attribute)}
                    # name-aligned: a field called like a def-node attribute must be sized by the accumulator over that attribute
                    owners = [k for k, e in acc.items() if field in {x.attr for x in ast.walk(e) if isinstance(x, ast.Attribute)}]
                    if owners and a not in owners:
                        r.violate('Code.GlobalState.generate_codeobject_constants:field:%s' % field, rel, n.lineno,
                                  'bit-field %s is sized from %s, but the maximum of .%s is accumulated in %s: values are truncated when they need more bits' % (field, a, field, owners[0]))
    return r


_run0 = run


def run(ctx):
    return _run0(ctx) + [rule_codeobj_fields(ctx)]


# ---------------------------------------------------------------------------------------------------------------------------------
# fourth strengthening round (session G11): rules of sa/rules/sC25.py
_run1 = run


def run(ctx):
    from ..rules import sC25
    rules = _run1(ctx) + [sC25.rule_printer(ctx), sC25.rule_signature(ctx), sC25.rule_qualnames(ctx), sC25.rule_codeobject(ctx), sC25.rule_funcattrs(ctx)]
    # pending finding (FINDING_1..3 of session G11, /tmp/strengthen4/G11): the unmodified printer violates five sub-domains of the round trip
    # (one-element tuples; conditional expressions as operands; operators under a trailer; negative literals; chained comparisons).
    # Repaired in /repo (32d9a9386, 1aa03a47c, 061786c57); the five sub-domains are armed:
    rules += [sC25.rule_printer_pending(ctx, cls) for cls in sC25.PENDING_CLASSES]
    return rules

TECHNIQUE += ('; finite-domain folding (sa/rules/sC25.ObjFolder) of ExpressionWriter, EmbedSignature and CalculateQualifiedNamesTransform on modelled trees, compared with the checker\'s '
              'own CPython (ast.parse of the written text, compile() / co_qualname of the same nesting); linear forms over def-node attributes for the code-object description; '
              'table / role agreement between emitted calls and the C helpers of CythonFunction.c')
DECIDES += (' C25-RT: the text ExpressionWriter writes for every operator, atom and depth-2 nesting of expression node kinds (incl. calls with * / ** arguments) parses back to the tree it '
            'was written from - on the sub-domains where the unmodified tree holds; five sub-domains (one-element tuples, conditional expressions as operands, operators under a trailer, '
            'negative literals, chained comparisons) are violated by the unmodified tree and are kept as pending rules (FINDING_1..3). '
            'C25-SIG: EmbedSignature.visit_DefNode on every parameter-list shape (0..2 positional-only / positional / keyword-only, *args, **kwargs, defaults, annotations, return '
            'annotation, three formats, extension-type constructors, docstring placement, clinic end marker). '
            'C25-QUAL: qualified names for every nesting of def / class / lambda up to depth 3 equal co_qualname. '
            'C25-CODEOBJ: each description field is initialised with the quantity its width is computed from, C passes the fields in the constructor order of types.CodeType, CO_* flags '
            'follow the parameter kinds, co_varnames starts with the arguments, file name / function name reach the parameters of that name. '
            'C25-FUNCATTR: constructor roles (qualname / module / code), kw_only defaults -> dict and positional -> tuple, defaults getter order == C unpacking order, getset rows pair '
            'getter and setter of their attribute on one struct field, lazily initialised func_X comes from ml_X, creation-time setters write distinct fields.')
NOT_DECIDED = ('annotation strings (AnnotationNode.string) and the `c` format of typed arguments (not Python syntax by design), cpdef / fused signatures (visit_CFuncDefNode), comprehension and '
               'lambda printing, wrapper / generator body qualified names (is_wrapper paths), __doc__ of properties, the run-time behaviour of the CyFunction type beyond the table agreements.')
MUTATIONS = 'see /verif/mutants/C25/*/meta.json (44 brainstormed mutants: 36 breaking - all reported, 8 behaviour-preserving - all silent)'


# ---------------------------------------------------------------------------------------------------------------------------------
# sixth strengthening round (session I2): sa/rules/s4C25.py
_run2 = run


def run(ctx):
    from ..rules import s4C25
    return _run2(ctx) + [s4C25.rule_cover(ctx)]

TECHNIQUE += ('; writer / sizer agreement with path conditions: both functions of the code-object description interpreted by the checker\'s evaluator once per truth assignment of the '
              'def-node flags they consult (linear forms over non-negative node quantities, running maxima as sets of dominated forms)')
DECIDES += (' C25-COVER: for every combination of the def-node flags tested by CodeObjectNode.generate_codeobj or GlobalState.generate_codeobject_constants, each count stored in the '
            'description struct is a constant that fits or is dominated by a quantity accumulated (in that case) into the running maximum that sizes its bit-field; the sizing loop runs '
            'over the collection the writer is called for, is not left early, every maximum dominates its previous value, the width is at least the bit length of the maximum, and every '
            'CO_* flag the writer can set fits the flags mask (values of the checker\'s inspect module).')
ASSUMPTIONS = list(globals().get('ASSUMPTIONS', [])) + [
    'C25-COVER: node quantities (len(args), num_*_args, len(varnames), line) are non-negative; arguments added to a generator expression after construction are plain positional '
    '(its keyword-only / positional-only counts stay 0: shown from the construction sites with is_generator_expression=True passing args=[] and DefNode.__init__ counting over self.args)']
MUTATIONS += ('; sixth round (seed C25h): C25-COVER - 10 breaking edits of the sizer / writer pair (sizer skips coroutines / lambdas / generators, writer special case inverted, min(), '
              'plain assignment, sliced collection, break, width of max-1, flags mask typo) and 8 behaviour-preserving rewrites under /verif/mutants/C25/h-* and p6-*')
