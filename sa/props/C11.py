"""C11 — emitted C string literals denote exactly the original bytes: escape table, literal splitting, character-array
tokens and character constants, each folded from the source and read back with a reference C literal reader."""
from ..rules import pC11, sC11

ID = 'C11'
TECHNIQUE = ('finite-domain folding of the escaping functions of StringEncoding.py / Code._split_characters on their ASTs (checker-side constant folder; '
             'only builtins and `re` of the checker\'s interpreter are called) and comparison of the resulting tables with a reference reader of C string and '
             'character literals (trigraphs, simple/octal/hex escapes, adjacent-literal concatenation) written from the C standard; '
             'decision table of the cut position of split_string_literal over the complete domain of token-shape sequences lying across a chunk end (C11-CUT); '
             'the tokenizer regular expression of the character-array form expanded into ordered alternatives of character predicates (CPython re._parser as the pattern reader, '
             'matched by the checker) against the reference C lexer for every escaper token followed by every continuation class (C11-ARR); '
             'def-use search from every quoted placeholder of the literal writers back to an escaper call, through locals, parameters (all callers), attributes (all stores), '
             'loop / list elements and helper returns (C11-SINK)')
DECIDES = ('C11-ESC: for each of the 256 byte values followed by any digit/hex letter, and for ~900 adversarial sequences (all pairs of representative bytes, '
           'trigraph leads ??x, runs of ? and of backslashes, quotes, digits after control bytes), the text produced by escape_byte_string consists of portable '
           'source characters and is read back as exactly the bytes (so: \\ " controls and >=128 are escaped, ?? never survives, numeric escapes cannot swallow what follows); '
           'C11-CUT: split_string_literal reads its text only through comparisons with the backslash (checked syntactically; otherwise ANALYSIS-ERROR), so its '
           "input space is exactly the sequences of the escaper's token shapes (x, \\x, \\\\, \\xxx - taken from escape_byte_string folded over all 256 bytes); for EVERY such "
           'sequence whose length lies in [limit, limit + longest escape) - every way tokens can lie before, across and after the nominal chunk end, with backslash runs of '
           'every class (none/odd/even, ending inside the chunk or reaching its start) - at limits 6 and 7 (both parities) and behind a full first chunk (start != 0), '
           'the function terminates, only inserts `""`, and the pieces are read back as the unsplit value, i.e. every cut is a token boundary; '
           '(C11-SPLIT, the earlier sampled variant of this, stays unregistered); '
           "C11-TOK: Code._split_characters cuts escaped text into tokens that are each a valid C character constant of the right byte (so ' must be escaped by the escaper); "
           "C11-CHR: escape_char yields a valid character constant of the same value for all 256 bytes (' and \\ quoted); "
           'C11-SRC: every text given to split_string_literal comes from escape_byte_string or is joined from constant separators that are complete, suffix-safe escapes; '
           "C11-ARR (replaces the unregistered C11-TOK): Code._split_characters is `re.compile(<constant>).findall`; after expansion of counted repeats / groups / branches every "
           'alternative is a fixed sequence of character predicates and findall takes the FIRST matching alternative at each position, so the tokenisation of an escaped text equals '
           'the C tokenisation iff at the start of every escaper token T (tokens of the escapes of all 256 bytes and of all pairs of representative bytes, found with the reference C lexer), '
           'followed by any continuation of up to m-1 characters over one representative per character class the pattern can distinguish, the first matching alternative has length |T|; '
           "each token is a valid character constant 'T' of its byte; the text handed to _split_characters is escaper output that did not pass through split_string_literal; "
           'C11-SINK: in every function that calls split_string_literal / _split_characters or belongs to the escaping family, and in calculate_result_code of every ConstNode subclass, a placeholder '
           'that sits directly between two quote characters of an emitted template is derived from escape_byte_string (double quotes) or escape_char / escape_byte_string (single quotes) '
           'on every def-use path (locals, parameters via all callers, object attributes via all stores, for-loop / append elements, returns of helpers defined in the same file).')
NOT_DECIDED = ('that the cut table of split_string_literal computed at limits 6/7 is the table at the production limit 2000 (the function uses `limit` only additively and '
               'through `limit % 2`, both parities are tabulated and a look-back of bounded width plus a backslash run cannot distinguish more classes than occur at the small '
               'limits - but that transfer is an argument, not a check); homomorphism of escape_byte_string on arbitrary long inputs beyond the '
               'pair/triple contexts (the replacer is a regex alternation of fixed strings plus a per-byte loop); C compilers\' limits on literal length (MSVC 2K/64K rules); '
               'that every emitter of a C string in the compiler goes through these functions (C11-SINK follows the writers named above and texts that are visibly escaped in place; a '
               'function that writes user bytes between quotes without ever mentioning the escaping family is not found); the 64K threshold of the character-array form and the piece length 2000 '
               '(limits of MSVC, mutants arr-threshold / split-limit-large).')
ASSUMPTIONS = [
    'reference reader: C11 5.1.1.2 (trigraphs in phase 1, escapes in phase 5, adjacent literals in phase 6), 6.4.4.4 (octal escapes take at most 3 digits, hex escapes all following hex digits)',
    'portable raw characters in a literal are the printable ASCII characters 32..126',
]
EXEMPT = {
    ('C11-ESC', 'byte:0x7f:unreadable'):
        'escape_byte_string returns pure-ASCII input after the specials replacement without running the `b >= 127` loop, so DEL (0x7f) is written raw when no byte >= 128 is '
        'present (and as \\177 otherwise). DEL is outside the basic source character set, but inside a string literal extra characters are implementation-defined, not invalid, '
        'and gcc/clang/MSVC map the raw byte to 0x7f (checked: clang -std=c11 -pedantic -Wall, gcc likewise, no diagnostics, value 127). Inconsistent, not wrong.',
}

# single-edit variants tried on a scratch copy (file, edit, finding that reported it) - all 15 reported
MUTATIONS = [
    ('Cython/Compiler/StringEncoding.py', "_to_escape_sequence: f'\\\\{ord(c):03o}' -> f'\\\\{ord(c):o}'", 'C11-ESC byte:control:value (control byte followed by a digit), sequence:digits-after-escape:value'),
    ('Cython/Compiler/StringEncoding.py', "_to_escape_sequence: octal -> f'\\\\x{ord(c):02x}'", 'C11-ESC byte:control:value / :unreadable (hex escape swallows hex digits)'),
    ('Cython/Compiler/StringEncoding.py', "_c_special: '??' dropped", 'C11-ESC sequence:trigraph:value, :unreadable'),
    ('Cython/Compiler/StringEncoding.py', "_c_special: \"'\" dropped", 'C11-TOK tokens:single-quote:unreadable'),
    ('Cython/Compiler/StringEncoding.py', "_c_special: '\"' dropped", "C11-ESC byte:'\"':unreadable, sequence:quote:*"),
    ('Cython/Compiler/StringEncoding.py', '_c_special: range(32) -> range(31)', 'C11-ESC byte:control:unreadable'),
    ('Cython/Compiler/StringEncoding.py', 'escape_byte_string: `if b >= 127` -> `if b >= 129`', 'C11-ESC byte:high:crash (the final .decode("ASCII") raises)'),
    ('Cython/Compiler/StringEncoding.py', "split_string_literal: `'\\\\' in s[end-4:end]` -> `s[end-2:end]`", 'C11-SPLIT split:value'),
    ('Cython/Compiler/StringEncoding.py', "split_string_literal: `while s[end-1] == '\\\\'` loop removed", 'C11-SPLIT split:token:unreadable, split:backslash-run:unreadable'),
    ('Cython/Compiler/StringEncoding.py', 'split_string_literal: fallback `- 4` -> `- 3`', 'C11-SPLIT split:backslash-run:unreadable'),
    ('Cython/Compiler/Code.py', "_split_characters: alternative \\\\[0-7][0-7][0-7] dropped", 'C11-TOK tokens:*:value'),
    ('Cython/Compiler/StringEncoding.py', "escape_char: `elif c == \"'\"` branch removed", "C11-CHR char:\"'\""),
    ('Cython/Compiler/StringEncoding.py', "escape_char: `c in '\\n\\r\\t\\\\'` -> `'\\n\\r\\t'`", "C11-CHR char:'\\\\'"),
    ('Cython/Compiler/StringEncoding.py', 'escape_char: `n >= 127` -> `n >= 161`', 'C11-CHR char:high'),
    ('Cython/Compiler/Code.py', "generate_num_constants: b'\\\\000'.join -> b'\\\\0'.join", 'C11-SRC split-arg:Code.generate_num_constants'),
]
# second round (C11-CUT, sa/rules/sC11.py): seed C11a + single-edit variants of the same mechanism, all reported by C11-CUT
MUTATIONS += [
    ('Cython/Compiler/StringEncoding.py', "seed C11a: pos = s.find('\\\\', end-4, end); adjust only `if pos > end-4`", 'C11-CUT split_string_literal:cut:inside-escape'),
    ('Cython/Compiler/StringEncoding.py', "split_string_literal: condition `'\\\\' in s[end-4:end]` -> `s[end-2:end]`", 'C11-CUT cut:inside-escape'),
    ('Cython/Compiler/StringEncoding.py', "split_string_literal: `while s[end-1] == '\\\\'` loop removed", 'C11-CUT cut:inside-escape'),
    ('Cython/Compiler/StringEncoding.py', "split_string_literal: `while s[end-1] == '\\\\'` -> `if` (steps back once)", 'C11-CUT cut:inside-escape'),
    ('Cython/Compiler/StringEncoding.py', 'split_string_literal: fallback `- 4` -> `- 3`', 'C11-CUT cut:inside-escape'),
    ('Cython/Compiler/StringEncoding.py', 'split_string_literal: fallback `- (limit % 2)` dropped', 'C11-CUT cut:inside-escape (limit 7)'),
    ('Cython/Compiler/StringEncoding.py', 'split_string_literal: `if end == start` -> `if end == 0`', 'C11-CUT cut:termination'),
]
# behaviour-preserving edits - all silent
PRESERVING = [
    ('Cython/Compiler/StringEncoding.py', "escape_byte_string: b'\\\\%03o' % b -> b'\\\\%o' % b (every byte >= 127 has three octal digits anyway; the design's own example mutation)", 'silent'),
    ('Cython/Compiler/Code.py', '_split_characters: re.DOTALL removed (escaped text never contains a raw newline)', 'silent'),
    ('Cython/Compiler/StringEncoding.py', 'split_string_literal: look-back window 4 -> 3 in all three places (an escape is cut only if its backslash is among the last 3 characters)', 'silent'),
    ('Cython/Compiler/StringEncoding.py', 'split_string_literal: `end -= 4 - ...find` -> `end -= 3 - ...find` (the backslash-run loop steps back over the backslash again)', 'silent'),
    ('Cython/Compiler/StringEncoding.py', "_c_special reordered, local `subexps` renamed, escape_char: f\"\\\\x{n:02X}\" -> f\"\\\\x{n:x}\"", 'silent'),
    ('Cython/Compiler/StringEncoding.py', "_to_escape_sequence: the `elif s == '\\\\'` branch removed, so a backslash is written \\134 instead of \\\\", 'silent'),
    # second round, with C11-CUT registered
    ('Cython/Compiler/StringEncoding.py', 'split_string_literal: look-back window 4 -> 3 in condition, slice and subtraction', 'silent'),
    ('Cython/Compiler/StringEncoding.py', 'split_string_literal: `end -= 4 - ...find` -> `end -= 3 - ...find`', 'silent'),
    ('Cython/Compiler/StringEncoding.py', "split_string_literal: `.find` -> `.rfind` (cut in front of the last maximal backslash run of the window - also a token boundary)", 'silent'),
    ('Cython/Compiler/StringEncoding.py', "split_string_literal: window test rewritten as `pos = s.find('\\\\', max(end-4, start), end); if pos >= 0: end = pos`", 'silent'),
    ('Cython/Compiler/StringEncoding.py', 'split_string_literal: local `chunks` renamed, separator bound to a local before .join', 'silent'),
]


# fourth round (mutation brainstorming, mutants/C11/*): 22 breaking edits over byte escaping, literal splitting, the character-array writer, the string-table writer and
# character constants; 12 were reported before (C11-ESC/CUT/SRC/CHR), 20 now (C11-ARR and C11-SINK report the other 8); 2 declined (compiler limits).  11 behaviour-preserving
# rewrites, all silent after `"<white space>"` separators were accepted by the reference reader and by C11-CUT (p-join-with-space used to end in ANALYSIS-ERROR).
MUTATIONS += [
    ('Cython/Compiler/Code.py', "_split_characters: alternative \\\\[0-7][0-7][0-7] dropped / shortened to two digits / `.` placed before `\\\\.`", 'C11-ARR _split_characters:<shape>:cut'),
    ('Cython/Compiler/Code.py', '_write_cstring_const: _split_characters(strings) (the already split text)', 'C11-ARR Code._write_cstring_const:_split_characters-arg'),
    ('Cython/Compiler/Code.py', '_write_escaped_cstring_const / StringConst.__init__: escape_byte_string dropped; generate_string_constants collects sc.text', 'C11-ARR ...-arg + C11-SINK Code._write_cstring_const:"strings"'),
    ('Cython/Compiler/ExprNodes.py', 'CharNode.calculate_result_code: escape_char dropped', "C11-SINK ExprNodes.CharNode.calculate_result_code:'...'"),
]
PRESERVING += [
    ('Cython/Compiler/Code.py', '_split_characters spelled (\\\\[0-7]{3}|\\\\.|.) or prefix-factored (\\\\(?:[0-7]{3}|.)|.); helper _escaped() wrapping the escaper; %-format instead of f-string in the writer', 'silent'),
    ('Cython/Compiler/StringEncoding.py', 'pieces joined with `" "`; `len(s) > end` window test; dict-based _to_escape_sequence; escape_char octal', 'silent'),
]


def run(ctx):
    esc, longest = pC11.rule_escape_table(ctx)
    # C11-SPLIT and C11-TOK (pC11.rule_split / rule_char_tokens) interpret split_string_literal / _split_characters on generated
    # boundary inputs.  That is bounded testing through an interpreter rather than a static decision, so they are not part of
    # the registered check (see DESIGN.md section 9); the exhaustive per-byte tables and the source rule remain.
    # C11-CUT (sC11.rule_cut) replaces the sampled family of C11-SPLIT by the complete domain of the function's exact input
    # abstraction (sequences of the escaper's token shapes across one chunk end): a decision table, not a sample.
    return [esc, pC11.rule_escape_char(ctx), pC11.rule_raw_literals(ctx), sC11.rule_cut(ctx), sC11.rule_char_array(ctx), sC11.rule_sinks(ctx)]
