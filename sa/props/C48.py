"""C48 — compilation caches never return stale results."""
from ..rules import sC48

ID = 'C48'
TECHNIQUE = ('cache-key completeness: the option chain of get_fingerprint evaluated per option name, def-use closure from parameters and file contents to every sink '
             '(hash, cache file name, in-process memo, build-skipping guard), typestate of the file-reading loop, decision table of the dependency filter over file extensions, '
             'interprocedural summaries of DependencyTree, path-sensitive guard check on dependency memoisation')
DECIDES = ('K1: every CompilationOptions key is included in get_fingerprint with its full value (or rejected), or excluded and output-neutral, unknown keys default to included, no dict is reduced to its keys; '
           'K1b: transitive_fingerprint hashes the Cython version, the CONTENT (file_hash) of the source and of every dependency except C/C++ files (filter evaluated per extension, loop never left early), the flags and the options, and returns that digest; '
           'K5: file_hash feeds every chunk it reads to the hash and stops only at end of file; '
           'K6: the cache file name depends on the fingerprint, and lookup, store and the compile pipeline pass on the fingerprint they were given; '
           'DEP1: the transitive dependency set is memoised only outside open cimport cycles and merged without mutation; '
           'DEP2: all_dependencies is transitive and contains the file, the files of its cimports and its includes; every transitive_fingerprint() call gets that set for the same source and the options object in use; '
           'K2: every parameter of cython.inline() that reaches the cythonize()/Extension() build reaches every _inline_key() call, _inline_key digests each parameter completely plus the compiler version, the key text is the unstripped source; '
           'K3: the in-process memo of compiled snippets and every name whose presence skips the build depend on all build-affecting parameters.')
NOT_DECIDED = ('that dependency *discovery* (the regular expressions of parse_dependencies, the search path lookup) finds every file the compiler reads; staleness inside one process through the '
               'process-wide @cached_function memo of file_hash (the repository\'s own tests call Utils.clear_function_caches()); known finding K3: the inline key has no digest of cimported files.')

MUTATIONS = [
    # patches and outcomes under /verif/mutants/C48/<name>/
    ('Cython/Compiler/Options.py', 'opt-cplus-excluded, opt-else-skips, opt-directives-excluded, opt-tofp-keys-only, opt-returns-keys, opt-value-truthiness', 'K1'),
    ('Cython/Build/Cache.py', 'cache-fp-no-options, cache-fp-only-sources, cache-fp-skip-pxi, cache-fp-first-dep, cache-fp-dep-names', 'K1b'),
    ('Cython/Build/Cache.py', 'filehash-first-chunk, filehash-size-only, filehash-loop-stale', 'K5'),
    ('Cython/Build/Cache.py, Cython/Compiler/Main.py', 'fpfile-no-fingerprint, lookup-ignores-fingerprint, main-store-other-fp', 'K6'),
    ('Cython/Build/Dependencies.py, Cython/Compiler/Main.py', 'deps-fp-immediate-only, main-fp-no-deps, deps-fp-default-options, immdeps-no-includes, immdeps-no-cimports', 'DEP2'),
    ('Cython/Build/Dependencies.py', 'merge-mutating, memo-in-cycle', 'DEP1'),
    ('Cython/Build/Inline.py', 'inline-key-stripped, inline-key-no-directives, inline-key-directive-names, inline-key-no-version, inline-key-drops-sigs', 'K2'),
    ('Cython/Build/Inline.py', 'inline-memo-no-keyhash, inline-modname-short', 'K3'),
    ('Cython/Build/Dependencies.py', 'deps-included-cimports-dropped, deps-includes-not-collected: NOT reported (dependency discovery, declined)', ''),
    ('*', 'behaviour preserving, silent: p-opt-chain-sets, p-opt-early-continue, p-opt-tofp-repr-values, p-cache-fp-rewrite, p-filehash-walrus, p-fpfile-fstring, p-flags-drop-pylimited, '
          'p-immdeps-reordered, p-inline-key-kwargs, p-inline-langlevel-in-directives, p-merge-lambda, p-memo-guard-demorgan', ''),
]


# sC48.rule_fp_final (K8) is NOT registered: it reports Dependencies.cythonize_one:options.embedded_metadata on the unmodified tree,
# a genuine defect (demonstrated, /tmp/strengthen4/G13/FINDING_1.md)   # pending finding
def run(ctx):
    return [sC48.rule_K1(ctx), sC48.rule_K1b(ctx), sC48.rule_filehash(ctx), sC48.rule_fp_thread(ctx), sC48.rule_K2(ctx), sC48.rule_K3(ctx),
            sC48.rule_seen_guard(ctx), sC48.rule_dep_flow(ctx), sC48.rule_fp_final(ctx)]
