"""C48 — compilation caches never return stale results."""
from ..rules import keys

ID = 'C48'
TECHNIQUE = 'cache-key completeness by def-use (parameter-to-sink) closure and decision-chain extraction; path-sensitive guard check on dependency memoisation'
DECIDES = ('K1: every CompilationOptions key is included in get_fingerprint (or rejected), or excluded and output-neutral, unknown keys default to included; '
           'K1b: transitive_fingerprint hashes the Cython version, the source, every non-C dependency, the build flags and the options; '
           'K2: every parameter of cython.inline() that reaches the cythonize()/Extension() build reaches every _inline_key() call, and the key text is the unstripped source; '
           'DEP1: the transitive dependency set (which feeds the fingerprint) is memoised only outside open cimport cycles and merged without mutation.')
NOT_DECIDED = 'that dependency *discovery* finds every file the compiler reads; known finding K3: the inline key has no digest of cimported files / include directories.'


def run(ctx):
    return [keys.rule_K1(ctx), keys.rule_fingerprint_sinks(ctx), keys.rule_K2(ctx), keys.rule_seen_guard(ctx)]
