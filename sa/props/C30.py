"""C30 — cdef dataclasses: decorator/field option tables vs the stdlib signatures, the decision which methods are
generated (incl. the __hash__ table) vs the stdlib's behaviour, names used on the dataclasses module, visitor handlers."""
import ast, dataclasses, inspect, itertools, re

from ..core import Rule, AnalysisError, node_src
from ..engine import tables
from ..engine.pyindex import walk_no_nested
from ..rules import pC28 as H
from ..rules import tree as treerules
from ..rules.pC28 import MiniPy, NS, OPQ, PStr, Env, Closure, Raised, Stopped, Unsupported, Undecidable, NOT_HANDLED

ID = 'C30'
TECHNIQUE = ('table comparison against the running interpreter\'s dataclasses module (inspect.signature, _hash_action, Field.__slots__, behaviour probes of '
             'dataclasses.dataclass / make_dataclass on tiny classes); evaluation of handle_cclass_dataclass, Field.__init__ and the generate_* functions of Dataclass.py by a small '
             'AST evaluator on mock nodes for every value of the options that reach them, and evaluation of the source text they generate')
DECIDES = ('(OPT) the option names handle_cclass_dataclass accepts are parameters of dataclasses.dataclass with the same defaults; each option passed with its non-default '
           'value reaches the generate_* calls and __dataclass_params__ with that value; the keywords passed to _DataclassParams cover that class\'s positional parameters and '
           'report the stdlib default for options Cython does not implement; '
           '(FLD) the keywords Field accepts from a user\'s field(...) call are parameters of dataclasses.field with the same effective defaults; the keys recorded for '
           '__dataclass_fields__ are parameters of dataclasses.field and attributes of Field; attributes assigned on the stdlib Field objects are in its __slots__; '
           'every attribute looked up on the imported dataclasses module exists there; '
           '(GEN) for each generate_* call of handle_cclass_dataclass, each value of the options passed to it and a class that does / does not define the method itself: '
           'whether the method is generated, left alone, or the class is rejected equals what dataclasses.dataclass does (probed on the running interpreter); '
           '(HASH) the 16-cell decision of generate_hash_code over (unsafe_hash, eq, frozen, explicit __hash__) equals dataclasses._hash_action; '
           '(CMP) operator <-> method-name pairs handed to generate_cmp_code are the interpreter\'s; '
           '(BODY) the source text generated for __match_args__, __hash__, __repr__, __eq__ and the four ordering methods, for small field lists built through Field.__init__ '
           '(plain, init=False, repr=False, compare=False, hash=True/False, InitVar), evaluated by the checker\'s own evaluator, agrees with the stdlib dataclass made from the '
           'same field options: member list of __match_args__, which fields are hashed and in which order, repr text, results of ==,<,<=,>,>= on all 0/1 field values, '
           'NotImplemented for another class; (V1) handlers of RemoveAssignmentsToNames name node classes.')
NOT_DECIDED = ('the generated __init__ (argument list, defaults/default factories, InitVar/__post_init__ plumbing), kw_only fields, ClassVar handling, inheritance of fields, '
               'frozen enforcement (__setattr__), the recursion guard of __repr__, C-typed fields that cannot be converted to Python objects, how Cython compiles the generated source.')
ASSUMPTIONS = ['the running interpreter\'s dataclasses module (3.12) is the reference the compiled module is compared with',
               'the part of a generate_* function after its option/explicit-definition guards emits the method whenever it contains the emission (may-analysis of the tail)',
               'the generated method source has Python semantics once cdef declarations and <T> casts are dropped (fields of object/int type)']

# ---- fourth round (sa/rules/sC30.py) -------------------------------------------------------------------------------------------------------------
TECHNIQUE += ('; (round 4) the generated __init__ / __repr__ with recursion guard / __hash__ / comparison methods are emitted through a writer with real insertion points and run by the '
              'checker\'s evaluator against dataclasses.make_dataclass on the same field options; process_class_get_fields, _set_up_dataclass_fields, Field.__init__, '
              'RemoveAssignmentsToNames and the two "frozen" statement blocks (Nodes.py, ExprNodes.py) are evaluated on mock nodes')
DECIDES += (' ROUND 4 — (INIT) for 9 field lists x kw_only x __post_init__: rejected exactly when dataclasses rejects; parameter list equals inspect.signature of the stdlib __init__; for '
            'every subset of omitted defaulted arguments the attributes set and the __post_init__ arguments equal the stdlib\'s. (IVAR) InitVar pseudo-fields are absent from '
            '__repr__/__eq__/ordering/__hash__. (HASH1) tuple form of the hashed value for 0/1/2 fields, __match_args__ is a tuple, definition order (not name order) in __repr__, '
            '__hash__ and ordering. (REPRGUARD) the recursion guard records the object while formatting, answers "..." on re-entry and restores the set. (FIELDS) inherited field dicts '
            'are copied; is_initvar / private flags; field(default / default_factory / both / unknown keyword); mutable defaults list/dict/set rejected and nothing hashable rejected; '
            'the default statement is removed and recorded; __dataclass_fields__[n].name/.type/._field_type; private attributes are not published. (FROZEN) scope mark "frozen" exactly '
            'for frozen=True; readonly exactly for that mark. (METHODS) every method dataclasses adds for an option can be emitted by some generator. (BODY) + subclass operand -> NotImplemented.')
NOT_DECIDED += (' ROUND 4 — still not decided: ClassVar, field-level kw_only, how Cython types and compiles the generated source (annotation_typing), the C helper that filters keyword '
                'arguments for older dataclasses versions. Two further rules of this round found genuine defects of the unmodified tree and were armed after the repairs: C30-MUTDEF (FINDING_2, '
                'repaired in 52deae914: a bytearray default was accepted) and C30-POSTINIT (FINDING_4, repaired in f5dc1bf46: an inherited __post_init__ was not called).')
MUTANTS_ROUND4 = 'mutants/C30/*: 34 breaking (32 reported, 2 declined) + 9 behaviour-preserving (all silent)'

# No EXEMPT entries here: the V1 entries for RemoveAssignmentsToNames.visit_CClassNode / visit_PyClassNode live in sa/exemptions.py.
# Findings on the ORIGINAL tree, all reproduced by compiling and running a module outside /repo and since repaired in /repo
# (the check is silent on the repaired tree; reverting a fix brings the finding back, see MUTATIONS):
#   C30-BODY generate_hash_code:field(compare=False)   field.hash.value of an unspecified hash was NoneNode.value == "Py_None", never None
#   C30-BODY generate_match_args:init=False             init=False fields were listed in __match_args__
#   C30-GEN  generate_order_code (order=True, explicit) a user-defined __lt__/... was kept silently, the stdlib raises TypeError
#   C30-FLD  Field.__init__:is_initvar / is_classvar     internal parameters were reachable from a user's field(...) keywords

MUTATIONS = [
    # (file, edit, rule that reported it) — all on Cython/Compiler/Dataclass.py, each tried on a scratch copy; every one was reported with the construct in the message
    ('Dataclass.py', 'kwargs = dict(... order=False ...) -> order=True', 'C30-OPT'),
    ('Dataclass.py', 'kwargs = dict(... match_args=True) -> match_args=False', 'C30-OPT'),
    ('Dataclass.py', 'kwargs key unsafe_hash renamed unsafehash (its use kwargs["unsafe_hash"] kept)', 'C30-OPT (crash: KeyError)'),
    ('Dataclass.py', 'kwargs gets an extra key cache_hash=False', 'C30-OPT'),
    ('Dataclass.py', "_DataclassParams keywords: drop ('weakref_slot', False)", 'C30-OPT'),
    ('Dataclass.py', "_DataclassParams keywords: ('slots', False) -> ('slots', True)", 'C30-OPT'),
    ('Dataclass.py', "_DataclassParams keywords: ('kw_only', kw_only) -> ('kw_only', False)", 'C30-OPT'),
    ('Dataclass.py', 'option parsing: kwargs[k] = v.value -> not v.value', 'C30-OPT'),
    ('Dataclass.py', "kw_only = kwargs['kw_only'] -> kwargs['frozen']", 'C30-OPT'),
    ('Dataclass.py', 'EncodedString("_DataclassParams") -> "_DataclassParam"', 'C30-OPT + C30-FLD'),
    ('Dataclass.py', 'Field.__init__: self.compare = compare or BoolNode(value=True) -> value=False', 'C30-FLD (+C30-BODY)'),
    ('Dataclass.py', 'Field.__init__: self.hash = hash or NoneNode(pos) -> BoolNode(pos, value=True)', 'C30-FLD'),
    ('Dataclass.py', 'Field.__init__ gets a parameter doc=None', 'C30-FLD'),
    ('Dataclass.py', 'Field.literal_keys: "compare" -> "compre"', 'C30-FLD'),
    ('Dataclass.py', '__dataclass_fields__[..]._field_type -> .field_type in the TreeFragment text', 'C30-FLD'),
    ('Dataclass.py', 'EncodedString("_FIELD_INITVAR") -> "_FIELD_INIT_VAR"', 'C30-FLD'),
    ('Dataclass.py', 'generate_eq_code: `if not eq` -> `if eq`', 'C30-GEN'),
    ('Dataclass.py', 'generate_init_code: drop `or node.scope.lookup_here("__init__")`', 'C30-GEN'),
    ('Dataclass.py', 'handle_cclass_dataclass: generate_repr_code(code, kwargs["eq"], ...)', 'C30-GEN'),
    ('Dataclass.py', 'generate_match_args: `if not match_args or ...` -> `if match_args or ...`', 'C30-GEN'),
    ('Dataclass.py', 'generate_order_code: `if not order` -> `if order is None`', 'C30-GEN'),
    ('Dataclass.py', 'generate_hash_code: `if not frozen` -> `if frozen`', 'C30-HASH'),
    ('Dataclass.py', 'generate_hash_code: drop the `if unsafe_hash: error(...)` under `if hash_entry`', 'C30-HASH'),
    ('Dataclass.py', 'handle_cclass_dataclass: generate_hash_code(code, kwargs["eq"], kwargs["unsafe_hash"], ...) (swapped)', 'C30-HASH'),
    ('Dataclass.py', 'generate_hash_code: `if not eq: return` merged into `if not eq or not frozen: return`', 'C30-HASH'),
    ('Dataclass.py', 'generate_order_code: ("<", "__lt__"), ("<=", "__le__") -> names swapped', 'C30-CMP (+C30-BODY)'),
    ('Dataclass.py', 'generate_eq_code: "==" -> "!="', 'C30-CMP (the generated source `self.a ! other.a` is unparsable, so C30-BODY is recorded as not evaluated)'),
    ('Dataclass.py', "generate_cmp_code: 'True' if '=' in op else 'False' -> swapped", 'C30-BODY'),
    ('Dataclass.py', "generate_cmp_code: op_without_equals = op.replace('=', '') -> op", 'C30-BODY'),
    ('Dataclass.py', 'generate_cmp_code: `!=` -> `==` in the emitted early-exit line', 'C30-BODY'),
    ('Dataclass.py', 'generate_cmp_code: names ignores field.compare.value', 'C30-BODY'),
    ('Dataclass.py', 'generate_cmp_code: `is not self.__class__` -> `is self.__class__`', 'C30-BODY'),
    ('Dataclass.py', 'generate_cmp_code: for name in reversed(names)', 'C30-BODY'),
    ('Dataclass.py', 'generate_repr_code: ignores field.repr.value; ", ".join -> ",".join', 'C30-BODY'),
    ('Dataclass.py', 'generate_hash_code: reversed(names); selection ignores field.hash', 'C30-BODY'),
    ('Dataclass.py', 'generate_match_args: `if not field_is_kw_only` -> `if field_is_kw_only`', 'C30-BODY'),
    ('Dataclass.py', 'RemoveAssignmentsToNames.visit_SingleAssignmentNode -> visit_SingleAssignNode', 'V1'),
    # the five defects found on the original tree (since repaired in /repo): each fix reverted on a scratch copy is reported again
    ('Dataclass.py', 'REVERT hash fix: `field.hash.is_none` -> `field.hash.value is None` in generate_hash_code', 'C30-BODY generate_hash_code:field(compare=False)'),
    ('Dataclass.py', 'REVERT __match_args__ fix: `if field.init.value and not field_is_kw_only` -> `if not field_is_kw_only`', 'C30-BODY generate_match_args:init=False'),
    ('Dataclass.py', 'REVERT order fix: drop `if node.scope.lookup_here(name): error(...)` from generate_order_code', 'C30-GEN generate_order_code:*:(order=True, explicit=True)'),
    ('Dataclass.py', 'REVERT field() keyword fix: Field.__init__ takes is_initvar=False again (self.is_initvar = is_initvar)', 'C30-FLD Field.__init__:is_initvar'),
    ('Dataclass.py', 'REVERT field() keyword fix: Field.__init__ takes is_classvar=False again', 'C30-FLD Field.__init__:is_classvar'),
    ('Dataclass.py', 'generate_order_code: `if node.scope.lookup_here(name): error` -> `if not ...: error`', 'C30-GEN (BODY recorded as not evaluated)'),
    # behaviour-preserving edits: no new finding
    ('Dataclass.py', 'Field.__init__(self, pos, /, ...) -> (self, pos, ...) (pos is bound positionally at every call site either way)', 'silent'),
    ('Dataclass.py', 'generate_order_code: `existing = node.scope.lookup_here(name); if existing is not None and existing: error(...)`', 'silent'),
    ('Dataclass.py', 'rename locals (kwargs -> opts, hash_entry -> he, names -> cmp_names), `if not eq: return` -> `if eq: pass / else: return`', 'silent'),
    ('Dataclass.py', 'reorder rows of the kwargs dict and of Field.literal_keys; rename parameter unsafe_hash -> uh in generate_hash_code', 'silent'),
    ('Dataclass.py', 'kwargs as a dict literal; hash guards restructured (`if not unsafe_hash and not eq: return`)', 'silent'),
    ('Dataclass.py', 'generate_order_code iterates a dict name->op and calls generate_cmp_code with keyword arguments', 'silent'),
    ('Dataclass.py', 'generate_cmp_code emits the class test through code.indenter + add_code_line and `if not (x == y)` instead of `!=`', 'silent'),
    ('Dataclass.py', 'generate_hash_code builds the tuple text with "".join("self.%s, "); generate_repr_code builds strs in a for loop with f-strings', 'silent'),
]

DEF_RE = re.compile(r'^\s*(?:def\s+(\w+)\s*\(|(__\w+__)\s*=(?!=))')
CMP_OPS = ('<', '<=', '>', '>=', '==', '!=')


def _safe_getattr(o, name, *default):
    if isinstance(o, NS) and isinstance(name, str):
        if name in o.__dict__:
            return o.__dict__[name]
        ga = o.__dict__.get('_getattr')
        v = ga(name) if ga is not None else OPQ
        if v is OPQ and default:
            return OPQ
        return v
    return OPQ


class Model:
    """Evaluation of functions of Compiler/Dataclass.py on mock nodes."""

    def __init__(self, ctx):
        self.ctx, self.ix = ctx, ctx.index
        self.m = self.ix.mod('Compiler.Dataclass')
        self.rel = self.m.rel
        self.glob = H.module_globals(self.ix, self.m)
        for name, node in self.m.bindings.items():
            if isinstance(node, ast.Call) and isinstance(node.func, ast.Name) and node.func.id in self.m.classes and not node.args and not node.keywords:
                self.glob[name] = NS('sentinel ' + name, _sentinel=name)
        self.glob['getattr'] = _safe_getattr
        self.glob['isinstance'] = self._isinstance
        for v in self.glob.values():
            if isinstance(v, NS) and v.__dict__.get('_mod') is not None:
                v.__dict__['_getattr'] = self.module_getattr(v.__dict__['_mod'])
        self._resolved = {}
        self.events, self.calls, self.explicit = [], [], {}
        self.inline_skip = set()
        self.scanning = False
        self.entries = {}
        self.undefined_dunders = False
        self.stopped_in = {}
        self.glob['hasattr'] = lambda o, n: ((n in o.__dict__) or (o.__dict__.get('_getattr') is not None and o.__dict__['_getattr'](n) is not OPQ)) if isinstance(o, NS) else OPQ

    # ------------------------------------------------------------------ plumbing
    def fn(self, name):
        f = self.m.functions.get(name)
        if f is None:
            raise AnalysisError('Dataclass.%s vanished' % name)
        return f

    def resolve(self, node):
        k = ast.dump(node)
        if k not in self._resolved:
            try:
                self._resolved[k] = self.ix.resolve_expr(self.m, node)
            except Exception:
                self._resolved[k] = None
        return self._resolved[k]

    def module_getattr(self, mod):
        def ga(name):
            c = mod.classes.get(name)
            if c is not None and c.outer is None:
                return NS('class ' + name, _classinfo=c)
            return OPQ
        return ga

    def _isinstance(self, o, c):
        cs = c if isinstance(c, tuple) else (c,)
        if isinstance(o, NS) and o.__dict__.get('_cls') is not None and all(isinstance(x, NS) and x.__dict__.get('_classinfo') is not None for x in cs):
            mro = self.ix.mro(o.__dict__['_cls'])
            return any(k is x.__dict__['_classinfo'] for k in mro for x in cs)
        return OPQ

    def mock_node(self, modname, clsname, **kw):
        c = self.ix.cls(modname, clsname)
        return NS(clsname, _ctor=clsname, _cls=c, _getattr=self.class_getattr(c), args=[], **kw)

    def class_getattr(self, cls):
        def ga(name):
            a = self.ix.find_class_attr(cls, name)
            if a is None or not isinstance(a[1], ast.AST) or isinstance(a[1], (ast.FunctionDef, ast.ClassDef)):
                return OPQ
            try:
                return MiniPy(self.glob).eval(a[1], Env(None, MiniPy(self.glob).globals))
            except (Unsupported, Raised, Undecidable, Stopped):
                return OPQ
        return ga

    def recorder(self):
        model = self

        def emit(s='', *a, **k):
            model.note_text(s)
            return NS('ctxmgr')
        rec = NS('code', add_code_line=emit, add_code_chunk=emit, indenter=emit, putln=emit, put_chunk=emit, _ctor='TemplateCode')
        rec.insertion_point = lambda: rec
        rec.indent = lambda: None
        rec.dedent = lambda: None
        rec.add_extra_statements = lambda stats: model.note_extra(stats)
        return rec

    def note_text(self, s):
        text = s if isinstance(s, str) else s.prefix if isinstance(s, PStr) else None
        if text is None:
            return
        for line in text.split('\n'):
            mm = DEF_RE.match(line)
            if mm:
                self.events.append(('emit', mm.group(1) or mm.group(2)))

    def note_extra(self, stats):
        if not isinstance(stats, (list, tuple)):
            return
        for st in stats:
            if isinstance(st, NS) and st.__dict__.get('_ctor') == 'SingleAssignmentNode':
                lhs, rhs = st.__dict__.get('lhs'), st.__dict__.get('rhs')
                if isinstance(lhs, NS) and isinstance(lhs.__dict__.get('name'), str) and isinstance(rhs, NS) and rhs.__dict__.get('_ctor') == 'NoneNode':
                    self.events.append(('assign-none', lhs.__dict__['name']))

    def hook(self, interp, call, env):
        if self.scanning:
            return NOT_HANDLED
        f = call.func
        if isinstance(f, ast.Attribute) and f.attr in ('lookup_here', 'lookup') and len(call.args) == 1:
            if isinstance(f.value, (ast.Name, ast.Attribute)):
                recv = interp.eval(f.value, env)
                if isinstance(recv, NS) and f.attr in recv.__dict__:
                    return NOT_HANDLED          # a mock scope that answers itself (e.g. the scope of a base type)
            name = interp.eval(call.args[0], env)
            if isinstance(name, str) and name in self.entries:
                return self.entries[name]
            if isinstance(name, str) and name in self.explicit:
                if self.explicit[name] == 'base-class':     # defined by a cdef base class only: neither Scope.lookup() (enclosing scopes) nor lookup_here() of the class scope see it
                    return None
                return NS('entry ' + name, is_special=True) if self.explicit[name] else None
            if isinstance(name, str) and self.undefined_dunders and re.fullmatch(r'__\w+__', name):
                return None      # scenario: the class defines no special method other than the one under test
            return OPQ
        if isinstance(f, ast.Name) and env.get(f.id) is not OPQ:
            return NOT_HANDLED
        if isinstance(f, ast.Attribute) and f.attr == 'from_pairs':
            args = interp._seq(call.args, env) or []
            return NS('DictNode', _ctor='DictNode', pairs=args[1] if len(args) > 1 else OPQ)
        r = self.resolve(f) if isinstance(f, (ast.Name, ast.Attribute)) else None
        if not r:
            return NOT_HANDLED
        if r[0] == 'class':
            args = interp._seq(call.args, env)
            kwargs = {}
            for k in call.keywords:
                v = interp.eval(k.value, env)
                if k.arg is not None:
                    kwargs[k.arg] = v
            c = r[1]
            if c.name in ('EncodedString', 'BytesLiteral') and args:
                return args[0]
            kwargs.pop('_name', None)
            return NS(c.name, _ctor=c.name, _cls=c, _getattr=self.class_getattr(c), args=args or [], **{k: v for k, v in kwargs.items() if k != 'args'})
        if r[0] == 'func':
            fmod, fdef = r[1], r[2]
            if fmod is not self.m:
                if fdef.name == 'error':
                    self.events.append(('error',))
                    return None
                if fdef.name in ('warning', 'warn_once'):
                    return None
                return NOT_HANDLED
            args = interp._seq(call.args, env)
            if args is None:
                return OPQ
            kwargs = {}
            for k in call.keywords:
                v = interp.eval(k.value, env)
                if k.arg is None:
                    if isinstance(v, dict):
                        kwargs.update(v)
                else:
                    kwargs[k.arg] = v
            self.calls.append(dict(name=fdef.name, fn=fdef, call=call, args=args, kwargs=kwargs, env=env))
            if fdef.name in self.inline_skip:
                return OPQ
            return interp.call_closure(Closure(fdef, Env(None, interp.globals)), args, kwargs)
        return NOT_HANDLED

    def on_stop(self, interp, closure, st):
        """Tail of a function the evaluator cannot decide: record what it may emit (flow-insensitively)."""
        self.stopped_in[getattr(closure.fn, 'name', '?')] = st.why
        self.scanning = True
        try:
            for s in st.rest:
                for n in ast.walk(s):
                    if isinstance(n, ast.Call) and n.args and isinstance(n.args[0], (ast.Constant, ast.JoinedStr, ast.BinOp)):
                        try:
                            v = interp.eval(n.args[0], st.env)
                        except (Unsupported, Raised, Undecidable, Stopped):
                            continue
                        self.note_text(v)
        finally:
            self.scanning = False
        return OPQ

    def interp(self):
        return MiniPy(self.glob, hook=self.hook, on_stop=self.on_stop)

    def run(self, fdef, args, kwargs=None, explicit=None, inline_skip=(), undefined_dunders=False):
        self.events, self.calls, self.explicit = [], [], dict(explicit or {})
        self.undefined_dunders = undefined_dunders
        self.inline_skip = set(inline_skip)
        self.stopped_in = {}
        it = self.interp()
        try:
            it.call_closure(Closure(fdef, Env(None, it.globals)), args, kwargs or {})
        except Unsupported as e:
            raise AnalysisError('Dataclass.%s cannot be evaluated: %s' % (fdef.name, e))
        except Stopped as s:
            raise AnalysisError('Dataclass.%s cannot be evaluated: %s' % (fdef.name, s.why))
        return list(self.events), list(self.calls)

    # ------------------------------------------------------------------ the dataclasses module mock
    def imports_dataclasses(self, cname):
        for d in self.ctx.cat.decls.get(cname, []):
            if d.kind == 'func' and d.body and re.search(r'PyImport_Import\w*\s*\(\s*(?:\w+\s*\(\s*)?"dataclasses"', d.body):
                return True
        return False

    def is_dc_module(self, v):
        if not isinstance(v, NS) or v.__dict__.get('_ctor') != 'PythonCapiCallNode':
            return False
        vals = list(v.__dict__.get('args') or []) + [x for k, x in v.__dict__.items() if not k.startswith('_')]
        return any(isinstance(a, str) and self.imports_dataclasses(a) for a in vals)


# ======================================================================================= analysis of handle_cclass_dataclass
def analyse_handle(model):
    fn = model.fn('handle_cclass_dataclass')
    params = [a.arg for a in fn.args.args]
    none_params = set()
    for n in walk_no_nested(fn):
        if isinstance(n, ast.Compare) and isinstance(n.left, ast.Name) and n.left.id in params and len(n.ops) == 1 and \
                isinstance(n.ops[0], (ast.Is, ast.IsNot)) and isinstance(n.comparators[0], ast.Constant) and n.comparators[0].value is None:
            none_params.add(n.left.id)
    if not none_params:
        raise AnalysisError('handle_cclass_dataclass: the decorator-arguments parameter (compared with None) was not found')
    module_fns = set(model.m.functions)
    skip = module_fns - {f for f in module_fns if f.startswith('make_')}
    args = [None if p in none_params else OPQ for p in params]
    events, calls = model.run(fn, args, inline_skip=skip)
    # the options dict: the local subscripted with constant keys in arguments of calls to module-level functions
    cand = {}
    for c in calls:
        for a in list(c['call'].args) + [k.value for k in c['call'].keywords]:
            if isinstance(a, ast.Subscript) and isinstance(a.value, ast.Name) and isinstance(a.slice, ast.Constant) and isinstance(a.slice.value, str):
                cand[a.value.id] = cand.get(a.value.id, 0) + 1
    if not cand:
        raise AnalysisError('handle_cclass_dataclass: no generate_*(…, options[\'name\'], …) calls found')
    optvar = max(cand, key=cand.get)
    env = calls[0]['env']
    options = env.get(optvar)
    if not isinstance(options, dict) or not options or not all(isinstance(v, bool) for v in options.values()):
        raise AnalysisError('handle_cclass_dataclass: options dict %s is not a dict of booleans (%r)' % (optvar, options))
    alias = {}
    for n in walk_no_nested(fn):
        if isinstance(n, ast.Assign) and len(n.targets) == 1 and isinstance(n.targets[0], ast.Name) and isinstance(n.value, ast.Subscript) and \
                isinstance(n.value.value, ast.Name) and n.value.value.id == optvar and isinstance(n.value.slice, ast.Constant):
            alias[n.targets[0].id] = n.value.slice.value

    def role_of(a):
        if isinstance(a, ast.Subscript) and isinstance(a.value, ast.Name) and a.value.id == optvar and isinstance(a.slice, ast.Constant):
            return a.slice.value
        if isinstance(a, ast.Name) and a.id in alias:
            return alias[a.id]
        return None
    gens = []
    for c in calls:
        fdef = c['fn']
        pos = [a.arg for a in fdef.args.posonlyargs + fdef.args.args]
        roles, values, argnames = {}, {}, {}
        for i, a in enumerate(c['call'].args):
            if i < len(pos):
                values[pos[i]] = c['args'][i]
                if role_of(a):
                    roles[pos[i]] = role_of(a)
                if isinstance(a, ast.Name):
                    argnames[pos[i]] = a.id
        for k in c['call'].keywords:
            if k.arg:
                values[k.arg] = c['kwargs'].get(k.arg, OPQ)
                if role_of(k.value):
                    roles[k.arg] = role_of(k.value)
                if isinstance(k.value, ast.Name):
                    argnames[k.arg] = k.value.id
        if any(isinstance(a, ast.Subscript) and role_of(a) for a in list(c['call'].args) + [k.value for k in c['call'].keywords]):
            gens.append(dict(fn=fdef, roles=roles, values=values, argnames=argnames, line=c['call'].lineno))
    helper_calls = []
    for c in calls:
        vals = list(c['args']) + list(c['kwargs'].values())
        tgt = [v for v in vals if isinstance(v, NS) and v.__dict__.get('_ctor') == 'AttributeNode' and model.is_dc_module(v.__dict__.get('obj'))]
        kw = [v for v in vals if isinstance(v, NS) and v.__dict__.get('_ctor') == 'DictNode']
        if tgt and kw:
            helper_calls.append((tgt[0].__dict__.get('attribute'), kw[0].__dict__.get('pairs'), c['call'].lineno))
    def helper_of(calls):
        out = []
        for c in calls:
            vals = list(c['args']) + list(c['kwargs'].values())
            tgt = [v for v in vals if isinstance(v, NS) and v.__dict__.get('_ctor') == 'AttributeNode' and model.is_dc_module(v.__dict__.get('obj'))]
            kw = [v for v in vals if isinstance(v, NS) and v.__dict__.get('_ctor') == 'DictNode']
            if tgt and kw:
                out.append((tgt[0].__dict__.get('attribute'), kw[0].__dict__.get('pairs'), c['call'].lineno))
        return out
    # the same function evaluated for a decorator call that passes ONE option with the non-default value
    flips = {}
    for k, dv in options.items():
        dargs = ([], {k: model.mock_node('Compiler.ExprNodes', 'BoolNode', value=not dv)})
        a2 = [dargs if p in none_params else OPQ for p in params]
        ev2, calls2 = model.run(fn, a2, inline_skip=skip)
        got = {}
        for c in calls2:
            fdef = c['fn']
            pos = [x.arg for x in fdef.args.posonlyargs + fdef.args.args]
            for i, v in enumerate(c['args']):
                if i < len(pos):
                    got[(fdef.name, pos[i])] = v
            for kk, v in c['kwargs'].items():
                got[(fdef.name, kk)] = v
        flips[k] = dict(values=got, helper_calls=helper_of(calls2), errors=[e for e in ev2 if e == ('error',)])
    return dict(fn=fn, optvar=optvar, options=options, gens=gens, helper_calls=helper_calls, flips=flips)


# ======================================================================================= OPT
def rule_OPT(model, info):
    r = Rule('C30-OPT', 'options of cython.dataclasses.dataclass: names/defaults vs inspect.signature(dataclasses.dataclass); keywords passed to _DataclassParams', floor=16)
    fn = info['fn']
    ref = inspect.signature(dataclasses.dataclass).parameters
    for k, v in sorted(info['options'].items()):
        key = 'Dataclass.handle_cclass_dataclass:option:' + k
        r.inst(key, sample='%s=%r (stdlib: %s)' % (k, v, ref[k].default if k in ref else 'absent'))
        if k not in ref or ref[k].kind is not inspect.Parameter.KEYWORD_ONLY:
            r.violate(key, model.rel, fn.lineno, 'cython.dataclasses.dataclass accepts the option %r, which dataclasses.dataclass does not have (accepted options: %s)' % (
                k, ', '.join(p for p in ref if ref[p].kind is inspect.Parameter.KEYWORD_ONLY)))
        elif ref[k].default != v:
            r.violate(key, model.rel, fn.lineno, 'option %r defaults to %r, dataclasses.dataclass(%s=%r) is the stdlib default: a class that does not pass %s behaves differently' % (k, v, k, ref[k].default, k))
    found = False

    def passed_of(attr, pairs):
        if not isinstance(pairs, list):
            raise AnalysisError('keywords passed to dataclasses.%s are not a list the checker can evaluate' % attr)
        passed = {}
        for p in pairs:
            if not (isinstance(p, tuple) and len(p) == 2 and isinstance(p[0], NS) and isinstance(p[0].__dict__.get('value'), str)):
                raise AnalysisError('keyword pair passed to dataclasses.%s is not (IdentifierStringNode(name), value)' % attr)
            val = p[1].__dict__.get('value', OPQ) if isinstance(p[1], NS) else OPQ
            passed.setdefault(p[0].__dict__['value'], []).append(val)
        return passed
    # every option, passed with its non-default value, reaches the generators and __dataclass_params__ with that value
    for k, dv in sorted(info['options'].items()):
        fl = info['flips'][k]
        key = 'Dataclass.handle_cclass_dataclass:pass:' + k
        r.inst(key, sample='@dataclass(%s=%r) -> generators see %r' % (k, not dv, not dv))
        if fl['errors']:
            r.violate(key, model.rel, fn.lineno, '@dataclass(%s=%r) is rejected with a compile error although %r is an accepted option' % (k, not dv, k))
            continue
        for g in info['gens']:
            for param, role in g['roles'].items():
                if role == k:
                    v = fl['values'].get((g['fn'].name, param), OPQ)
                    if v is not (not dv):
                        r.violate(key + ':' + g['fn'].name, model.rel, g['line'], '@dataclass(%s=%r): %s still receives %s=%r (the user\'s value is not the one the generator sees)' % (k, not dv, g['fn'].name, param, v))
        for attr, pairs, line in fl['helper_calls']:
            if isinstance(attr, str) and hasattr(dataclasses, attr):
                vals = passed_of(attr, pairs).get(k)
                if vals is not None and not all(v is (not dv) for v in vals):
                    r.violate(key + ':' + attr, model.rel, line, '@dataclass(%s=%r): __dataclass_params__.%s is recorded as %r' % (k, not dv, k, vals))
    for attr, pairs, line in info['helper_calls']:
        if not isinstance(attr, str):
            raise AnalysisError('attribute of the dataclasses module used for __dataclass_params__ is not a constant')
        if not hasattr(dataclasses, attr):
            found = True
            r.inst('Dataclass.handle_cclass_dataclass:' + attr)
            r.violate('Dataclass.handle_cclass_dataclass:' + attr, model.rel, line, '__dataclass_params__ is built by calling dataclasses.%s, which does not exist (AttributeError when the compiled module is imported)' % attr)
            continue
        target = getattr(dataclasses, attr)
        try:
            spec = inspect.getfullargspec(target)
        except TypeError:
            continue
        found = True
        passed = passed_of(attr, pairs)
        required = [a for a in spec.args if a not in ('self', '_cls')]
        for a in required:
            key = 'Dataclass.handle_cclass_dataclass:%s:%s' % (attr, a)
            r.inst(key, sample='%s(%s=%r)' % (attr, a, passed.get(a)))
            if a not in passed:
                r.violate(key, model.rel, line, 'dataclasses.%s requires the argument %r, which Cython does not pass: __Pyx_DataclassesCallHelper substitutes None with a RuntimeWarning, so __dataclass_params__.%s is None instead of a bool' % (attr, a, a))
                continue
            vals = passed[a]
            if a in info['options']:
                if not all(v is info['options'][a] or v == info['options'][a] for v in vals):
                    r.violate(key, model.rel, line, '__dataclass_params__.%s is set to %r, not to the value of the %r option (%r by default)' % (a, vals, a, info['options'][a]))
            elif a in ref and ref[a].default is not inspect.Parameter.empty:
                # an option Cython does not implement must be reported with the stdlib default
                if not all(v == ref[a].default and isinstance(v, bool) for v in vals):
                    r.violate(key, model.rel, line, '__dataclass_params__.%s is reported as %r, but the option is not implemented by Cython and its stdlib default is %r' % (a, vals, ref[a].default))
    if not found:
        raise AnalysisError('handle_cclass_dataclass: the call that builds __dataclass_params__ through the dataclasses module was not found')
    r.positive_control('nonsense' not in ref and ref['order'].default is False, 'reference has order=False and no option `nonsense`')
    return r


# ======================================================================================= FLD
def field_defaults(model):
    """Evaluate Field.__init__(pos) -> {option: effective default}, accepted names."""
    ix = model.ix
    cls = model.m.classes.get('Field')
    if cls is None or '__init__' not in cls.methods:
        raise AnalysisError('Dataclass.Field.__init__ vanished')
    init = cls.methods['__init__']
    a = init.args
    positional = [p.arg for p in a.posonlyargs + a.args][1:]          # without self
    by_keyword = {p.arg for p in a.args + a.kwonlyargs}               # positional-only parameters cannot be set by a keyword
    params = positional + [p.arg for p in a.kwonlyargs]
    # parameters bound positionally at every Field(...) call site cannot be set by a user's keyword
    npos = None
    for n in ast.walk(model.m.tree):
        if isinstance(n, ast.Call) and isinstance(n.func, ast.Name) and n.func.id == 'Field':
            k = sum(1 for x in n.args if not isinstance(x, ast.Starred))
            npos = k if npos is None else min(npos, k)
    if npos is None:
        raise AnalysisError('no Field(...) call site in Dataclass.py')
    accepted = [p for p in params[npos:] if p in by_keyword]
    obj = NS('Field', _ctor='Field', _getattr=model.class_getattr(cls))
    it = MiniPy(model.glob, hook=model.hook)
    stopped = None
    try:
        it.call_closure(Closure(init, Env(None, it.globals)), [obj] + [OPQ] * npos, {})
    except Stopped as s:
        stopped = s
    except Unsupported as e:
        raise AnalysisError('Field.__init__ cannot be evaluated: %s' % e)
    if stopped is not None:
        for s in stopped.rest:
            for n in ast.walk(s):
                if isinstance(n, ast.Attribute) and isinstance(n.ctx, ast.Store) and isinstance(n.value, ast.Name) and n.value.id == (a.posonlyargs + a.args)[0].arg and n.attr in accepted:
                    raise AnalysisError('Field.__init__ assigns self.%s after a test the checker cannot decide' % n.attr)
    out = {}
    for p in accepted:
        v = _safe_getattr(obj, p)
        if isinstance(v, NS) and v.__dict__.get('_sentinel'):
            out[p] = ('sentinel', v.__dict__['_sentinel'])
        elif isinstance(v, NS) and v.__dict__.get('_ctor') == 'BoolNode':
            out[p] = ('value', v.__dict__.get('value', OPQ))
        elif isinstance(v, NS) and v.__dict__.get('_ctor') == 'NoneNode':
            out[p] = ('value', None)
        elif v is OPQ or isinstance(v, NS):
            out[p] = ('unknown', v)
        else:
            out[p] = ('value', v)
    return cls, init, accepted, out


def fragment_attr_stores(model):
    """Attributes assigned on __dataclass_fields__[name] in source-text fragments (f-strings parsed as Python)."""
    out = []
    for fname, fdef in model.m.functions.items():
        for n in ast.walk(fdef):
            if not isinstance(n, ast.JoinedStr):
                continue
            text = ''
            for p in n.values:
                if isinstance(p, ast.Constant):
                    text += p.value
                else:
                    text += "'X'" if p.conversion == ord('r') else 'PLACEHOLDER'
            if '__dataclass_fields__' not in text:
                continue
            import textwrap
            try:
                tree = ast.parse(textwrap.dedent(text))
            except SyntaxError:
                raise AnalysisError('Dataclass.%s: the __dataclass_fields__ fragment is not parsable as Python: %r' % (fname, text[:60]))
            for s in ast.walk(tree):
                if isinstance(s, ast.Attribute) and isinstance(s.ctx, ast.Store) and isinstance(s.value, ast.Subscript) and \
                        isinstance(s.value.value, ast.Name) and s.value.value.id == '__dataclass_fields__':
                    out.append((fname, s.attr, n.lineno))
    return out


def module_attr_sites(model):
    """AttributeNode(obj=<the imported dataclasses module>, attribute=NAME) constructions -> [(function, NAME, line)]"""
    m = model.m
    loaders = set()
    for fname, fdef in m.functions.items():
        if any(isinstance(c, ast.Constant) and isinstance(c.value, str) and model.imports_dataclasses(c.value) for c in ast.walk(fdef)):
            loaders.add(fname)
    if not loaders:
        raise AnalysisError('Dataclass.py: no function builds the call to the helper that imports the dataclasses module')
    modnames = {f: set() for f in m.functions}
    changed = True
    while changed:
        changed = False
        for fname, fdef in m.functions.items():
            for n in ast.walk(fdef):
                if isinstance(n, ast.Assign) and isinstance(n.value, ast.Call) and isinstance(n.value.func, ast.Name) and n.value.func.id in loaders:
                    for t in n.targets:
                        if isinstance(t, ast.Name) and t.id not in modnames[fname]:
                            modnames[fname].add(t.id)
                            changed = True
                if isinstance(n, ast.Call) and isinstance(n.func, ast.Name) and n.func.id in m.functions and n.func.id not in loaders:
                    callee = m.functions[n.func.id]
                    cp = [a.arg for a in callee.args.args]
                    for i, a in enumerate(n.args):
                        if isinstance(a, ast.Name) and a.id in modnames[fname] and i < len(cp) and cp[i] not in modnames[n.func.id]:
                            modnames[n.func.id].add(cp[i])
                            changed = True
                    for k in n.keywords:
                        if k.arg and isinstance(k.value, ast.Name) and k.value.id in modnames[fname] and k.arg not in modnames[n.func.id]:
                            modnames[n.func.id].add(k.arg)
                            changed = True
    sites = []
    for fname, fdef in m.functions.items():
        for n in ast.walk(fdef):
            if isinstance(n, ast.Call) and node_src(n.func).split('.')[-1] == 'AttributeNode':
                kw = {k.arg: k.value for k in n.keywords if k.arg}
                o, at = kw.get('obj'), kw.get('attribute')
                if isinstance(o, ast.Name) and o.id in modnames[fname] and at is not None:
                    if isinstance(at, ast.Call) and at.args:
                        at = at.args[0]
                    v = tables.literal(at)
                    if not isinstance(v, str):
                        raise AnalysisError('Dataclass.%s: attribute name looked up on the dataclasses module is not a literal' % fname)
                    sites.append((fname, v, n.lineno))
    return sites


def rule_FLD(model):
    r = Rule('C30-FLD', 'cython.dataclasses.field options vs inspect.signature(dataclasses.field); recorded field keys; attributes of stdlib Field / dataclasses module that Cython relies on', floor=21)
    cls, init, accepted, dflt = field_defaults(model)
    ref = inspect.signature(dataclasses.field).parameters

    def ref_default(p):
        d = ref[p].default
        return ('sentinel', 'MISSING') if d is dataclasses.MISSING else ('value', d)
    for p in accepted:
        key = 'Dataclass.Field.__init__:' + p
        r.inst(key, sample='field(%s=...) default %r' % (p, dflt[p][1]))
        if p not in ref:
            r.violate(key, model.rel, init.lineno, 'cython.dataclasses.field(%s=...) is accepted silently (Field.__init__ has a parameter %r that the keyword arguments of a user\'s field() call are passed into), '
                      'whereas dataclasses.field() raises TypeError for it (accepted: %s)' % (p, p, ', '.join(ref)))
            continue
        if dflt[p][0] == 'unknown':
            raise AnalysisError('Field.__init__: effective default of %r cannot be determined (%r)' % (p, dflt[p][1]))
        if dflt[p] != ref_default(p):
            r.violate(key, model.rel, init.lineno, 'field option %r defaults to %r in Cython but to %r in dataclasses.field: fields that do not pass %s behave differently '
                      '(e.g. are left out of / put into __repr__, __eq__, __init__, __hash__)' % (p, dflt[p][1], ref_default(p)[1], p))
    # keys recorded into __dataclass_fields__ through dataclasses.field(**keys)
    it_fn = cls.methods.get('iterate_record_node_arguments')
    if it_fn is None:
        raise AnalysisError('Field.iterate_record_node_arguments vanished')
    loops = [n for n in walk_no_nested(it_fn) if isinstance(n, ast.For)]
    if len(loops) != 1:
        raise AnalysisError('Field.iterate_record_node_arguments: expected one loop over the recorded keys')
    selfname = it_fn.args.args[0].arg
    mp = MiniPy(model.glob)
    env = Env(None, mp.globals)
    env.set(selfname, NS('Field', _getattr=model.class_getattr(cls)))
    try:
        keys = mp.eval(loops[0].iter, env)
    except (Unsupported, Raised, Undecidable) as e:
        raise AnalysisError('Field.iterate_record_node_arguments: key list cannot be evaluated: %s' % e)
    if not isinstance(keys, (tuple, list)) or not all(isinstance(k, str) for k in keys):
        raise AnalysisError('Field.iterate_record_node_arguments: key list is not a tuple of strings: %r' % (keys,))
    attrs = set(model.ix.defined_attrs(cls))
    for k in model.ix.mro(cls):          # self.<x> = ... in methods whose `self` may be positional-only
        for meth in k.methods.values():
            every = meth.args.posonlyargs + meth.args.args
            if every:
                attrs |= {n.attr for n in ast.walk(meth) if isinstance(n, ast.Attribute) and isinstance(n.ctx, ast.Store) and isinstance(n.value, ast.Name) and n.value.id == every[0].arg}
    for k in keys:
        key = 'Dataclass.Field.record:' + k
        r.inst(key, sample='recorded key %s' % k)
        if k not in ref:
            r.violate(key, model.rel, loops[0].lineno, 'Field records the key %r for __dataclass_fields__, but dataclasses.field() has no such parameter: the call helper drops it, so the stdlib Field object gets the default instead of the user\'s value' % k)
        if k not in attrs:
            r.violate(key + ':attr', model.rel, loops[0].lineno, 'Field.iterate_record_node_arguments reads self.%s, which Field never defines (AttributeError while compiling any cdef dataclass)' % k)
    # attributes stored on stdlib Field objects
    slots = set(getattr(dataclasses.Field, '__slots__', ()))
    if not slots:
        raise AnalysisError('dataclasses.Field has no __slots__ on this interpreter')
    stores = fragment_attr_stores(model)
    if not stores:
        raise AnalysisError('no __dataclass_fields__[...].attr assignments found in Dataclass.py')
    for fname, attr, line in stores:
        key = 'Dataclass.%s:__dataclass_fields__.%s' % (fname, attr)
        r.inst(key, sample='__dataclass_fields__[name].%s = ...' % attr)
        if attr not in slots:
            r.violate(key, model.rel, line, 'the generated class body assigns __dataclass_fields__[name].%s, but dataclasses.Field.__slots__ is %s: AttributeError when the module is imported '
                      '(dataclasses.fields()/asdict() rely on name, type and _field_type)' % (attr, sorted(slots)))
    need = {'name', 'type', '_field_type'}
    for a in sorted(need - {s[1] for s in stores}):
        r.inst('Dataclass:__dataclass_fields__.%s:set' % a)
        r.violate('Dataclass:__dataclass_fields__.%s:set' % a, model.rel, 1, 'the stdlib Field attribute %r (left None by dataclasses.field()) is never filled in: dataclasses.fields() of a cdef dataclass is wrong' % a)
    # attributes of the dataclasses module
    sites = module_attr_sites(model)
    if len(sites) < 4:
        raise AnalysisError('only %d attribute lookups on the dataclasses module found' % len(sites))
    for fname, attr, line in sites:
        key = 'Dataclass.%s:dataclasses.%s' % (fname, attr)
        r.inst(key, sample='dataclasses.%s' % attr)
        if not hasattr(dataclasses, attr):
            r.violate(key, model.rel, line, 'Dataclass.%s looks up dataclasses.%s at import time of the compiled module; the dataclasses module has no such attribute (AttributeError)' % (fname, attr))
    r.positive_control('is_initvar' not in ref and ref_default('compare') == ('value', True), 'reference: no option is_initvar, compare=True')
    return r


# ======================================================================================= GEN / HASH / CMP
def outcome(events, method):
    if ('error',) in events:
        return 'error'
    if ('emit', method) in events:
        return 'gen'
    if ('assign-none', method) in events:
        return 'none'
    return 'skip'


def generator_args(model, g, role_values):
    fdef = g['fn']
    args, kwargs = [], {}
    pos = [a.arg for a in fdef.args.posonlyargs + fdef.args.args]
    kwo = [a.arg for a in fdef.args.kwonlyargs]

    def val(p):
        if p in g['roles']:
            return role_values[g['roles'][p]]
        v = g['values'].get(p, OPQ)
        if isinstance(v, NS) and v.__dict__.get('_ctor') == 'TemplateCode':
            return model.recorder()
        return OPQ
    for p in pos:
        args.append(val(p))
    for p in kwo:
        if p in g['values'] or p in g['roles']:
            kwargs[p] = val(p)
    return args, kwargs


def stdlib_outcome(options, method, explicit):
    """What dataclasses.dataclass(**options) does with `method` on a one-field class that does / does not define it."""
    ns = {'__annotations__': {'x': int}}
    marker = ('zz',) if method == '__match_args__' else (lambda self, *a: None)
    if explicit:
        ns[method] = marker
    cls = type('P', (), ns)
    try:
        cls = dataclasses.dataclass(**options)(cls)
    except (TypeError, ValueError):
        return 'error'
    got = cls.__dict__.get(method, dataclasses.MISSING)
    if explicit:
        return 'skip' if got is marker else ('none' if got is None else 'gen')
    if got is dataclasses.MISSING:
        return 'skip'
    return 'none' if got is None else 'gen'


def probe_operator(op):
    """Name of the special method the interpreter calls for `a <op> b`."""
    log = []

    def mk(name):
        def f(self, other):
            log.append(name)
            return True
        return f
    P = type('P', (), {n: mk(n) for n in ('__lt__', '__le__', '__gt__', '__ge__', '__eq__', '__ne__')})
    if op not in CMP_OPS:
        return None
    eval(compile(ast.Expression(ast.parse('a %s b' % op, mode='eval').body), '<probe>', 'eval'), {'a': P(), 'b': P()})
    return log[0] if log else None


def rules_GEN(model, info):
    rg = Rule('C30-GEN', 'per generate_* call of handle_cclass_dataclass: (option values, class defines the method itself) -> generated / left alone / rejected equals dataclasses.dataclass', floor=34)
    rh = Rule('C30-HASH', 'generate_hash_code decision over (unsafe_hash, eq, frozen, explicit __hash__) equals dataclasses._hash_action (16 cells)', floor=16)
    rc = Rule('C30-CMP', 'operator <-> special-method pairs handed to the comparison generator are the interpreter\'s', floor=4)
    table = getattr(dataclasses, '_hash_action', None)
    if not isinstance(table, dict) or len(table) != 16:
        raise AnalysisError('dataclasses._hash_action is not the 16-entry table on this interpreter')
    action_name = {None: 'skip', '_hash_set_none': 'none', '_hash_add': 'gen', '_hash_exception': 'error'}
    defaults = info['options']
    hash_seen = False
    pairs = {}
    for g in info['gens']:
        fdef = g['fn']
        role_names = sorted(set(g['roles'].values()))
        if not role_names:
            continue
        # discovery: which methods can this generator define at all?
        methods = set()
        for combo in itertools.product((True, False), repeat=len(role_names)):
            rv = dict(defaults)
            rv.update(zip(role_names, combo))
            a, k = generator_args(model, g, rv)
            events, calls = model.run(fdef, a, k, explicit={}, undefined_dunders=True)
            methods |= {e[1] for e in events if e[0] in ('emit', 'assign-none')}
            for c in calls:
                vals = [v for v in list(c['args']) + list(c['kwargs'].values()) if isinstance(v, str)]
                ops = [v for v in vals if v in CMP_OPS]
                names = [v for v in vals if re.fullmatch(r'__\w+__', v)]
                if len(ops) == 1 and len(names) == 1:
                    pairs[(ops[0], names[0])] = c['call'].lineno
        methods = {mm for mm in methods if re.fullmatch(r'__\w+__', mm)}
        if not methods:
            raise AnalysisError('Dataclass.%s: no generated method/attribute found in its code' % fdef.name)
        is_hash = methods == {'__hash__'} and {'unsafe_hash', 'eq', 'frozen'} <= set(role_names)
        g['methods'], g['gen_rv'] = sorted(methods), {}
        for method in sorted(methods):
            for combo in itertools.product((False, True), repeat=len(role_names)):
                rv = dict(defaults)
                rv.update(zip(role_names, combo))
                for explicit in (False, True):
                    a, k = generator_args(model, g, rv)
                    try:
                        events, _ = model.run(fdef, a, k, explicit={method: explicit}, undefined_dunders=True)
                    except Raised as e:
                        key = 'Dataclass.%s:crash' % fdef.name
                        rg.inst(key)
                        if not any(f.construct == key for f in rg.findings):
                            rg.violate(key, model.rel, getattr(e.node, 'lineno', fdef.lineno), 'Dataclass.%s raises %s for @dataclass(%s)' % (fdef.name, e.what, ', '.join('%s=%s' % x for x in zip(role_names, combo))))
                        continue
                    got = outcome(events, method)
                    flips = sum(1 for n in role_names if rv[n] != defaults[n])
                    if got == 'gen' and not explicit and (method not in g['gen_rv'] or flips < g['gen_rv'][method][1]):
                        g['gen_rv'][method] = (dict(rv), flips)
                    cell = ', '.join('%s=%s' % (n, v) for n, v in zip(role_names, combo))
                    word = {'gen': 'generates %s' % method, 'skip': 'leaves %s alone' % method, 'none': 'sets %s = None' % method, 'error': 'rejects the class with an error'}
                    if is_hash:
                        hash_seen = True
                        key = 'Dataclass.%s:(%s, explicit=%s)' % (fdef.name, cell, explicit)
                        want = action_name.get(getattr(table[(rv['unsafe_hash'], rv['eq'], rv['frozen'], explicit)], '__name__', None), '?')
                        rh.inst(key, sample='%s -> %s' % (key, got))
                        if got != want:
                            rh.violate(key, model.rel, fdef.lineno, 'for @dataclass(%s) on a class that %s __hash__, Cython %s, dataclasses._hash_action says: %s' % (
                                cell, 'defines' if explicit else 'does not define', word[got], word.get(want, want)))
                        continue
                    opts = {n: v for n, v in zip(role_names, combo)}
                    want = stdlib_outcome(opts, method, explicit)
                    key = 'Dataclass.%s:%s:(%s, explicit=%s)' % (fdef.name, method if len(methods) == 1 else '*', cell, explicit)
                    rg.inst('Dataclass.%s:%s:(%s, explicit=%s)' % (fdef.name, method, cell, explicit), sample='%s %s -> %s' % (fdef.name, cell, got))
                    if got != want:
                        if not any(f.construct == key for f in rg.findings):
                            rg.violate(key, model.rel, fdef.lineno, 'for @dataclass(%s) on a class that %s %s, Cython %s, whereas dataclasses.dataclass %s' % (
                                cell, 'defines' if explicit else 'does not define', method if len(methods) == 1 else 'one of ' + '/'.join(sorted(methods)) + ' (e.g. %s)' % method,
                                word[got], word[want].replace('generates', 'generates').replace('rejects the class with an error', 'raises TypeError')))
    if not hash_seen:
        raise AnalysisError('the call generate_hash_code(code, options[unsafe_hash], options[eq], options[frozen], ...) was not found in handle_cclass_dataclass')
    if not pairs:
        raise AnalysisError('no (operator, method name) pairs reach the comparison generator')
    for (op, name), line in sorted(pairs.items()):
        key = 'Dataclass:cmp:%s' % name
        rc.inst(key, sample='%s <-> %s' % (op, name))
        want = probe_operator(op)
        if want != name:
            rc.violate(key, model.rel, line, 'the comparison generator is asked to implement %s with the operator %r, but `a %s b` calls %s: the generated ordering methods are mixed up' % (name, op, op, want))
    rc.positive_control(probe_operator('<=') == '__le__' and probe_operator('<') != '__le__', 'interpreter maps <= to __le__')
    rg.positive_control(stdlib_outcome({'order': True}, '__lt__', True) == 'error' and stdlib_outcome({'eq': False}, '__eq__', False) == 'skip' and
                        stdlib_outcome({'init': True}, '__init__', False) == 'gen', 'stdlib probes distinguish gen/skip/error')
    rh.positive_control(action_name.get(getattr(table[(False, True, False, False)], '__name__', None)) == 'none', '_hash_action default cell sets __hash__ = None')
    return [rg, rh, rc]


# ======================================================================================= BODY — generated code evaluated
class TextRecorder:
    """Stand-in for TemplateCode/PyxCodeWriter that keeps the emitted source text with its indentation."""
    def __init__(self, model):
        self.lines, self.level, self.model = [], 0, model
        self.opaque = False

    def _put(self, s):
        if isinstance(s, PStr) or s is OPQ:
            self.opaque = True
            s = (s.prefix if isinstance(s, PStr) else '') + ' <?>'
        self.lines.append('    ' * self.level + str(s))

    def mock(self):
        import textwrap
        rec = self

        def add_code_line(s='', *a):
            rec._put(s)

        def add_code_chunk(s='', *a):
            if isinstance(s, str):
                for line in textwrap.dedent(s).strip('\n').split('\n'):
                    rec.lines.append(('    ' * rec.level + line) if line.strip() else '')
            else:
                rec._put(s)

        def indenter(s='', *a):
            rec._put(s)

            def enter():
                rec.level += 1

            def leave():
                rec.level -= 1
            return NS('indenter', _enter=enter, _exit=leave)

        def indent():
            rec.level += 1

        def dedent():
            rec.level -= 1
        ns = NS('code', add_code_line=add_code_line, add_code_chunk=add_code_chunk, indenter=indenter, indent=indent, dedent=dedent,
                putln=add_code_line, put_chunk=add_code_chunk, _ctor='TemplateCode')
        ns.insertion_point = lambda: ns
        ns.add_extra_statements = lambda stats: None
        return ns

    def text(self):
        return '\n'.join(self.lines)


def python_of(text, what):
    """Generated Cython source -> Python AST (cdef declarations dropped, <T> casts removed)."""
    out = []
    for line in text.split('\n'):
        if re.match(r'^\s*cdef\s', line):
            continue
        out.append(re.sub(r'<\s*[\w.]+\s*>(?=\s*[\w(])', '', line))
    try:
        return ast.parse('\n'.join(out))
    except SyntaxError as e:
        raise AnalysisError('code generated by %s is not parsable as Python after dropping cdef lines/casts: %s' % (what, e))


def make_field(model, flags):
    """A Field as process_class_get_fields builds it: Field(pos, **keyword nodes), then is_initvar."""
    cls = model.m.classes['Field']
    init = cls.methods['__init__']
    obj = NS('Field', _ctor='Field', _cls=cls, _getattr=model.class_getattr(cls))
    kw = {}
    for k in ('init', 'repr', 'compare', 'hash'):
        if flags.get(k) is not None:
            kw[k] = model.mock_node('Compiler.ExprNodes', 'BoolNode', value=flags[k])
    if flags.get('default') is not None:
        kw['default'] = model.mock_node('Compiler.ExprNodes', 'IntNode', value=str(flags['default']))
    if flags.get('factory'):
        kw['default_factory'] = model.mock_node('Compiler.ExprNodes', 'NameNode', name='list', _factory=True)
    it = MiniPy(model.glob, hook=model.hook)
    try:
        it.call_closure(Closure(init, Env(None, it.globals)), [obj, OPQ], kw)
    except Stopped:
        pass
    except Unsupported as e:
        raise AnalysisError('Field.__init__ cannot be evaluated: %s' % e)
    obj.__dict__['is_initvar'] = bool(flags.get('initvar'))
    obj.__dict__['is_classvar'] = False
    return obj


def FACTORY():
    return ['made by the default factory']


def std_class(fields, **opts):
    specs = []
    for name, fl in fields:
        kw = {k: fl[k] for k in ('init', 'repr', 'compare', 'hash') if fl.get(k) is not None}
        if fl.get('default') is not None:
            kw['default'] = fl['default']
        if fl.get('factory'):
            kw['default_factory'] = FACTORY
        specs.append((name, dataclasses.InitVar[int] if fl.get('initvar') else int, dataclasses.field(**kw)))
    return dataclasses.make_dataclass('K', specs, **opts)


def emit_body(model, g, method, fields_cfg, caller_names, recorder=None, explicit=None, rv_override=None, want_events=False, entry_type=None):
    """Run generator g (options set so that `method` is generated) on concrete fields -> emitted source text.
    recorder: TextRecorder-like object to use; explicit: {special method name: defined by the class?}; rv_override: option values to force;
    want_events: return (text, events, recorder) instead of the text."""
    fdef = g['fn']
    if method not in g['gen_rv']:
        raise AnalysisError('Dataclass.%s: no option combination generates %s' % (fdef.name, method))
    rv = dict(g['gen_rv'][method][0])
    rv.update(rv_override or {})
    pos = [a.arg for a in fdef.args.posonlyargs + fdef.args.args]
    kwo = [a.arg for a in fdef.args.kwonlyargs]
    inv = {v: k for k, v in g['argnames'].items()}
    fields_param, node_param = inv.get(caller_names['fields']), inv.get(caller_names['node'])
    if fields_param is None or node_param is None:
        raise AnalysisError('Dataclass.%s: cannot tell which parameters are the field dict and the class node' % fdef.name)
    rec = recorder if recorder is not None else TextRecorder(model)
    fields = {name: make_field(model, fl) for name, fl in fields_cfg}
    node = NS('node', class_name='K', scope=NS('scope'), **dict({'base_type': None}, **getattr(model, 'node_extras', {})))

    def val(p):
        if p in g['roles']:
            return rv[g['roles'][p]]
        if p == fields_param:
            return fields
        if p == node_param:
            return node
        v = g['values'].get(p, OPQ)
        if isinstance(v, NS) and v.__dict__.get('_ctor') == 'TemplateCode':
            return rec.mock()
        return 'CS_PLACEHOLDER'
    args = [val(p) for p in pos]
    kwargs = {p: val(p) for p in kwo}
    model.entries = {name: NS('entry ' + name, type=entry_type if entry_type is not None else NS('type', is_memoryviewslice=False, is_pyobject=False, is_gc_simple=True), annotation=None)
                     for name, _ in fields_cfg}
    expl = {mm: False for mm in ('__init__', '__repr__', '__eq__', '__lt__', '__le__', '__gt__', '__ge__', '__hash__', '__match_args__', '__post_init__')}
    expl.update(explicit or {})
    try:
        events, _ = model.run(fdef, args, kwargs, explicit=expl)
    finally:
        model.entries = {}
    if model.stopped_in.get(fdef.name):
        raise AnalysisError('Dataclass.%s cannot be evaluated on concrete fields: %s' % (fdef.name, model.stopped_in[fdef.name]))
    if rec.opaque:
        raise AnalysisError('Dataclass.%s emits text the checker cannot determine: %r' % (fdef.name, [l for l in rec.text().split('\n') if '<?>' in l][:2]))
    if want_events:
        return rec.text(), events, rec
    return rec.text()


def _mock_isinstance(o, c):
    """isinstance on the class tokens of the mock instances (NS `__class__` with an optional `_bases` tuple)"""
    k = o.__dict__.get('__class__') if isinstance(o, NS) else None
    if not isinstance(k, NS) or not isinstance(c, NS):
        return OPQ
    return k is c or any(b is c for b in k.__dict__.get('_bases', ()))


def run_generated(tree, name, args, extra_globals=None):
    g = {'NotImplemented': NotImplemented, 'CS_PLACEHOLDER': lambda *a: NS('cs'), 'getattr': _safe_getattr, 'isinstance': _mock_isinstance,
         'type': lambda o: NS('type', __qualname__='Outer.K', __name__='K'), 'hash': lambda t: ('HASH', t), 'id': lambda o: id(o)}
    g.update(extra_globals or {})
    try:
        cached = getattr(tree, '_c30_loaded', None)
        if cached is None:
            it = MiniPy(g, max_steps=10 ** 7)
            env = Env(None, it.globals)
            it.exec_block(tree.body, env)
            tree._c30_loaded = cached = (it, env)
        it, env = cached
        f = env.get(name)
        if not isinstance(f, Closure):
            return ('MISSING',)
        return it.call_closure(f, args, {})
    except Stopped as s:
        raise AnalysisError('generated %s cannot be evaluated: %s' % (name, s.why))
    except Unsupported as e:
        raise AnalysisError('generated %s cannot be evaluated: %s' % (name, e))


def rule_BODY(model, info):
    r = Rule('C30-BODY', 'generated __match_args__/__hash__/__repr__/__eq__/ordering code, evaluated for small field lists, agrees with the stdlib dataclass built from the same field options', floor=420)
    emitter = {}
    for g in info['gens']:
        for mm in g.get('methods', []):
            emitter.setdefault(mm, g)
    need = ['__match_args__', '__hash__', '__repr__', '__eq__', '__lt__', '__le__', '__gt__', '__ge__']
    for mm in need:
        if mm not in emitter:
            raise AnalysisError('no generate_* call of handle_cclass_dataclass produces %s' % mm)
    seen = {}

    def bad(key, line, msg):
        seen.setdefault(key, (line, msg))
    # which local of handle_cclass_dataclass is the field dict / the class node: decided by how the generators use the parameter it is bound to
    caller_names = {}
    for g in info['gens']:
        fdef = g['fn']
        for n in ast.walk(fdef):
            if isinstance(n, ast.Attribute) and isinstance(n.value, ast.Name) and n.value.id in g['argnames']:
                if n.attr in ('items', 'keys', 'values'):
                    caller_names.setdefault('fields', g['argnames'][n.value.id])
                if n.attr == 'scope':
                    caller_names.setdefault('node', g['argnames'][n.value.id])
    if set(caller_names) != {'fields', 'node'}:
        raise AnalysisError('handle_cclass_dataclass: cannot tell which locals are the field dict and the class node')
    # ---- __match_args__
    cfg = [('a', {}), ('b', {'init': False, 'default': 0}), ('c', {'initvar': True, 'default': 5}), ('d', {'repr': False, 'compare': False, 'default': 1})]
    g = emitter['__match_args__']
    text = emit_body(model, g, '__match_args__', cfg, caller_names)
    tree = python_of(text, g['fn'].name)
    got = None
    for st in tree.body:
        if isinstance(st, ast.Assign) and isinstance(st.targets[0], ast.Name) and st.targets[0].id == '__match_args__':
            got = tables.literal(st.value)
    want = std_class(cfg).__match_args__
    for name, fl in cfg:
        key = 'Dataclass.%s:%s' % (g['fn'].name, 'init=False' if fl.get('init') is False else 'initvar' if fl.get('initvar') else 'plain' if not fl else 'other')
        r.inst(key + ':' + name, sample='__match_args__ member %s: cython %s / stdlib %s' % (name, name in (got or ()), name in want))
        if got is None:
            bad('Dataclass.%s:text' % g['fn'].name, g['fn'].lineno, 'no `__match_args__ = (...)` assignment is generated (%r)' % text[:80])
        elif (name in got) != (name in want):
            bad(key, g['fn'].lineno, '__match_args__ of a cdef dataclass %s the %s field %r (fields a; b=field(init=False); c: InitVar; d=field(repr=False, compare=False) give %r), the stdlib dataclass gives %r: '
                'positional class patterns `case K(x, y)` bind different attributes' % ('contains' if name in got else 'lacks', key.rsplit(':', 1)[1], name, got, want))
    if got is not None and [n for n in got if n in want] != [n for n in want if n in got]:
        bad('Dataclass.%s:order' % g['fn'].name, g['fn'].lineno, '__match_args__ order %r differs from the stdlib\'s %r' % (got, want))
    # ---- __hash__ : which fields take part
    cfg = [('a', {}), ('b', {'compare': False}), ('c', {'hash': False}), ('d', {'hash': True, 'compare': False}), ('e', {'hash': True})]
    g = emitter['__hash__']
    text = emit_body(model, g, '__hash__', cfg, caller_names)
    tree = python_of(text, g['fn'].name)
    vals = {name: 100 + i for i, (name, _) in enumerate(cfg)}
    res = run_generated(tree, '__hash__', [NS('self', **vals)])
    if not (isinstance(res, tuple) and len(res) == 2 and res[0] == 'HASH' and isinstance(res[1], tuple)):
        raise AnalysisError('generated __hash__ does not return hash(<tuple>): %r' % (res,))
    K = std_class(cfg, unsafe_hash=True)
    base = [0] * len(cfg)
    for i, (name, fl) in enumerate(cfg):
        other = list(base)
        other[i] = 1
        in_std = hash(K(*base)) != hash(K(*other))
        in_cy = vals[name] in res[1]
        desc = ', '.join('%s=%r' % kv for kv in sorted(fl.items())) or 'default options'
        key = 'Dataclass.%s:field(%s)' % (g['fn'].name, desc)
        r.inst(key, sample='hash uses field(%s): cython %s / stdlib %s' % (desc, in_cy, in_std))
        if in_cy != in_std:
            bad(key, g['fn'].lineno, 'the generated __hash__ %s a field declared with field(%s); the stdlib dataclass %s it (rule: `compare if hash is None else hash`)%s' % (
                'includes' if in_cy else 'omits', desc, 'includes' if in_std else 'omits',
                ': instances that compare equal hash differently' if (in_cy and fl.get('compare') is False) else ''))
    order_cy = [n for n in (k for v in res[1] for k, vv in vals.items() if vv == v)]
    if order_cy != [n for n, _ in cfg if n in order_cy]:
        bad('Dataclass.%s:order' % g['fn'].name, g['fn'].lineno, 'the generated __hash__ hashes the fields in the order %r, not in definition order' % order_cy)
    # ---- __repr__
    cfg = [('a', {}), ('b', {'repr': False}), ('c', {'compare': False})]
    g = emitter['__repr__']
    text = emit_body(model, g, '__repr__', cfg, caller_names)
    tree = python_of(text, g['fn'].name)
    K = std_class(cfg)
    K.__qualname__ = 'Outer.K'      # a nested class: the stdlib repr prints the qualified name
    for values in ((1, 2, 3), (0, -5, 7)):
        res = run_generated(tree, '__repr__', [NS('self', **dict(zip([n for n, _ in cfg], values)))])
        want = repr(K(*values))
        key = 'Dataclass.%s:text' % g['fn'].name
        r.inst(key + ':%r' % (values,), sample='repr %r' % (res,))
        if res != want:
            bad(key, g['fn'].lineno, 'the generated __repr__ of K(a, b=field(repr=False), c=field(compare=False)) gives %r for %r, the stdlib dataclass gives %r' % (res, values, want))
    # ---- __eq__ and ordering
    cfgs = [[('a', {}), ('b', {})], [('a', {'compare': False}), ('b', {})], [('a', {}), ('b', {'compare': False}), ('c', {})], []]
    ops = {'__eq__': lambda x, y: x == y, '__lt__': lambda x, y: x < y, '__le__': lambda x, y: x <= y, '__gt__': lambda x, y: x > y, '__ge__': lambda x, y: x >= y}
    for cfg in cfgs:
        names = [n for n, _ in cfg]
        K = std_class(cfg, order=True)
        trees = {}
        for method in ops:
            g = emitter[method]
            if id(g) not in trees:
                trees[id(g)] = python_of(emit_body(model, g, method, cfg, caller_names), g['fn'].name)
        grid = list(itertools.product((0, 1), repeat=len(names)))
        for method, pyop in ops.items():
            g = emitter[method]
            tree = trees[id(g)]
            desc = ', '.join('%s%s' % (n, '(compare=False)' if fl.get('compare') is False else '') for n, fl in cfg) or 'no fields'
            key = 'Dataclass.%s:%s' % (g['fn'].name, method)
            for v1 in grid:
                for v2 in grid:
                    cls_token = NS('class K')
                    a = NS('self', **dict(zip(names, v1), **{'__class__': cls_token}))
                    b = NS('other', **dict(zip(names, v2), **{'__class__': cls_token}))
                    res = run_generated(tree, method, [a, b])
                    want = pyop(K(*v1), K(*v2))
                    r.inst('%s:[%s]:%r%r' % (key, desc, v1, v2))
                    if res is not want:
                        bad(key, g['fn'].lineno, 'the generated %s for fields [%s] returns %r for K%r vs K%r, the stdlib dataclass (tuple comparison of the compare=True fields) gives %r' % (method, desc, res, v1, v2, want))
            # operand of another class -> NotImplemented
            a = NS('self', **dict(zip(names, grid[0]), **{'__class__': NS('class K')}))
            b = NS('other', **dict(zip(names, grid[0]), **{'__class__': NS('class L')}))
            res = run_generated(tree, method, [a, b])
            r.inst('%s:[%s]:other-class' % (key, desc))
            if res is not NotImplemented:
                bad(key + ':other-class', g['fn'].lineno, 'the generated %s returns %r for an operand of a different class; the stdlib dataclass returns NotImplemented' % (method, res))
            # operand of a SUBCLASS: the stdlib compares only instances of exactly the same class
            kcls = NS('class K')
            a = NS('self', **dict(zip(names, grid[0]), **{'__class__': kcls}))
            b = NS('other', **dict(zip(names, grid[0]), **{'__class__': NS('class SubK', _bases=(kcls,))}))
            res = run_generated(tree, method, [a, b])
            r.inst('%s:[%s]:subclass' % (key, desc))
            if res is not NotImplemented:
                bad(key + ':subclass', g['fn'].lineno, 'the generated %s returns %r when the other operand is an instance of a SUBCLASS; the stdlib dataclass returns NotImplemented '
                    '(`other.__class__ is self.__class__`)' % (method, res))
    for key, (line, msg) in sorted(seen.items()):
        r.violate(key, model.rel, line, msg)
    # positive control: a wrong comparison body is noticed by the same evaluation
    ctl = ast.parse("def __lt__(self, other):\n    if other.__class__ is not self.__class__: return NotImplemented\n    if self.a < other.a: return True\n    return True\n")
    a = NS('self', a=1, **{'__class__': 1})
    r.positive_control(run_generated(ctl, '__lt__', [a, NS('o', a=0, **{'__class__': 1})]) is True and run_generated(ctl, '__lt__', [a, NS('o', a=0, **{'__class__': 2})]) is NotImplemented,
                       'evaluation of a generated comparison distinguishes results')
    return r


def rule_V1(ctx, model):
    cls = model.m.classes.get('RemoveAssignmentsToNames')
    if cls is None:
        raise AnalysisError('Dataclass.RemoveAssignmentsToNames vanished')
    r = treerules.rule_V1_visit(ctx, visitors=[cls], floor=4)
    names = treerules.node_class_names(ctx.index)
    r.positive_control('SingleAssignmentNode' in names and 'SingleAssignNode' not in names, 'a misspelt node class name is not in the hierarchy')
    return r


def run(ctx):
    model = Model(ctx)
    try:
        info = analyse_handle(model)
    except Raised as e:
        r = Rule('C30-OPT', 'handle_cclass_dataclass can be evaluated for a plain @dataclass class', floor=1)
        r.inst('Dataclass.handle_cclass_dataclass:crash')
        r.violate('Dataclass.handle_cclass_dataclass:crash', model.rel, getattr(e.node, 'lineno', 1),
                  'handle_cclass_dataclass raises %s for every cdef dataclass (line %s: %s)' % (e.what, getattr(e.node, 'lineno', '?'), node_src(e.node, 80) if e.node is not None else ''))
        return [r, rule_FLD(model), rule_V1(ctx, model)]
    first = [rule_OPT(model, info), rule_FLD(model)] + rules_GEN(model, info)
    from ..rules import sC30
    methods_rule = sC30.rule_methods(model, info)
    first.append(methods_rule)
    try:
        body = rule_BODY(model, info)
    except AnalysisError as e:
        # BODY evaluates what the generators emit when they do generate; if the generation decisions / operator pairs are
        # already reported as wrong (GEN, HASH, CMP findings) the run fails on those and BODY is recorded as not evaluated.
        if not any(r.findings for r in first if r.id in ('C30-GEN', 'C30-HASH', 'C30-CMP', 'C30-METHODS')):
            raise
        body = Rule('C30-BODY', 'generated method source vs the stdlib dataclass — NOT EVALUATED in this run (see info)', floor=0)
        body.info('not evaluated because C30-GEN/HASH/CMP already report violations and the generated code could not be analysed: %s' % e)
    extra = []
    for fn in (sC30.rule_init, sC30.rule_initvar, sC30.rule_hash_shape, sC30.rule_repr_guard):
        try:
            extra.append(fn(model, info))
        except AnalysisError as e:
            # like BODY: these rules evaluate what the generators emit; when GEN/HASH/CMP already report the generation decisions as wrong they are recorded as not evaluated
            if not any(r.findings for r in first if r.id in ('C30-GEN', 'C30-HASH', 'C30-CMP', 'C30-METHODS')):
                raise
            nr = Rule(fn.__name__.replace('rule_', 'C30-').upper(), 'NOT EVALUATED in this run (see info)', floor=0)
            nr.info('not evaluated because C30-GEN/HASH/CMP already report violations: %s' % e)
            extra.append(nr)
    # sC30.rule_mutable_complete(ctx): armed after the repair 52deae914 (FINDING_2: a bytearray default is accepted by the unmodified tree)
    # sC30.rule_postinit_inherited(model, info): armed after the repair f5dc1bf46 (FINDING_4: a __post_init__ inherited from a cdef base class is not called)
    return first + [body] + extra + [sC30.rule_fields(ctx), sC30.rule_frozen(ctx), rule_V1(ctx, model), sC30.rule_mutable_complete(ctx), sC30.rule_postinit_inherited(model, info)]
