"""C13 — builtin call and method optimisations preserve semantics (core of the IFACE family)."""
from ..rules import handlers, typed, iface, trn, sC13, s7C13

ID = 'C13'
TECHNIQUE = ('resolved interface analysis: handler-name resolution against builtin tables, typed helper call vs C prototype (utility catalogue + CPython headers), '
             'finite length-domain dataflow for argument lists, role table for injected integer parameters; '
             'USCORE: the separator-stripping loops of the float() parsers are extracted as finite automata (own C statement interpreter) and the product with the '
             'strtod grammar and CPython\'s separator rule is explored completely; NONEARG: path enumeration of the injection helper per call site with the literal '
             'table values (whitelisted evaluator), writer/reader agreement with the consumer\'s presence test and C conditional template; '
             'tree-builder interpreter (rules/pC01.py TB): every method handler is run per number of arguments on symbolic nodes and the emitted C call (name, argument list, '
             'declared return type) is tabulated; reference tables from the library / C-API reference; '
             'LinSym (rules/sC13.py): symbolic execution of C helpers on integer linear forms with path conditions, infeasible paths pruned by Fourier-Motzkin elimination, '
             'candidate and reference (CPython\'s algorithm in the same C subset) compared path pair by path pair; index-status path enumeration (engine of C15) for list.pop(i); '
             'round 7 (rules/s7C13.py): decision trees of C macros (nested ?:) and functions (if / else / early return) with path conditions for identity shortcuts; the encode / decode '
             'handlers run by the tree-builder interpreter on a complete abstract partition of (encoding, errors) and compared with the C-API reference')
DECIDES = ('V1h: every _handle_* optimisation handler names an existing builtin function / method of a builtin type; '
           'I3: at every typed helper call site the number of arguments passed equals the C arity and the declared argument/return categories and exception value agree with the C prototype; '
           'I4: every BuiltinFunction/BuiltinMethod table row agrees with the C prototype of its C function; '
           'I5/I6: helper calls emitted as text have the declared arity and no mutually swapped name-carrying arguments; '
           'HARG: every args[k] read in a handler is admitted by its length guards (no IndexError in the compiler); '
           'TRN2: integer parameters of optimised str/bytes methods are injected according to their documented role (None is the default only for slice bounds), TRN2b: injection helpers append a default only when the argument is absent; '
           'USCORE: no text accepted by a `_`-stripping copy loop of the optimised float() (and complete for PyOS_string_to_double after stripping) has an underscore next to '
           '`_`, `.`, `e`, `E` or at the end — exactly the texts for which CPython raises ValueError (the exponent-sign rows and the non-ASCII copy loop were defects, repaired: rule C13-USCORE-PENDING keeps guarding them); '
           'NONEARG: for every call site of an argument-injection helper: where a literal None selects the default a run-time None does too, the C value stored for the '
           'run-time None equals the statically injected default, survives the consumer\'s own presence test (truthiness vs `is not None`), and the consumer\'s C '
           'conditional selects it exactly when the argument is None; '
           'POPIX: in the Py_ssize_t-index container helpers (list.pop(i) fast path) items are only touched after a successful bounds test of a wrapped index, and a rejected '
           'or length-added index reaches the generic (self-wrapping) fallback only in its original form; '
           'MINMAX (= C01-MINMAX) and ANYALL: the trees built for min/max and any/all(genexpr) have the comparison / early-exit semantics of the builtins for every outcome; '
           'HTAB: for every _handle_simple_method_* handler and 1..5 arguments: omitted arguments are filled with the method\'s default (start 0, end PY_SSIZE_T_MAX, maxsplit / '
           'count -1, sep NULL, dict default None), direction constants of startswith/endswith/find/rfind agree with the C-API reference, NULL is only passed to a parameter '
           'the C helper tests (or forwards to one that does) and - round 8 - that the helper READS in every preprocessor configuration: a helper that ignores the parameter (no use, or only unused-variable markers) cannot tell m(a) from m(a, x), reported when the result is used, or unused and the method is in the reference table of methods whose omitted argument is observable without the result (dict.pop: KeyError, dict.setdefault: stored value); a helper declared to return a status code replaces a value-returning method only when the result is unused, '
           '`is_<attr>` flag arguments have the polarity of the attribute they are computed from; '
           'TABNAME: BuiltinMethod rows and per-type C name selections name the helper of that method / type (the helper calls the method of that name, or C-API naming); '
           'WITHERR: PyErr_Occurred() is consulted on the NULL path of PyDict_GetItemWithError / _PyDict_GetItem_KnownHash; '
           'SLICE: __Pyx_PyBytes_SingleTailmatch equals CPython\'s tailmatch() and __Pyx_PyUnicode_Substring equals slicing for ALL start / end / length values (linear-form '
           'path pairs), all memory accesses inside the object; LISTPOP: the list.pop fast paths decrement the size only for a provably non-empty list, return element n-1 / '
           'the wrapped index, move the tail by one; TRISTATE: a helper raises its own exception only where the latest three-valued C-API result cannot be -1.')
NOT_DECIDED = ('that each C helper agrees with the builtin it replaces on every argument value (known findings: slice bounds beyond Py_ssize_t raise OverflowError, '
               'ord("") raises ValueError).  USCORE models the copy loop only: the callers\' whitespace stripping, the inf/nan pre-filter (assumed to reject a text '
               'whose first character after a sign is `_`), buffer sizes and loop bounds (see FINDING_2) and strtod itself are not decided.  NONEARG decides the '
               'special_none_cvalue channel of the _inject_* helpers, not the conversion function that handles non-None values.  HTAB models coercion / none-check wrappers '
               'as identity, covers the handlers the tree-builder interpreter can run (6 handler/arity combinations give up and are listed as info) and a frozen reference table '
               'for 13 methods; _handle_simple_function_* handlers that query the symbol table (isinstance, len of C types ...) are not run: brainstormed mutants isinstance-exact, '
               'isinstance-and (which type check / which boolean operator joins the per-type tests) and ord-length-guard (guard of a constant folding) are left unreported.  '
               'SLICE / LISTPOP / TRISTATE decide the helpers named in their rule texts; CPython API functions called by them are trusted.  CODEC trusts _find_special_codec_name (modelled as: the row of _special_encodings naming the same codec) and the C helpers __Pyx_decode_* (decode_func preferred over encoding); '
               'IDENT covers helpers whose general path calls a C-API constructor of its reference table on the same operand.  A Fourier-Motzkin "feasible" answer is '
               'rational: a report is only made with an integer witness, a proof of agreement is exact.')
ASSUMPTIONS = ['PyOS_string_to_double consumes exactly  [+-]? (D+ (. D*)? | . D+) ([eE] [+-]? D+)?  of an ASCII text without underscores (CPython pystrtod.c)',
               'float() of CPython accepts an underscore only between two digits (_Py_string_to_number_with_underscores)',
               'the callers of the copy loops reject a text whose first character after an optional sign is neither a digit nor `.` (the *_inf_nan pre-filters)']
EXEMPT = {('C13-IDENT', '__Pyx_PyNumber_Long(x) -> PyNumber_Index/PyNumber_Long'):
          'not a stand-in for int(): the helper is the integer coercion of %d formatting and of the C integer conversions, whose CPython references '
          '(unicodeobject.c mainformatlong: `if (!PyLong_Check(v)) PyNumber_Long(v) else iobj = v`; PyLong_AsLong) pass an int subclass instance through unchanged'}
MUTATIONS = [   # (file, single edit on a scratch copy, rule that reported it)
    ('Cython/Utility/Optimize.c', "seed C13b: bytes copy: is_punctuation without (chr == 'e') | (chr == 'E')", 'C13-USCORE'),
    ('Cython/Utility/Optimize.c', "bytes copy: is_punctuation without (chr == '.')", 'C13-USCORE'),
    ('Cython/Utility/Optimize.c', "bytes copy: final `parse_error_found |= last_was_punctuation;` removed ('1_' accepted)", 'C13-USCORE'),
    ('Cython/Utility/Optimize.c', "bytes copy: last_was_punctuation = (chr == '_') instead of is_punctuation", 'C13-USCORE'),
    ('Cython/Utility/Optimize.c', "unicode copy: final `if (last_was_punctuation) goto parse_failure;` removed", 'C13-USCORE'),
    ('Cython/Utility/Optimize.c', "bytes copy: parse_error_found = ... instead of |= (flag no longer sticky)", 'C13-USCORE'),
    ('Cython/Compiler/Optimize.py', "seed C13a: _inject_int_default_argument normalises decimal defaults to int and stores the int in special_none_cvalue", 'C13-NONEARG'),
    ('Cython/Compiler/Optimize.py', "_inject_int_default_argument: arg.special_none_cvalue = '0' (constant) -> PY_SSIZE_T_MAX call sites disagree", 'C13-NONEARG'),
    ('Cython/Compiler/Optimize.py', "_inject_int_default_argument: `if none_is_default and isinstance(...)` -> `if not none_is_default and ...`", 'C13-NONEARG'),
    ('Cython/Compiler/Optimize.py', "_inject_int_default_argument: the store statement replaced by pass", 'ANALYSIS-ERROR (channel vanished, exit 2)'),
    ('Cython/Compiler/PyrexTypes.py', "_assign_from_py_code: (source_code, special_none_cvalue, convert_call) -> (source_code, convert_call, special_none_cvalue)", 'C13-NONEARG'),
    ('Cython/Compiler/PyrexTypes.py', "_assign_from_py_code: template `(__Pyx_Py_IsNone(%s) ? ...` -> `(!__Pyx_Py_IsNone(%s) ? ...`", 'C13-NONEARG'),
    # fourth round: every mutant below is stored with its patch and outcome under mutants/C13/<name>/ (replayed by the thorough tier)
    ('Cython/Utility/Optimize.c', "seed C13d, c-popindex-nowrap, c-popindex-fallback-wrapped", 'C13-POPIX'),
    ('Cython/Compiler/Optimize.py', "anyall-result-swapped, anyall-negation-swapped / minmax-operands", 'C13-ANYALL / C13-MINMAX'),
    ('Cython/Compiler/Optimize.py', "dictget-null-default, dictpop-ignore-inverted, pop-signed-flag, tailmatch-direction, bytes-tailmatch-direction, find-direction, "
                                    "split-default-maxsplit, count-default-end, replace-default-count", 'C13-HTAB'),
    ('Cython/Compiler/Builtin.py, Optimize.py', "table-keys-values, table-set-add-discard, table-reverse-sort, len-wrong-type-func", 'C13-TABNAME'),
    ('Cython/Utility/Optimize.c, ObjectHandling.c', "c-dictget-error-swallowed, c-globals-lookup-error", 'C13-WITHERR'),
    ('Cython/Utility/StringTools.c', "c-bytes-tailmatch-{clamp,endclamp,direction}, c-substring-{stop-clamp,start-noclamp}", 'C13-SLICE'),
    ('Cython/Utility/Optimize.c', "c-listpop-empty, c-listpop-item, c-popindex-shift-count, c-popindex-no-shrink", 'C13-LISTPOP'),
    ('Cython/Utility/Optimize.c', "c-setremove-error-as-missing", 'C13-TRISTATE'),
    ('Cython/Utility/*.c, Optimize.py, ExprNodes.py', "round 7: seed C13i, ident-{tuple,int,str,abs}-check, ident-list-no-unique, ident-frozenset-anyset, ident-float-wrongtype / site-{list,merged}-no-temp, site-sorted-negated", 'C13-IDENT / C13-IDENT-SITE'),
    ('Cython/Compiler/Optimize.py', "round 7: seed C13j, codec-encode-{guard-ignore,args-swapped,dash-guard,1arg-latin1}, codec-decode-{errors-null,wrong-codec}, codec-unpack-strict-inverted", 'C13-CODEC'),
    ('behaviour-preserving (all silent)', "round 7: ok-ident-list-negated, ok-ident-frozenset-istype, ok-site-list-local, ok-codec-encode-nested, ok-codec-unpack-rewrite, ok-codec-decode-keep-encoding", 'silent'),
    ('not reported (declined)', "isinstance-exact, isinstance-and, ord-length-guard: see NOT_DECIDED", 'none'),
    ('Cython/Compiler/Optimize.py, Utility/Optimize.c', "round 8 (session K4): seed C13l (dict.pop(k) as a statement gets __Pyx_PyDict_Pop_ignore), k4-dictpop-ignore-{after-append,2args-explicit,hoisted,helper-variant}, "
                                                       "k4-c-dictpop-{ignores-default,untested-313}", 'C13-HTAB null-ignored / null'),
    ('not reported (declined)', "k4-c-dictpop-none-for-null (`default_value ? default_value : Py_None` handed to _PyDict_Pop: the parameter is tested, the substituted value is wrong - C-API semantics)", 'none'),
    ('behaviour-preserving (all silent)', "round 8: k4-ok-dictpop-count-first, k4-ok-dictpop-flag-local, k4-ok-c-popignore-void-cast", 'silent'),
    ('behaviour-preserving (all silent)', "ok-anyall-rewrite, ok-popindex-rewrite (conditional expression, early-return fallback), ok-tailmatch-kwargs, ok-dictget-rewrite "
                                          "(else-if form), ok-len-table-order, ok-bytes-clamp-rewrite (nested ifs), ok-listpop-rewrite (size in a local), ok-setremove-rewrite "
                                          "(!found / found == -1), sum-operand-order (an edit inside the name-mangled, never dispatched __handle_simple_function_sum)", 'silent'),
    ('behaviour-preserving (all silent)',
     "bytes copy rewritten with renamed locals, `||`, early `return NULL` instead of the sticky flag and `if (chr != '_') buffer++`; unicode copy with a "
     "three-valued state variable instead of two gotos; call sites passing the int 0 instead of \"0\" (helper applies str()); consumer testing "
     "`special_none_cvalue is not None`; helper else-branch with early return, renamed local and '%s' % (default_value,)", 'silent'),
]


def _dD10():
    from ..rules import dD10
    return dD10


def run(ctx):
    # sC13.rule_uscore(ctx, pending=True) checks the constructs of FINDING_1 (float("1e+_5"), the non-ASCII copy loop)     # pending finding
    return [handlers.rule_V1h(ctx), typed.rule_I3(ctx), typed.rule_I4(ctx), iface.rule_I5(ctx), iface.rule_I6(ctx),
            handlers.rule_arg_guards(ctx), trn.rule_TRN2(ctx), trn.rule_TRN2b(ctx),
            sC13.rule_uscore(ctx), sC13.rule_uscore(ctx, pending=True), sC13.rule_nonearg(ctx), sC13.rule_popix(ctx), sC13.rule_minmax(ctx), sC13.rule_anyall(ctx), sC13.rule_htab(ctx), sC13.rule_tabname(ctx), sC13.rule_witherr(ctx), sC13.rule_slice(ctx), sC13.rule_listpop(ctx), sC13.rule_tristate(ctx),
            s7C13.rule_ident(ctx), s7C13.rule_ident_site(ctx), s7C13.rule_codec(ctx),
            _dD10().rule_idxovf(ctx)]         # C13-IDXOVF (rules/dD10.py), armed after the repairs 43a8e0658 and 23cdba3dd
