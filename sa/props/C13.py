"""C13 — builtin call and method optimisations preserve semantics (core of the IFACE family)."""
from ..rules import handlers, typed, iface, trn, sC13

ID = 'C13'
TECHNIQUE = ('resolved interface analysis: handler-name resolution against builtin tables, typed helper call vs C prototype (utility catalogue + CPython headers), '
             'finite length-domain dataflow for argument lists, role table for injected integer parameters; '
             'USCORE: the separator-stripping loops of the float() parsers are extracted as finite automata (own C statement interpreter) and the product with the '
             'strtod grammar and CPython\'s separator rule is explored completely; NONEARG: path enumeration of the injection helper per call site with the literal '
             'table values (whitelisted evaluator), writer/reader agreement with the consumer\'s presence test and C conditional template')
DECIDES = ('V1h: every _handle_* optimisation handler names an existing builtin function / method of a builtin type; '
           'I3: at every typed helper call site the number of arguments passed equals the C arity and the declared argument/return categories and exception value agree with the C prototype; '
           'I4: every BuiltinFunction/BuiltinMethod table row agrees with the C prototype of its C function; '
           'I5/I6: helper calls emitted as text have the declared arity and no mutually swapped name-carrying arguments; '
           'HARG: every args[k] read in a handler is admitted by its length guards (no IndexError in the compiler); '
           'TRN2: integer parameters of optimised str/bytes methods are injected according to their documented role (None is the default only for slice bounds), TRN2b: injection helpers append a default only when the argument is absent; '
           'USCORE: no text accepted by a `_`-stripping copy loop of the optimised float() (and complete for PyOS_string_to_double after stripping) has an underscore next to '
           '`_`, `.`, `e`, `E` or at the end — exactly the texts for which CPython raises ValueError (the exponent-sign rows and the non-ASCII copy loop were defects, repaired: rule C13-USCORE-PENDING keeps guarding them); '
           'NONEARG: for every call site of an argument-injection helper: where a literal None selects the default a run-time None does too, the C value stored for the '
           'run-time None equals the statically injected default, survives the consumer\'s own presence test (truthiness vs `is not None`), and the consumer\'s C '
           'conditional selects it exactly when the argument is None.')
NOT_DECIDED = ('that each C helper agrees with the builtin it replaces on every argument value (known findings: slice bounds beyond Py_ssize_t raise OverflowError, '
               'ord("") raises ValueError).  USCORE models the copy loop only: the callers\' whitespace stripping, the inf/nan pre-filter (assumed to reject a text '
               'whose first character after a sign is `_`), buffer sizes and loop bounds (see FINDING_2) and strtod itself are not decided.  NONEARG decides the '
               'special_none_cvalue channel of the _inject_* helpers, not the conversion function that handles non-None values.')
ASSUMPTIONS = ['PyOS_string_to_double consumes exactly  [+-]? (D+ (. D*)? | . D+) ([eE] [+-]? D+)?  of an ASCII text without underscores (CPython pystrtod.c)',
               'float() of CPython accepts an underscore only between two digits (_Py_string_to_number_with_underscores)',
               'the callers of the copy loops reject a text whose first character after an optional sign is neither a digit nor `.` (the *_inf_nan pre-filters)']
MUTATIONS = [   # (file, single edit on a scratch copy, rule that reported it)
    ('Cython/Utility/Optimize.c', "seed C13b: bytes copy: is_punctuation without (chr == 'e') | (chr == 'E')", 'C13-USCORE'),
    ('Cython/Utility/Optimize.c', "bytes copy: is_punctuation without (chr == '.')", 'C13-USCORE'),
    ('Cython/Utility/Optimize.c', "bytes copy: final `parse_error_found |= last_was_punctuation;` removed ('1_' accepted)", 'C13-USCORE'),
    ('Cython/Utility/Optimize.c', "bytes copy: last_was_punctuation = (chr == '_') instead of is_punctuation", 'C13-USCORE'),
    ('Cython/Utility/Optimize.c', "unicode copy: final `if (last_was_punctuation) goto parse_failure;` removed", 'C13-USCORE'),
    ('Cython/Utility/Optimize.c', "bytes copy: parse_error_found = ... instead of |= (flag no longer sticky)", 'C13-USCORE'),
    ('Cython/Compiler/Optimize.py', "seed C13a: _inject_int_default_argument normalises decimal defaults to int and stores the int in special_none_cvalue", 'C13-NONEARG'),
    ('Cython/Compiler/Optimize.py', "_inject_int_default_argument: arg.special_none_cvalue = '0' (constant) -> PY_SSIZE_T_MAX call sites disagree", 'C13-NONEARG'),
    ('Cython/Compiler/Optimize.py', "_inject_int_default_argument: `if none_is_default and isinstance(...)` -> `if not none_is_default and ...`", 'C13-NONEARG'),
    ('Cython/Compiler/Optimize.py', "_inject_int_default_argument: the store statement replaced by pass", 'ANALYSIS-ERROR (channel vanished, exit 2)'),
    ('Cython/Compiler/PyrexTypes.py', "_assign_from_py_code: (source_code, special_none_cvalue, convert_call) -> (source_code, convert_call, special_none_cvalue)", 'C13-NONEARG'),
    ('Cython/Compiler/PyrexTypes.py', "_assign_from_py_code: template `(__Pyx_Py_IsNone(%s) ? ...` -> `(!__Pyx_Py_IsNone(%s) ? ...`", 'C13-NONEARG'),
    ('behaviour-preserving (all silent)',
     "bytes copy rewritten with renamed locals, `||`, early `return NULL` instead of the sticky flag and `if (chr != '_') buffer++`; unicode copy with a "
     "three-valued state variable instead of two gotos; call sites passing the int 0 instead of \"0\" (helper applies str()); consumer testing "
     "`special_none_cvalue is not None`; helper else-branch with early return, renamed local and '%s' % (default_value,)", 'silent'),
]


def run(ctx):
    # sC13.rule_uscore(ctx, pending=True) checks the constructs of FINDING_1 (float("1e+_5"), the non-ASCII copy loop)     # pending finding
    return [handlers.rule_V1h(ctx), typed.rule_I3(ctx), typed.rule_I4(ctx), iface.rule_I5(ctx), iface.rule_I6(ctx),
            handlers.rule_arg_guards(ctx), trn.rule_TRN2(ctx), trn.rule_TRN2b(ctx),
            sC13.rule_uscore(ctx), sC13.rule_uscore(ctx, pending=True), sC13.rule_nonearg(ctx)]
