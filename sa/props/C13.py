"""C13 — builtin call and method optimisations preserve semantics (core of the IFACE family)."""
from ..rules import handlers, typed, iface, trn, sC13

ID = 'C13'
TECHNIQUE = 'resolved interface analysis: handler-name resolution against builtin tables, typed helper call vs C prototype (utility catalogue + CPython headers), finite length-domain dataflow for argument lists, role table for injected integer parameters'
DECIDES = ('V1h: every _handle_* optimisation handler names an existing builtin function / method of a builtin type; '
           'I3: at every typed helper call site the number of arguments passed equals the C arity and the declared argument/return categories and exception value agree with the C prototype; '
           'I4: every BuiltinFunction/BuiltinMethod table row agrees with the C prototype of its C function; '
           'I5/I6: helper calls emitted as text have the declared arity and no mutually swapped name-carrying arguments; '
           'HARG: every args[k] read in a handler is admitted by its length guards (no IndexError in the compiler); '
           'TRN2: integer parameters of optimised str/bytes methods are injected according to their documented role (None is the default only for slice bounds), TRN2b: injection helpers append a default only when the argument is absent.')
NOT_DECIDED = 'that each C helper agrees with the builtin it replaces on every argument value (known findings: slice bounds beyond Py_ssize_t raise OverflowError, ord("") raises ValueError).'


def run(ctx):
    return [handlers.rule_V1h(ctx), typed.rule_I3(ctx), typed.rule_I4(ctx), iface.rule_I5(ctx), iface.rule_I6(ctx),
            handlers.rule_arg_guards(ctx), trn.rule_TRN2(ctx), trn.rule_TRN2b(ctx),
            sC13.rule_uscore(ctx), sC13.rule_nonearg(ctx)]
