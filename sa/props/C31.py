"""C31 — match statements behave like CPython (structural clauses of the pattern node protocol, the C helper interface and the control-flow handler)."""
from ..rules import pC31, typed

ID = 'C31'
TECHNIQUE = ('class-graph resolution of the PatternNode hook protocol (abstract methods, arities, recursion into sub-pattern lists); typed helper-call checking against the '
             'C prototypes of MatchCase.c incl. variadic forwarding macros; name-correlated evaluation of helper names against the utility sections attached to the call; '
             'dispatch/order agreement between FlowControl.visit_MatchNode / visit_PatternNode and the code generators')
DECIDES = ('C31-L7: every PatternNode subclass created by Parsing.py overrides the abstract hooks MatchCaseNode calls on its pattern (get_main_pattern_targets, '
           'get_comparison_node, analyse_pattern_expressions), overrides get_simple_comparison_node whenever its is_simple_value_comparison can be true, and every override '
           'accepts the argument counts used at the polymorphic call sites. '
           'C31-TEMPS: pattern classes forward allocate/release/dispose_of_subject_temps to every sub-pattern list their analyse_pattern_expressions recurses into. '
           'I3: for all constant-named __Pyx_MatchCase_* typed calls, passed arity == C arity, declared categories/return/exception_value agree with the C prototype. '
           'C31-FWD: the #if variants of each variadic forwarding macro forward to the same function with the same number of injected arguments; passed + injected == C arity '
           'and the categories agree at the shifted positions. '
           'C31-SEC: the helper named in each PythonCapiCallNode is declared by the closure of the utility section attached to that same call, for every value of tag / '
           'util_code_name / suffix (Tempita names instantiated with the context passed by the loader call). '
           'C31-CFA: each class implementing the case protocol of MatchNode has an isinstance arm in ControlFlowAnalysis.visit_MatchNode; pattern, bindings, guard and body are '
           'visited, in generation order; child attributes holding capture targets are excluded from visit_PatternNode.')
NOT_DECIDED = ('the matching semantics (which case is selected, evaluation order inside a pattern, __match_args__ handling, Sequence/Mapping ABC tests, exceptions raised by the C '
               'helpers) are not decided. Dead Tempita branches for `tag` (P2) are not checked: each of them is an optimisation whose loss keeps the result (would be a false alarm).')
ASSUMPTIONS = ['the utility catalogue (sa/engine/cutil) parses MatchCase.c prototypes; helper names outside __Pyx_ (PyList_GetSlice) are CPython API and not checked by C31-SEC']
EXEMPT = {}

# ---- fourth round (sa/rules/sC31.py) -------------------------------------------------------------------------------------------------------------
TECHNIQUE += ('; (round 4) evaluation of the node-building methods of MatchCaseNodes.py / Parsing.py / FlowControl.py on mock nodes by the checker\'s own evaluator (rules/pC28.MiniPy: '
              'constructors build inspectable mock trees, nothing of the repository is imported) and inspection of the trees they build; path exploration (rules/pC17.Explorer, every '
              '#if / Tempita variant) and linear-form / truth-table evaluation of the MatchCase.c helpers; comparison with tp_flags of the running interpreter\'s builtin types')
DECIDES += (' ROUND 4 — C side: C31-SENTINEL "not found" markers are fresh object()s; C31-ABSENT absence (marker came back / AttributeError on a pattern-supplied name) returns 0, the '
            'generated try/except of keyword lookups yields False/True; C31-UNCHK results of fallible C-API calls are tested before being dereferenced, a pointer found NULL is not '
            'dereferenced; C31-COVER counted loops over the key / sub-subject arrays start at 0 or chain; C31-CAPACITY failure exits guarded by size-vs-needed are taken only for '
            'size < needed, "nothing left" shortcuts only for size == needed; C31-SLICE every variant of the three star-capture helpers delivers x[start:end]; C31-DICTONLY helpers using '
            'the dict-only C-API are reached only behind a dict check (C) / for dict-typed subjects (Python); C31-SETUSE duplicate-detection sets are filled; C31-TRISTATE match_self is '
            'resolved before it is used as a truth value. '
            'Python side: C31-TPFLAGS static sequence / mapping / match-self answers for builtin types equal the interpreter\'s tp_flags, the run-time helper tests the flag of its kind; '
            'C31-PAIR key / keyword / position <-> sub-pattern <-> sub-subject pairing in mapping and class patterns incl. validate_keys, the counts handed to the helpers, presence of '
            'the duplicate-key check; C31-ALTNUM numbering of OR alternatives (writer = reader, never 0), first matching alternative also with compile-time constant alternatives, '
            'capturing OR patterns are never "simple"; C31-SEQ indices / star slice / length test for every star position up to 4 sub-patterns, length of memoryview / ctuple subjects, '
            'argument order of the slice helper; C31-VALOP `is` exactly for parser-marked constants; C31-REFACTOR refactor_cases keeps order, guard and body over all 340 case-kind '
            'sequences of length <= 4; C31-EXIT goto end label after a matched body, one end label, order comparison -> bindings -> guard -> body; C31-NONE typed subjects are tested '
            '`is not None`; C31-ONCE non-literal subject coerced to a temp, constant cases dropped only when known false; C31-VALID irrefutability / unreachable cases / OR name sets / '
            'duplicate names, keywords, literal keys / several stars decided as CPython\'s compiler does; C31-CFG guard-false and body-exit edges of the control-flow graph; C31-PARSE '
            '`*name` yields a starred capture, the sign of a numeric literal pattern is kept.')
NOT_DECIDED += (' ROUND 4 — still not decided: what the generated C does for a concrete subject (the rules decide the shape of the comparison tree and of each helper, not their '
                'composition at run time); reference counting of sub-subjects; the <3.10 ABC fallback (__Pyx_MatchCase_ABCCheck); type inference of captured names; memoryview '
                'star captures (MatchCase_Cy.pyx); evaluation order inside one pattern beyond the orders named above. Two further rules of this round found genuine defects of the unmodified tree and were armed after the repairs: C31-NULLPATH '
                '(FINDING_1, repaired in 0d41e88f0: a non-AttributeError failure of a positional attribute lookup reached Py_DECREF(NULL)) and C31-ASBIND (FINDING_3, repaired in '
                '423ab91e8: `case 1.0 as x` bound the literal instead of the subject).')
MUTANTS_ROUND4 = 'mutants/C31/*: 49 breaking (49 reported, one of them only since C31-NULLPATH was armed) + 8 behaviour-preserving (all silent); first-run figures per wave in /tmp/strengthen4/G12/REPORT.md'

# ---- sixth round (sa/rules/s4C31.py) ---------------------------------------------------------------------------------------------------------------
TECHNIQUE += ('; (round 6) per-iteration path exploration of the extraction loops of MatchCase.c (slot array `PyObject **subjects[]`, NULL = value not wanted) and evaluation of the '
              'class / mapping / sequence pattern builders on mock nodes for every wildcard mask; classification of C type-test predicates as exact / inexact through their macro and '
              'inline definitions in the utility catalogue (every #if variant)')
DECIDES += (' ROUND 6 — C31-PROBE: a wildcard sub-pattern drops the sub-subject, never the test: every path through one iteration of an extraction loop that reaches the next element '
            'makes a lookup call with that element\'s key / attribute name, also when the slot is NULL; whether the value is wanted does not change which (non-dict-only) callee queries '
            'the subject; ClassPatternNode reads every keyword attribute — wildcard or not — inside the `try` of the lookup stage, once, in keyword order; the key / name / slot arrays and '
            'the counts handed to the helpers keep the wildcard entries (None slot); the extraction helper is called whenever a mapping pattern has a key; the length test of a sequence '
            'pattern counts wildcard and capture elements (all shapes up to 3 elements x star position x {pattern, capture, wildcard}). '
            'C31-EXACT: a type test of a helper parameter that selects a path on which the parameter reaches the concrete-layout C-API (PyDict_* / PyList_* / PyTuple_* / PySet_*, directly '
            'or through another helper of MatchCase.c) is an exact type test (…_CheckExact, Py_IS_TYPE, Py_TYPE(x) == &T, or a __Pyx_ macro / inline function all of whose #if variants '
            'reduce to a disjunction of such tests); tests kept in a local flag and disjunctions are followed. C31-DICTONLY (repaired): a dict test that failed no longer counts once another '
            'test of a disjunction passed; tests stored in a local are followed.')
NOT_DECIDED += (' ROUND 6 — not decided: that the lookup made for an element is the one CPython makes (get() vs another method; only its presence and its independence from wantedness are '
                'decided); a shortcut in a separate pre-pass over the slot array ("no value wanted -> match") — telling it from a harmless initialisation loop needs the correlation of two '
                'loops with the same bound; the order of get() calls / value sub-pattern tests of mapping patterns that mix literal and value keys (validate_keys sorts literal keys first; observed deviation, design-level, see FINDING_1.md); C31-SUBORDER (class sub-patterns matched positional-first) is written but pending FINDING_1; exactness of validations of values read from the class (__match_args__ must be an exact tuple of exact str in CPython): these are locals, not the '
                'subject parameter, and the file legitimately tests another such local (__mro__) inexactly.')
MUTANTS_ROUND6 = 'mutants/C31/i3-*: breaking ones reported except three declined (see their meta.json), behaviour-preserving rewrites all silent; /tmp/strengthen6/I3/REPORT.md'

# ---- eighth round (sa/rules/s8C31.py) --------------------------------------------------------------------------------------------------------------
TECHNIQUE += ('; (round 8) value sets of the match-self tri-state (entry value, current value) and the three-valued state of the __match_args__ lookup result along every path of every '
              '#if variant of the class-pattern helper (out-parameters made visible as writes, contradictory paths dropped)')
DECIDES += (' ROUND 8 — C31-ARGSFIRST: in every helper of MatchCase.c that pairs a tri-state match-self parameter with a `__match_args__` lookup: the type flag (tp_flags / '
            'PyType_HasFeature / PyType_IsSubtype) is consulted only after the lookup was made and came back absent; the lookup is skipped only on paths on which the parameter is 1 on entry '
            '(the compiler proved match-self); when the attribute was found the tri-state is 0 where it is used as the decision; the lookup and the flag test address the same object.')
NOT_DECIDED += (' ROUND 8 — not decided: that the compile-time answer 1 of ClassPatternNode._calculate_match_self is given only for classes that cannot carry __match_args__ '
                '(it is given for every known subtype of bool / float / int, C31-TPFLAGS compares the exact builtins only); consulting the flag for entry value 0 (changes the count in a '
                'TypeError message only).')
MUTANTS_ROUND8 = 'mutants/C31/k5_*: 6 breaking (all reported by C31-ARGSFIRST) + 3 behaviour-preserving (silent); /tmp/strengthen8/K5/REPORT.md'

# Single-edit variants tried on a scratch copy: (file, edit, rule/construct that reported it); all 25 were reported with exit 1.
MUTATIONS = [
    ('Cython/Compiler/MatchCaseNodes.py', 'MatchValuePatternNode: rename get_main_pattern_targets (override lost)', 'C31-L7 MatchValuePatternNode.get_main_pattern_targets'),
    ('Cython/Compiler/MatchCaseNodes.py', 'ClassPatternNode: add is_simple_value_comparison() that can return True, no get_simple_comparison_node', 'C31-L7 ClassPatternNode.get_simple_comparison_node'),
    ('Cython/Compiler/MatchCaseNodes.py', 'MatchAndAssignPatternNode.get_comparison_node: drop the sequence_mapping_temp parameter', 'C31-L7 ...get_comparison_node@MatchCaseNode.analyse_case_expressions/2'),
    ('Cython/Compiler/MatchCaseNodes.py', 'OrPatternNode.release_subject_temps: delete the loop over self.alternatives', 'C31-TEMPS OrPatternNode.release_subject_temps:alternatives'),
    ('Cython/Compiler/MatchCaseNodes.py', 'ClassPatternNode.allocate_subject_temps: loop over positional_patterns only', 'C31-TEMPS ClassPatternNode.allocate_subject_temps:keyword_pattern_patterns'),
    ('Cython/Compiler/MatchCaseNodes.py', 'MatchSequencePatternNode.dispose_of_subject_temps: calls release_subject_temps on the sub-patterns', 'C31-TEMPS MatchSequencePatternNode.dispose_of_subject_temps:patterns'),
    ('Cython/Utility/MatchCase.c', '__Pyx_MatchCase_IsSequence: third parameter in prototype and definition', 'I3 make_sequence_check:__Pyx_MatchCase_IsSequence:arity'),
    ('Cython/Compiler/MatchCaseNodes.py', 'Pyx_mapping_check_type: return type c_bint_type -> py_object_type', 'I3 make_mapping_check:__Pyx_MatchCase_IsMapping:ret'),
    ('Cython/Utility/MatchCase.c', 'non-refnanny variant of __Pyx_MatchCase_ClassPositional(...) drops the NULL argument', 'C31-FWD MatchCase.c:__Pyx_MatchCase_ClassPositional:variants'),
    ('Cython/Compiler/MatchCaseNodes.py', 'make_positional_args_call: drop n_subjects from args', 'C31-FWD make_positional_args_call:__Pyx_MatchCase_ClassPositional:arity'),
    ('Cython/Utility/MatchCase.c', '__Pyx__MatchCase_Mapping_ExtractDict: extra parameter in prototype and definition', 'C31-FWD check_all_keys:__Pyx_MatchCase_Mapping_ExtractDict:arity'),
    ('Cython/Compiler/MatchCaseNodes.py', 'Pyx_mapping_extract_subjects_type: swap the nKeys / subjects argument declarations', 'C31-FWD check_all_keys:...:arg2 / arg3'),
    ('Cython/Compiler/MatchCaseNodes.py', 'check_all_keys: helper names of the exact-dict and non-dict branches swapped', 'C31-SEC check_all_keys:__Pyx_MatchCase_Mapping_ExtractNonDict<-MatchCase.c::ExtractExactDict'),
    ('Cython/Compiler/MatchCaseNodes.py', 'make_double_star_capture: context={"tag": tag.lower()}', 'C31-SEC make_double_star_capture:__Pyx_MatchCase_DoubleStarCapture*'),
    ('Cython/Utility/MatchCase.c', 'rename __Pyx_MatchCase_DoubleStarCapture{{tag}} in the C section only', 'C31-SEC make_double_star_capture:* (4 names)'),
    ('Cython/Compiler/MatchCaseNodes.py', 'generate_for_pyobject: name template "__Pyx_MatchCase_%s" -> "__Pyx_MatchCase_Slice_%s"', 'C31-SEC generate_for_pyobject:__Pyx_MatchCase_Slice_*'),
    ('Cython/Compiler/MatchCaseNodes.py', 'generate_for_pyobject: util_code_name "TupleSliceToList" -> "TupleToList"', 'C31-SEC ...:missing-section'),
    ('Cython/Utility/MatchCase_Cy.pyx', '@cname("__Pyx_MatchCase_SliceMemoryview_{{suffix}}") renamed', 'C31-SEC generate_for_memoryview:__Pyx_MatchCase_SliceMemoryview_$suffix$'),
    ('Cython/Compiler/FlowControl.py', 'visit_PatternNode: remove "target" from exclude', 'C31-CFA visit_PatternNode:target:MatchAndAssignPatternNode.target'),
    ('Cython/Compiler/FlowControl.py', 'visit_MatchNode: visit case.guard before case.target_assignments', 'C31-CFA visit_MatchNode:order:target_assignments/guard'),
    ('Cython/Compiler/FlowControl.py', 'visit_MatchNode: delete the SubstitutedMatchCaseNode arm', 'C31-CFA visit_MatchNode:case-class:SubstitutedMatchCaseNode'),
    ('Cython/Compiler/FlowControl.py', 'visit_MatchNode: delete the visit of case.target_assignments', 'C31-CFA visit_MatchNode:visits:target_assignments'),
    ('Cython/Compiler/FlowControl.py', 'visit_MatchNode: delete self._visit(case.pattern)', 'C31-CFA visit_MatchNode:visits:pattern'),
    ('Cython/Compiler/FlowControl.py', 'rename visit_MatchNode (no handler)', 'C31-CFA ControlFlowAnalysis:MatchNode'),
]
SILENT_EDITS = [   # behaviour-preserving, all exit 0
    'reorder two methods of OrPatternNode',
    'visit_PatternNode: exclude given as a reordered tuple',
    'ClassPatternNode.release_subject_temps: two separate loops over the two sub-pattern lists',
    'check_all_keys: if/elif branches reordered, the two assignments inside each branch swapped',
    'MatchCase.c: parameter names of the __Pyx_MatchCase_IsSequence prototype renamed',
    'generate_for_pyobject: %-template rewritten as an f-string',
    'visit_MatchNode: an extra isinstance(case, (MatchCaseNode, SubstitutedMatchCaseNode)) assertion before the arms',
]


DECIDES += (' MARGS (batch 12, rules/s10C31.py): the object looked up as "__match_args__" in MatchCase.c is accepted only behind an exact tuple type test (CPython: PyTuple_CheckExact, TypeError otherwise).')

def run(ctx):
    from ..rules import parlists, sC31, s4C31, dD2, s8C31, s10C31
    sym = sC31.Sym(ctx)
    # s4C31.rule_suborder(ctx, sym): armed after the repair 1166a8980 (keyword sub-patterns of a class pattern were matched before the positional ones on the unmodified tree)
    # dD2.rule_tempdef / rule_selfkw / rule_dupguard: armed after the repairs 3a6140f2e, 557d1232b, c9e7a10b7 (or-pattern temp inside a sequence, int(x, real=r), duplicate-key check order)
    # sC31.rule_nullpath(ctx): armed after the repair 0d41e88f0 (it reported __Pyx__MatchCase_ClassPositional of the unmodified tree, see FINDING_1)
    # sC31.rule_asbind(ctx, sym): armed after the repair 423ab91e8 (`case 1.0 as x` binds the literal instead of the subject, see FINDING_3)
    return [s10C31.rule_margs(ctx), pC31.rule_hooks(ctx), pC31.rule_temps(ctx), typed.rule_I3(ctx, modules=('MatchCaseNodes',), floor=10),
            pC31.rule_forwarders(ctx), pC31.rule_sections(ctx), pC31.rule_cfa(ctx), parlists.rule_par(ctx), sC31.rule_nullpath(ctx), sC31.rule_asbind(ctx, sym),
            sC31.rule_sentinel(ctx), sC31.rule_unchecked(ctx), sC31.rule_absent(ctx, sym), sC31.rule_cover(ctx), sC31.rule_capacity(ctx), sC31.rule_valid(ctx, sym),
            sC31.rule_tpflags(ctx, sym), sC31.rule_pair(ctx, sym), sC31.rule_altnum(ctx, sym), sC31.rule_seq(ctx, sym), sC31.rule_valop(ctx, sym),
            sC31.rule_refactor(ctx, sym), sC31.rule_exit(ctx, sym), sC31.rule_none(ctx, sym), sC31.rule_dictonly(ctx, sym), sC31.rule_slice(ctx), sC31.rule_once(ctx, sym), sC31.rule_setuse(ctx), sC31.rule_cfg(ctx), sC31.rule_tristate(ctx), sC31.rule_parse(ctx),
            s4C31.rule_probe(ctx, sym), s4C31.rule_exact(ctx), s4C31.rule_suborder(ctx, sym),
            dD2.rule_tempdef(ctx, sym), dD2.rule_selfkw(ctx, sym), dD2.rule_dupguard(ctx, sym), s8C31.rule_argsfirst(ctx)]
