"""C50 — the Plex lexer engine recognises exactly its regular-expression rules.

Structural necessary conditions of "longest match, earliest rule wins ties, unmatched input is an error", extracted from
Cython/Plex/{Regexps,Machines,Transitions,DFA,Lexicons,Scanners}.py.  Rules live in sa/rules/pC50.py.
"""
from ..rules import pC50, sC50

ID = 'C50'
TECHNIQUE = ('table/constant agreement across the six Plex modules; path-sensitive must-precede dataflow for the token counter; '
             'finite-domain evaluation of pure guard/assignment fragments by a checker-owned AST evaluator (pC50.Mini: no repository code is imported or run by '
             'CPython; unknown operands fork, unsupported constructs give ANALYSIS-ERROR) for the priority pipeline, the backup round trip, '
             'FastMachine.add_transitions, the input_state dispatch, the token / end-of-file / error decision of scan_a_token, the RE constructors\' nullable/match_nl and CodeRange; '
             'one-letter-alphabet language computation for the Rep1/Opt/Rep construction schemata; '
             'finite-domain evaluation by the checker-owned Python evaluator (sC50.PyEval: the Plex classes are interpreted from their AST, nothing is imported or run) of the '
             'single-character constructors (language read off the NFA they build), of TransitionMap over every order type of range end points and of the epsilon-closure functions of DFA.py over every '
             'small epsilon graph x iteration order x request order; linear-form symbolic execution of '
             'the buffer refill; def-use of the initial states')
DECIDES = (
    'SENT: maxint is one integer in Regexps/Machines/Transitions, above every character code and inside its .pxd C type; LOWEST_PRIORITY (also as seen by DFA) '
    'is below every priority; a new TransitionMap is [-maxint, {}, +maxint]; split() special-cases only code == +maxint; add_transitions sends (-maxint, x) to the '
    'else slot, never enumerates (x, +maxint) and enumerates finite ranges exactly.  '
    'SYM: BOL/EOL/EOF are distinct strings of length >= 2, keys with value None of FastMachine.new_state_template; every constant the Scanner assigns to cur_char is '
    'a character, \'\' or a template key, and each of the three is fed somewhere; every constant state-dict key the scan loop reads is written by FastMachine.  '
    'PRIO: every add_token_to_machine call receives the same running counter, which is changed between any two calls on every path and always in one '
    'direction; evaluating priority expression -> Node.set_action -> StateMap.highest_priority_action for tokens 1,2,3 in all orders yields token 1 (so >= in '
    'place of > is accepted, a flipped sign or comparison is not); old_to_new/new_state pass that action into the DFA state.  '
    'BACKUP: save-for-backup followed by back-up is the identity on all seven state variables (round trip, independent of tuple order); the backup starts '
    'with action None and yields action None when nothing accepted; non-accepting states do not overwrite it; restored mirrors of self attributes are '
    'written back after the loop, write-through mirrors after their last store, and every advanced position variable is in the backup.  '
    'SPLIT: split() inserts a copy of map[i-1] (not an alias, not an empty set); add/add_set split at both range ends.  '
    'INF: the sentinel is used in Regexps only to build the complementary pair of open ranges of AnyBut.  '
    'NFA: each primitive build_machine offers the optional BOL step under match_bol and continues from it; composites forward match_bol or pass a false '
    'constant only after the BOL step; build_opt adds epsilon + symbol edge and returns the new state; Rep1 accepts exactly body^n, n >= 1, and builds its body '
    'with match_bol or body.match_nl; Seq recomputes match_bol >= element.match_nl or (match_bol and element.nullable); Opt = body?, Rep = body*; '
    'newline-consuming primitives declare match_nl; tokens are built with match_bol true and nocase false.  '
    'ATTR: Seq/Alt/Rep1/SwitchCase constructors never compute nullable/match_nl false where the definition gives true; CodeRange routes exactly the newline code '
    'through RawNewline.  '
    'DFA: only epsilon-closed sets become DFA states; epsilon moves are not copied as transitions while special and character events are; link_to and '
    'get_epsilon use the same falsy key.  '
    'EPS: the closure functions nfa_to_dfa calls (per state and per set of states) return exactly the reflexive-transitive closure of the epsilon moves on every labelled epsilon graph on '
    '3 states (all cycles, diamonds, chains; successor sets visited along every total order of the states) for every order of requests - the closures are memoised on the nodes - with every request repeated at the '
    'end, and on every graph on 4 states with at most 4 moves that is reachable from its first state; non-termination and exceptions count as failures.  '
    'INPUT: from the state set by Scanner.__init__, the input_state dispatch feeds BOL x EOL \\n BOL y EOL EOF \'\' \'\' for the text "x\\ny"<eof>.  '
    'EOF: the decision table of Scanner.scan_a_token over (machine returned an action?) x (scan advanced past start_pos?) x (current symbol in EOF, EOL, BOL, \'\', None, '
    'ordinary character, newline): an action is always returned as (text, action); without an action a clean end of file (_, None) is reported when nothing was consumed and the '
    'symbol is EOF, and UnrecognizedInput is raised whenever the scan advanced or the symbol is an ordinary character (points with nothing consumed and a pseudo-symbol other '
    'than EOF are evaluated but not constrained).  '
    'CHARSET: Char(c) = {c}; Range(a, b) = [a, b] inclusive in pair and string form (end points in every position relative to newline); Any(s) = set(s) for every sequence of code '
    'differences 1/2/3 up to length 4 and with newline; AnyBut(s) = complement; under nocase every letter brings its other-case twin (end points in every position relative to a/z/A/Z); '
    'NoCase/Case override the enclosing flag - all read off the NFA that build_machine constructs through TransitionMap.  '
    'TMAP: after every add / add_set sequence of <= 3 ranges over 5 ordered codes and the sentinels the code list increases strictly from -maxint to +maxint, every code class maps to '
    'exactly the states added for it and iteritems() reports every non-empty segment with its own bounds.  '
    'ROUTE: State(...) tokens are attached to the initial state created for that name, plain tokens to the default one; nfa_to_dfa registers initial DFA states under the loop key; '
    'StateMap.make_key is injective and order independent on all subsets of three states.  '
    'BUF: after a refill kept text and new data are contiguous, buf_start_pos (local and on self) is the position of buffer[0], buf_len its length, the index the offset of the next '
    'unread position, the window still starts at or before start_pos, each read advances the position once; scan_a_token cuts the text with both bounds rebased by buf_start_pos.')
NOT_DECIDED = ('epsilon closures on graphs with more than 4 states or more than 4 moves on 4 states (the closure functions are uniform in the graph: they see it only through get_epsilon, set '
               'membership and the memo slot, but the transfer is an argument, not a proof); language equivalence of the generated DFA with the regular expressions for all lexicons and inputs; Any(s)/AnyBut(s) for strings that REPEAT a character '
               '(rule C50-CHARSET-DUP is written and reports the unmodified tree: FINDING_1, pending); TransitionMap beyond three ranges; '
               'that run_machine_inlined leaves cur_pos advanced when it blocks without a backup (C50-EOF takes this from the scan loop as decided by C50-BACKUP/C50-INPUT); '
               'cur_pos/cur_line/cur_line_start bookkeeping of the scan loop (only their save/restore/write-back is decided);  over-statement of nullable/match_nl (harmless: it only adds BOL edges that can never fire) is '
               'deliberately not reported.  The DESIGN clause "strict > in set_action/highest_priority_action" is replaced by the evaluated pipeline: with unique '
               'token numbers >= is behaviour-preserving, so demanding the operator itself would be a brittle proxy.')
ASSUMPTIONS = ['token numbers stay far below 2**31 (priorities are C ints in the compiled module)',
               'NFA nodes hash by their address (Machines.Node.__hash__ = id(self) & maxint), so a set of nodes can be iterated in any order (C50-EPS evaluates every total order of the states)',
               'the BOL pseudo-character is only ever fed at the start of the input and after a newline (decided by C50-INPUT for the current dispatch)']

P = 'Cython/Plex/'
# (file, single edit, expected rule) — all run on a scratch copy with /tmp/mut/harness.py; every breaking variant was reported with a message naming the
# edited construct, every behaviour-preserving variant stayed silent.
MUTATIONS = [
    (P + 'Machines.py', 'maxint = 2**31-1 -> 2**31-2', 'C50-SENT'),
    (P + 'Machines.py', "add_transitions: `code0 == -maxint` -> `code0 == maxint`", 'C50-SENT'),
    (P + 'Machines.py', "add_transitions: `code1 != maxint` -> `code1 != -maxint`", 'C50-SENT'),
    (P + 'Machines.py', 'LOWEST_PRIORITY = -maxint -> 0', 'C50-SENT (+C50-PRIO)'),
    (P + 'Transitions.py', '__init__: [-maxint, set(), maxint] -> [0, set(), maxint]', 'C50-SENT'),
    (P + 'Machines.py', "new_state_template: drop 'eol': None", 'C50-SYM'),
    (P + 'Scanners.py', "state.get('else') -> state.get('other')", 'C50-SYM'),
    (P + 'Regexps.py', "BOL = 'bol' -> 'b'", 'C50-SYM'),
    (P + 'Lexicons.py', 'drop `token_number += 1` after the State-branch call', 'C50-PRIO'),
    (P + 'Lexicons.py', 'priority=-token_number -> priority=token_number', 'C50-PRIO'),
    (P + 'Machines.py', 'set_action: `priority > self.action_priority` -> `<`', 'C50-PRIO'),
    (P + 'DFA.py', 'highest_priority_action: `priority > best_priority` -> `<`', 'C50-PRIO'),
    (P + 'Scanners.py', 'restore tuple: swap b_cur_line / b_cur_line_start', 'C50-BACKUP'),
    (P + 'Scanners.py', 'save tuple: swap cur_line / cur_line_start', 'C50-BACKUP'),
    (P + 'Scanners.py', 'delete `self.cur_line_start = cur_line_start` after the loop', 'C50-BACKUP'),
    (P + 'Scanners.py', 'save guard `if action is not None` -> `if action is None`', 'C50-BACKUP'),
    (P + 'Transitions.py', 'split: map[hi - 1].copy() -> map[hi - 1]', 'C50-SPLIT'),
    (P + 'Transitions.py', 'add: j = self.split(code1) -> self.split(code0)', 'C50-SPLIT'),
    (P + 'Regexps.py', 'AnyBut: delete ranges.append(maxint)', 'C50-INF'),
    (P + 'Regexps.py', 'RawCodeRange.build_machine: delete the `if match_bol:` BOL step', 'C50-NFA'),
    (P + 'Regexps.py', 'Rep1.build_machine: delete s2.link_to(s1)', 'C50-NFA'),
    (P + 'Regexps.py', 'Rep1.build_machine: `match_bol or self.re.match_nl` -> `match_bol`', 'C50-NFA'),
    (P + 'Regexps.py', 'Seq.build_machine: match_bol = re.match_nl or (match_bol and re.nullable) -> re.match_nl', 'C50-NFA'),
    (P + 'Regexps.py', 'build_opt: delete initial_state.link_to(s)', 'C50-NFA'),
    (P + 'Regexps.py', 'Rep: Opt(Rep1(re)) -> Rep1(re)', 'C50-NFA'),
    (P + 'Lexicons.py', 'build_machine(..., match_bol=1 -> match_bol=0', 'C50-NFA'),
    (P + 'Regexps.py', 'Seq.__init__: nullable = 1 -> 0', 'C50-ATTR'),
    (P + 'Regexps.py', 'Seq.__init__: test `not re.nullable` before `re.match_nl`', 'C50-ATTR'),
    (P + 'Regexps.py', 'Alt.__init__: delete `if re.match_nl: match_nl = 1`', 'C50-ATTR'),
    (P + 'Regexps.py', 'Rep1.__init__: self.match_nl = 0', 'C50-ATTR'),
    (P + 'Regexps.py', 'CodeRange: `code1 <= nl_code` -> `code1 < nl_code`', 'C50-ATTR'),
    (P + 'DFA.py', 'add_set(event, set_epsilon_closure(x)) -> add_set(event, x)', 'C50-DFA'),
    (P + 'DFA.py', 'old_to_new(epsilon_closure(old_state)) -> old_to_new({old_state})', 'C50-DFA'),
    (P + 'DFA.py', '`if event and old_target_states` -> `if old_target_states`', 'C50-DFA'),
    (P + 'Scanners.py', "input_state 2 branch: next state 3 -> 1 (BOL skipped)", 'C50-INPUT'),
    (P + 'Scanners.py', 'input_state 4 branch: cur_char = EOF -> EOL', 'C50-INPUT (+C50-SYM)'),
    (P + 'Scanners.py', "__init__: self.cur_char = BOL -> ''", 'C50-INPUT'),
    (P + 'Scanners.py', 'seed C50a: `if self.cur_pos == self.start_pos and self.cur_char is None or self.cur_char is EOF:` (precedence slip)', 'C50-EOF no-action:advanced:EOF'),
    (P + 'Scanners.py', 'scan_a_token: `self.cur_pos == self.start_pos` -> `>=`', 'C50-EOF no-action:advanced:EOF'),
    (P + 'Scanners.py', 'scan_a_token: position guard replaced by `if True:`', 'C50-EOF no-action:advanced:EOF'),
    (P + 'Scanners.py', 'scan_a_token: `self.cur_char is EOF` -> `is EOL`', 'C50-EOF no-action:at-start:EOF'),
    (P + 'Scanners.py', 'scan_a_token: final raise replaced by return ("", None)', "C50-EOF no-action:advanced:*"),
    (P + 'Scanners.py', "scan_a_token: end-of-file test widened to `not self.cur_char or ... or self.cur_char == 'x'`", "C50-EOF no-action:at-start:'x'"),
    (P + 'Scanners.py', 'scan_a_token: `if action is not None:` -> `if action is None:`', 'C50-EOF action:*'),
    # behaviour-preserving, must stay silent
    (P + 'Scanners.py', 'scan_a_token: nested ifs flattened WITH parentheses: `pos equal and (char is None or char is EOF)`  [C50-EOF]', None),
    (P + 'Scanners.py', 'scan_a_token: `consumed = cur_pos - start_pos; if consumed > 0 or self.cur_char not in (None, EOF): raise ...; return ("", None)`  [C50-EOF]', None),
    (P + 'Machines.py', 'set_action: > -> >=', None),
    (P + 'DFA.py', 'highest_priority_action: `priority > best_priority` -> `not priority <= best_priority`', None),
    (P + 'Regexps.py', 'AnyBut: ranges = [-maxint] + chars_to_ranges(s) + [maxint]', None),
    (P + 'Regexps.py', 'maxint imported from .Transitions instead of redefined', None),
    (P + 'Lexicons.py', 'priority=0 - token_number', None),
    (P + 'Machines.py', 'new_state_template keys reordered; `-maxint == code0`', None),
    (P + 'Transitions.py', 'split: set(map[hi - 1]) instead of .copy()', None),
    (P + 'Regexps.py', 'Seq.build_machine: (re.nullable and match_bol) or re.match_nl; Seq.__init__ nullable computed with if/False', None),
    (P + 'Scanners.py', 'input state 2 renumbered to 7 consistently; save and init backup tuples rotated; `not (b_action is None)`', None),
]
# Sixth round (seed C50h, mechanism: memoised epsilon closure): eps-* breaking edits and p-eps-* rewrites under /verif/mutants/C50/, all decided by C50-EPS.
# Fourth round: 25 breaking edits and 8 behaviour-preserving rewrites are kept as replayable patches under /verif/mutants/C50/<name>/ (see each meta.json).


def run(ctx):
    px = pC50.Plex(ctx)
    return [pC50.rule_sentinel(px), pC50.rule_symbols(px), pC50.rule_priority(px), pC50.rule_backup(px), pC50.rule_split(px), pC50.rule_inf(px),
            pC50.rule_nfa(px), pC50.rule_attrs(px), pC50.rule_closure(px), pC50.rule_protocol(px), sC50.rule_eof(px),
            sC50.rule_charset(px), sC50.rule_tmap(px), sC50.rule_route(px), sC50.rule_buffer(px), sC50.rule_charset_duplicates(px), sC50.rule_epsclosure(px)]
    # sC50.rule_charset_duplicates(px): armed after the repair 19ab7cd1b (FINDING_1: Any("aa") also matches "b")
