"""C03 — C integer `//` and `%`: the DivNode family of ExprNodes.py emits the zero-division test, derives cdivision /
zerodivision_check from the *scoped* directive, selects the CMath.c helpers consistently, and synthesised division nodes pin cdivision."""
import ast, re

from ..core import Rule, AnalysisError, node_src
from ..engine import pyflow, tables
from ..engine.cutil import split_args, match_paren, strip_c_comments
from ..engine.pyindex import walk_no_nested, is_self_attr
from ..rules import pC02 as P
from ..rules.iface import str_template, PLACEHOLDER

ID = 'C03'
TECHNIQUE = ('must-pass-through dataflow on generate_evaluation_code; path conditions of emission statements and of the cdivision / '
             'zerodivision_check assignments evaluated as truth tables over the COMPLETE valuation domain of their atoms (whitelisted '
             'expression evaluator, nothing from /repo is executed); name/arity/substitution-key agreement between the emitted '
             '__Pyx_div_/__Pyx_mod_ calls, UtilityCode.specialize and the CMath.c sections; construction-site scan for synthesised '
             'DivNode/ModNode; clang AST comparison of the declared copies in Optimize.c with DivInt/ModInt; finite-domain interpretation of '
             'InPlaceAssignmentNode.generate_execution_code (checker-owned evaluator, every undetermined test forks) for each division operator; '
             'bounded model check of the extracted C helpers (rules/pC03.py: a C interpreter of the checker with integer promotions / conversions / undefined-behaviour '
             'detection) over ALL operand pairs of a 4-bit model type; truth tables of the emitted run-time guards (typed C evaluation over int/long/long long x '
             'ILP32/LP64/LLP64 x the boundary partition of the operands); must-follow / bracket typestate on the emission of the raise')
DECIDES = ('(WARN) every generate_evaluation_code of the DivNode family calls generate_div_warning_code on every path, after the operands were evaluated; '
           '(ZGUARD) the ZeroDivisionError emission in generate_div_warning_code is guarded by nothing but zerodivision_check and "not a Python object", and tests operand2; '
           '(ZDC) zerodivision_check is true whenever cdivision is undecided, the scoped directive is off and the divisor is not a non-zero constant; '
           '(CDIV) every computed cdivision is true when the scoped directive is on and false for signed integer types when it is off; '
           '(SCOPED) all directive reads of the family go through a parameter (env.directives / code.globalstate.directives) with keys Options knows, never through Options\' defaults; '
           '(HELPER) the emitted __Pyx_div_<T>/__Pyx_mod_<T> calls match a CMath.c section the same class loads: name key filled by UtilityCode.specialize from the same type expression, '
           'same arity, every %(key)s of the section provided; (ADJ) every floor-adjustment predicate of the helpers (CMath.c, Builtins.c divmod, Optimize.c) equals `remainder != 0 and sign(remainder) != sign(divisor)` '
           'on the complete sign domain, enclosing `if (remainder)` guards included; (DSCOPE) a transform that analyses an arithmetic node it built installs the block-level directives first; (SEL) the helper call is emitted only when cdivision is false and the plain C operator only when cdivision or truedivision is set; '
           '(PIN) every DivNode/ModNode synthesised outside the parser with a constant operator pins cdivision; (SIB1) the Optimize.c copies equal DivInt/ModInt; '
           '(INPLACE) the in-place statement node, which emits `lhs op= rhs` in plain C and thereby bypasses DivNode/ModNode, hands a DivNode-family operator (/ // %) on a C integer target to an '
           'emitting call with cdivision off only on paths that also report a compile error (rules/sC03.py; the generic `lhs op= rhs` emission is a pending finding, see sC03.PENDING); '
           '(HELPERS) CMath.c::DivInt / ModInt / ModFloat and each declared copy in PyLongBinop return floor(a / b) resp. a - floor(a / b) * b for every operand pair (b != 0) of a 4-bit signed '
           'model type and both values of b_is_constant, and ModInt answers MIN % -1 without executing the C remainder (width-parametricity premise checked: no literal but 0 and 1); '
           'where HELPERS has verified an original and its copy, a mere shape difference found by SIB is an info line; '
           '(GUARD) the emitted zero test is true exactly for b == 0; the emitted OverflowError guard is true only for (MIN, -1) - so 0 // -1, MIN // 1, -2**32 // -1 on ILP32 are delivered - and is not emitted for %; '
           '(RAISE) every emitted PyErr_SetString of the family is followed by the error jump before its block closes and, where in_nogil can be true, lies between put_ensure_gil / put_release_ensured_gil; '
           '(SIMPLE) operands whose result() is pasted into those guards are coerced to simple nodes by analyse_operation whenever zerodivision_check is set. '
           'Emission blocks / text builders extracted into helper methods of the node class are analysed in place (sC03.inline_self_calls, render(resolver)).')
NOT_DECIDED = ('the transfer of HELPERS from the 4-bit model width to the production widths (rests on the syntactic parametricity premise); ModFloat only on the integer-valued points of the grid '
               '(fmod modelled as the truncated remainder there); the converse of the OverflowError guard (MIN // -1 IS intercepted) belongs to C04-W1 / C04-MINGUARD and is a known finding for int; '
               'the complex-number zero test built from unary_op(\'zero\'); float division and the C semantics of the chosen operators; whether the path conditions of use_utility_code and of the emitted call coincide exactly; which targets ExpandInplaceOperators leaves un-expanded '
               '(INPLACE checks the code generator of whatever survives, for every shape of target).')
ASSUMPTIONS = ['code.globalstate.directives is the scoped directive set during code generation (CompilerDirectivesNode swaps it around its body)']
EXEMPT = {}
MUTATIONS = [   # (file, single edit, rule that reported it) -- all run on a scratch copy, every variant was reported with exit 1
    ('Cython/Compiler/ExprNodes.py', 'ModNode.generate_evaluation_code: drop self.generate_div_warning_code(code)', 'C03-WARN missing'),
    ('Cython/Compiler/ExprNodes.py', 'DivNode.generate_evaluation_code: generate_div_warning_code before NumBinopNode.generate_evaluation_code', 'C03-WARN early'),
    ('Cython/Compiler/ExprNodes.py', 'generate_div_warning_code: `if self.zerodivision_check:` -> `if self.zerodivision_check and self.type.signed:`', 'C03-ZGUARD'),
    ('Cython/Compiler/ExprNodes.py', 'generate_div_warning_code: zero_test on self.operand1.result()', 'C03-ZGUARD'),
    ('Cython/Compiler/ExprNodes.py', "analyse_operation: `not env.directives['cdivision']` -> `env.directives['cdivision']`", 'C03-ZDC'),
    ('Cython/Compiler/ExprNodes.py', "analyse_operation: `self.operand2.constant_result == 0` -> `!= 0`", 'C03-ZDC'),
    ('Cython/Compiler/ExprNodes.py', "analyse_operation: env.directives['cdivision'] -> Options.get_directive_defaults()['cdivision']", 'C03-ZDC + C03-SCOPED'),
    ('Cython/Compiler/ExprNodes.py', "ModNode.analyse_operation: `or not self.type.signed` -> `or self.type.signed`", 'C03-CDIV'),
    ('Cython/Compiler/ExprNodes.py', "DivNode.generate_evaluation_code: code.globalstate.directives['cdivision'] -> Options.get_directive_defaults()[...] / key 'cdivison'", 'C03-SCOPED'),
    ('Cython/Compiler/ExprNodes.py', 'DivNode.calculate_result_code: __Pyx_div_ call loses its third argument', 'C03-HELPER arity'),
    ('Cython/Compiler/ExprNodes.py', 'ModNode.calculate_result_code: name from self.operand2.type.specialization_name()', 'C03-HELPER type'),
    ('Cython/Compiler/ExprNodes.py', 'ModNode.generate_evaluation_code: load_cached("ModInt") -> "DivInt"; DivNode: DivInt only loaded `and self.type.signed`', 'C03-HELPER unloaded-when'),
    ('Cython/Compiler/ExprNodes.py', 'ModNode.calculate_result_code: `if self.cdivision:` -> `if not self.cdivision:`; DivNode: `or self.cdivision` -> `or not self.cdivision`', 'C03-SEL'),
    ('Cython/Utility/CMath.c', 'ModInt: __Pyx_mod_%(type_name)s -> __Pyx_mod_%(type)s', 'C03-HELPER key'),
    ('Cython/Utility/CMath.c', 'ModFloat: %(math_h_modifier)s -> %(math_modifier)s', 'C03-HELPER subst'),
    ('Cython/Utility/CMath.c', 'ModInt: return r + adapt_python * b -> * a', 'C03-SIB'),
    ('Cython/Utility/Optimize.c', 'PyLongBinop: x += ((x != 0) & ((x ^ b) < 0)) * b -> * a', 'C03-SIB'),
    ('Cython/Compiler/ParseTreeTransforms.py', "cmod(): drop `node.cdivision = True`", 'C03-PIN'),
    ('Cython/Compiler/Optimize.py', "_build_range_step_calculation: revert fix fee9625a1 (drop cdivision=False)", 'C03-PIN'),
    ('Cython/Compiler/Nodes.py', "seed C03b: InPlaceAssignmentNode guard tests the source operator `operator in ('/', '%')`, so '//' slips through", 'C03-INPLACE'),
    ('Cython/Compiler/Nodes.py', 'InPlaceAssignmentNode.generate_execution_code: drop the "In-place non-c divide operators" guard', 'C03-INPLACE'),
    ('Cython/Compiler/Nodes.py', "guard `c_op in ('/', '%')` -> `c_op == '/'` (%= on int buffers accepted)", 'C03-INPLACE'),
    ('Cython/Compiler/Nodes.py', "guard: `not code.globalstate.directives['cdivision']` -> `code.globalstate.directives['cdivision']`", 'C03-INPLACE'),
    ('Cython/Compiler/Nodes.py', 'guard gets the extra conjunct `lhs.is_memview_index` (buffer targets no longer rejected)', 'C03-INPLACE'),
    ('Cython/Compiler/Nodes.py', 'behaviour-preserving: error() moved after generate_buffer_setitem_code (error() only records); c_op computed by a conditional expression from a renamed local '
                                 'and the guard written with De Morgan over the source operator in (/, //, %); guard as three nested ifs with the directive in a local, f-string in the C++ branch', 'silent'),
    ('mutants/C03/*', '17 + 6 brainstormed breaking edits (DivInt/ModInt/ModFloat combination and operands, cooperating copies, zero test `<= 0`, dropped error jump, dropped coerce_to_simple, '
                      'negation macro, divisor == 1, guard emitted for %, sizeof >=, ModInt b == 1 short cut, GIL bracket, ...) and 12 behaviour-preserving rewrites; see meta.json of each', 'C03-HELPERS / C03-GUARD / C03-RAISE / C03-SIMPLE'),
    ('behaviour-preserving (all silent)', '`if not is_pyobject:` nesting turned into an early return; local zero_test renamed; zerodivision_check formula rewritten with De Morgan; '
                                          'ModNode.calculate_result_code branches reordered (`if not self.cdivision` first, %-format instead of f-string); an unrelated method added', 'silent'),
]

REL = 'Cython/Compiler/ExprNodes.py'
CMATH = 'CMath.c'


def _call_name(c):
    f = c.func
    if isinstance(f, ast.Name):
        return f.id
    if isinstance(f, ast.Attribute):
        return f.attr
    return None


def family(ix):
    base = ix.cls('ExprNodes', 'DivNode')
    out, todo = [], [base]
    while todo:
        c = todo.pop(0)
        if c not in out:
            out.append(c)
            todo.extend(ix.subclasses(c))
    return out


def own_methods(fam, name):
    """[(class, FunctionDef)] for every definition of `name` inside the family."""
    return [(c, c.methods[name]) for c in fam if name in c.methods]


def directive_reads(fn):
    """[(node, base expression, key or None)] for X.directives[...] / X.directives.get(...) in fn"""
    out = []
    for n in walk_no_nested(fn):
        if isinstance(n, ast.Subscript) and isinstance(n.value, ast.Attribute) and n.value.attr == 'directives':
            out.append((n, n.value.value, tables.literal(n.slice) if isinstance(n.slice, ast.Constant) else None))
        elif isinstance(n, ast.Call) and isinstance(n.func, ast.Attribute) and n.func.attr == 'get' and isinstance(n.func.value, ast.Attribute) \
                and n.func.value.attr == 'directives' and n.args:
            out.append((n, n.func.value.value, tables.literal(n.args[0]) if isinstance(n.args[0], ast.Constant) else None))
    return out


def directive_texts(nodes, key):
    out = set()
    for root in nodes:
        for n in ast.walk(root):
            if isinstance(n, ast.Subscript) and isinstance(n.value, ast.Attribute) and n.value.attr == 'directives' \
                    and isinstance(n.slice, ast.Constant) and n.slice.value == key:
                out.add(ast.unparse(n))
    return sorted(out)


# ------------------------------------------------------------------------------------------------------------------ WARN
def warn_problems(fn):
    def tr(node, state):
        s = set(state)
        for c in pyflow.calls_in(node):
            if not isinstance(c.func, ast.Attribute):
                continue
            if c.func.attr == 'generate_evaluation_code':
                v = c.func.value
                if (isinstance(v, ast.Name) and c.args and isinstance(c.args[0], ast.Name) and c.args[0].id == 'self') or \
                        (isinstance(v, ast.Call) and isinstance(v.func, ast.Name) and v.func.id == 'super') or \
                        (is_self_attr(v) and v.attr == 'operand2'):
                    s.add('evaluated')
            if c.func.attr == 'generate_div_warning_code' and isinstance(c.func.value, ast.Name) and c.func.value.id == 'self':
                s.add('warned' if 'evaluated' in s else 'early')
        return frozenset(s)
    o = pyflow.Flow(tr).run(fn)
    out = set()
    for st in o.normal | o.returns:
        if 'early' in st:
            out.add('early')
        elif 'warned' not in st:
            out.add('missing')
    return out


# ------------------------------------------------------------------------------------------------------------------ helpers for guards
def emits_zero_division(n):
    if not isinstance(n, ast.Call):
        return False
    for a in n.args:
        for x in ast.walk(a):
            if isinstance(x, ast.Constant) and isinstance(x.value, str) and 'PyExc_ZeroDivisionError' in x.value:
                return True
    return False


def zguard_problems(fn):
    out = []
    hits = P.path_conditions(fn, emits_zero_division)
    if not hits:
        return [('no-zero-test', 'no longer emits a PyExc_ZeroDivisionError test at all: division by zero is undefined behaviour in C (SIGFPE)')]
    for target, conds in hits:
        tests = [t for t, _ in conds]
        typed = {'self.zerodivision_check': [True], 'self.type.is_pyobject': [False]}
        bad = None
        for subst, av, vals in P.truth_table(tests, typed):
            if not P.conj_holds(conds, vals):
                bad = {k: v for k, v in av.items()}
                break
        if bad is not None:
            out.append(('extra-guard', 'the ZeroDivisionError emission is not reached although zerodivision_check is set and the result is a C value, e.g. when %s: '
                                       'the zero test is skipped and the C division traps' % ', '.join('%s is %s' % kv for kv in sorted(bad.items()))))
        # the test that precedes the emission in the same block must look at the divisor
        blk = None
        for b in ast.walk(fn):
            for f in ('body', 'orelse'):
                lst = getattr(b, f, None)
                if isinstance(lst, list) and any(isinstance(s, ast.stmt) and any(x is target for x in ast.walk(s)) for s in lst):
                    blk = lst
        ops = set()
        if blk is not None:
            for s in blk:
                if any(x is target for x in ast.walk(s)):
                    break
                for x in ast.walk(s):
                    if is_self_attr(x) and x.attr in ('operand1', 'operand2'):
                        ops.add(x.attr)
        if 'operand2' not in ops or 'operand1' in ops:
            out.append(('operand', 'the zero test emitted before the ZeroDivisionError looks at %s instead of the divisor self.operand2' % (sorted(ops) or 'no operand')))
    return out


def assignments(fn, attr):
    return [s for s in walk_no_nested(fn) if isinstance(s, ast.Assign) and any(is_self_attr(t) and t.attr == attr for t in s.targets)]


def zdc_problem(fn, stmt):
    conds = None
    for t, pc in P.path_conditions(fn, lambda n: n is stmt.value):
        conds = pc
    if conds is None:
        raise AnalysisError('assignment not found again')
    tests = [t for t, _ in conds] + [stmt.value]
    dkeys = directive_texts(tests, 'cdivision')
    if not dkeys:
        return 'does not read the scoped directive directives[\'cdivision\'] at all'
    typed = {'self.cdivision': [None, False, True], 'self.type.is_pyobject': [False],
             'self.operand2.has_constant_result()': [False, True], 'self.operand2.constant_result': [0, 7]}
    for k in dkeys:
        typed[k] = [False, True]
    for subst, av, vals in P.truth_table(tests, typed):
        if subst['self.cdivision'] is not None or any(subst[k] for k in dkeys):
            continue
        if subst['self.operand2.has_constant_result()'] and subst['self.operand2.constant_result'] != 0:
            continue
        if not P.conj_holds(conds, vals[:-1]) or not vals[-1]:
            what = 'a constant 0 divisor' if subst['self.operand2.has_constant_result()'] else 'a non-constant divisor'
            extra = ', '.join('%s=%s' % kv for kv in sorted(av.items()))
            return ('is false for %s with cdivision off and no pinned cdivision%s: no zero test is emitted and `x // 0` traps instead of raising ZeroDivisionError'
                    % (what, (' (when %s)' % extra) if extra else ''))
    return None


def cdiv_problem(fn, stmt):
    tests = [stmt.value]
    dkeys = directive_texts(tests, 'cdivision')
    if not dkeys:
        return 'is computed without reading the scoped directive directives[\'cdivision\']'
    typed = {'self.type.signed': [0, 1, 2], 'self.type.is_float': [False, True]}
    for k in dkeys:
        typed[k] = [False, True]
    for subst, av, vals in P.truth_table(tests, typed):
        on = any(subst[k] for k in dkeys)
        if on and not vals[0]:
            return 'is false although the cdivision directive is on: Python semantics (and the helper call) are used where C semantics were requested'
        if not on and subst['self.type.signed'] and not subst['self.type.is_float'] and vals[0]:
            return ('is true for a signed integer type (signed=%s) although the cdivision directive is off: plain C `/`/`%%` truncates towards zero, e.g. -7 // 2 == -3'
                    % subst['self.type.signed'])
    return None


# ------------------------------------------------------------------------------------------------------------------ HELPER
HELPER_CALL = re.compile(r'(__Pyx_[A-Za-z]+_)' + PLACEHOLDER + r'\(')
C_HELPER = re.compile(r'(__Pyx_[A-Za-z]+_)%\((\w+)\)s\s*\(')
PLAIN_OP = re.compile(r'^\(?\s*' + PLACEHOLDER + r'\s*([/%])\s*' + PLACEHOLDER + r'\s*\)?$')


def emitted_templates(fn):
    """[(node, text, placeholders)] for the outermost string templates of fn"""
    out, inner = [], set()
    for n in walk_no_nested(fn):
        if id(n) in inner or not isinstance(n, (ast.JoinedStr, ast.BinOp)):
            continue
        t = str_template(n)
        if t is None:
            continue
        for sub in ast.walk(n):
            if sub is not n:
                inner.add(id(sub))
        out.append((n, t[0], t[1]))
    return out


def helper_calls(fn):
    """[(node, prefix, type placeholder expr, n args)]"""
    out = []
    for n, text, ph in emitted_templates(fn):
        for m in HELPER_CALL.finditer(text):
            lp = m.end() - 1
            rp = match_paren(text, lp)
            if rp < 0:
                raise AnalysisError('unbalanced emitted helper call in %s' % fn.name)
            k = text[:m.end(1)].count(PLACEHOLDER)
            out.append((n, m.group(1), ph[k], len(split_args(text[lp + 1:rp]))))
    return out


def loaded_sections(fn):
    """[(section, file, specialize type expr text or None, {specialize kw names}, line)]"""
    out = []
    for n in walk_no_nested(fn):
        if isinstance(n, ast.Call) and _call_name(n) in ('load_cached', 'load') and len(n.args) >= 2:
            sec, ufile = tables.literal(n.args[0]), tables.literal(n.args[1])
            if not isinstance(sec, str) or not isinstance(ufile, str):
                continue
            spec = None
            for c in walk_no_nested(fn):
                if isinstance(c, ast.Call) and isinstance(c.func, ast.Attribute) and c.func.attr == 'specialize' and c.func.value is n:
                    spec = c
            out.append((sec, ufile, ast.unparse(spec.args[0]) if spec is not None and spec.args else None,
                        {k.arg for k in spec.keywords if k.arg} if spec is not None else set(), n.lineno, n))
    return out


def specialize_keys(ctx):
    """{substitution key: method of the type that fills it} from Code.UtilityCode.specialize"""
    tree = ctx.parse('Cython/Compiler/Code.py')
    fn = tables.find_function(tree, 'specialize', 'UtilityCode')
    if fn is None:
        raise AnalysisError('Code.UtilityCode.specialize vanished')
    ps = [a.arg for a in fn.args.args]
    if len(ps) < 2 or not fn.args.kwarg:
        raise AnalysisError('UtilityCode.specialize(self, pyrex_type=None, **data) changed its signature')
    tparam, data = ps[1], fn.args.kwarg.arg
    out = {}
    for s in walk_no_nested(fn):
        if isinstance(s, ast.Assign) and isinstance(s.targets[0], ast.Subscript) and isinstance(s.targets[0].value, ast.Name) and s.targets[0].value.id == data \
                and isinstance(s.targets[0].slice, ast.Constant) and isinstance(s.value, ast.Call) and isinstance(s.value.func, ast.Attribute) \
                and isinstance(s.value.func.value, ast.Name) and s.value.func.value.id == tparam:
            out[s.targets[0].slice.value] = s.value.func.attr
    if not out:
        raise AnalysisError('UtilityCode.specialize no longer fills data[...] from the type')
    return out


def c_helpers(ctx, sec):
    """{typ: [(prefix, key, n params)]} and all %(key)s of a CMath.c section"""
    d = ctx.cat.files.get(CMATH, {}).get(sec)
    if not d:
        return None, None
    defs, keys = {}, set()
    for typ, s in d.items():
        raw = strip_c_comments(s.raw)
        keys |= set(re.findall(r'%\((\w+)\)s', raw))
        for m in C_HELPER.finditer(raw):
            rp = match_paren(raw, m.end() - 1)
            if rp > 0:
                defs.setdefault(typ, []).append((m.group(1), m.group(2), len(split_args(' '.join(raw[m.end():rp].split())))))
    return defs, keys


def helper_problems(ctx, call, loads, spec_keys):
    node, prefix, ph, nargs = call
    out = []
    if not (isinstance(ph, ast.Call) and isinstance(ph.func, ast.Attribute) and not ph.args):
        return [('name', 'the name suffix of the emitted %s<T> call is %s, not a type-name method call' % (prefix, node_src(ph)))]
    method, texpr = ph.func.attr, ast.unparse(ph.func.value)
    matching = []
    for sec, ufile, stype, kws, line, _n in loads:
        if ufile != CMATH:
            continue
        defs, keys = c_helpers(ctx, sec)
        if defs is None:
            out.append(('section:' + sec, 'loads %s::%s which does not exist' % (ufile, sec)))
            continue
        for typ, lst in defs.items():
            for pfx, key, npar in lst:
                if pfx != prefix:
                    continue
                matching.append(sec)
                if spec_keys.get(key) != method:
                    out.append(('key:%s.%s' % (sec, typ), 'emits %s{%s.%s()} but %s.%s names the function %s%%(%s)s, which UtilityCode.specialize fills with %s: the call does not link'
                                % (prefix, texpr, method, sec, typ, pfx, key, ('type.%s()' % spec_keys[key]) if key in spec_keys else 'nothing')))
                if npar != nargs:
                    out.append(('arity:%s.%s' % (sec, typ), 'emits %s<T>(...) with %d arguments but %s.%s declares %d parameters' % (prefix, nargs, sec, typ, npar)))
                if stype != texpr:
                    out.append(('type:' + sec, 'the helper %s is specialised for %s but called with the name of %s' % (sec, stype, texpr)))
    if not matching:
        out.append(('unloaded', 'emits a call to %s<T> but its generate_evaluation_code loads no CMath.c section defining it (loaded: %s)'
                    % (prefix, sorted({l[0] for l in loads}) or 'none')))
    return out


def coverage_problems(ctx, calc, call, gen, loads):
    """Whenever the helper call is emitted for a C result, a section defining the helper is loaded (same attribute valuation)."""
    node, prefix = call[0], call[1]
    cc = None
    for t, pc in P.path_conditions(calc, lambda x: x is node):
        cc = pc
    if cc is None:
        raise AnalysisError('emitted helper call not found again')
    cands = []
    for sec, ufile, stype, kws, line, n in loads:
        defs, keys = c_helpers(ctx, sec) if ufile == CMATH else (None, None)
        if defs and any(pfx == prefix for lst in defs.values() for pfx, _, _ in lst):
            for t, pc in P.path_conditions(gen, lambda x: x is n):
                cands.append((sec, pc))
    if not cands:
        return []       # reported as 'unloaded' by helper_problems
    tests = [t for t, _ in cc]
    spans = []
    for sec, pc in cands:
        spans.append((len(tests), len(tests) + len(pc)))
        tests += [t for t, _ in pc]
    typed = {'self.cdivision': [None, False, True], 'self.truedivision': [None, False, True], 'self.type.is_pyobject': [False]}
    for subst, av, vals in P.truth_table(tests, typed):
        if not P.conj_holds(cc, vals[:len(cc)]):
            continue
        if not any(P.conj_holds(pc, vals[a:b]) for (sec, pc), (a, b) in zip(cands, spans)):
            when = ', '.join('%s=%s' % kv for kv in sorted(av.items())) or 'always'
            return [('unloaded-when', 'emits a call to %s<T> when %s (cdivision %r) but loads none of %s under that condition: the generated C calls an undeclared function'
                     % (prefix, when, subst['self.cdivision'], sorted({s for s, _ in cands})))]
    return []


# ------------------------------------------------------------------------------------------------------------------ run
def run(ctx):
    ix = ctx.index
    rules = []
    fam = family(ix)
    if len(fam) < 2 or not any(c.name == 'ModNode' for c in fam):
        raise AnalysisError('DivNode family: ModNode is no longer a subclass of DivNode')
    fam_names = {c.name for c in fam}

    # ---------------------------------------------------------------- WARN
    r = Rule('C03-WARN', 'every generate_evaluation_code of the DivNode family calls self.generate_div_warning_code(code) on every path, after the operands were evaluated', floor=2)
    for c, fn in own_methods(fam, 'generate_evaluation_code'):
        key = '%s.generate_evaluation_code' % c.qual
        r.inst(key, sample=key)
        for p in sorted(warn_problems(fn)):
            if p == 'missing':
                r.violate(key + ':missing', REL, fn.lineno, '%s has a path that never calls self.generate_div_warning_code(code): no zero-division test and no cdivision warning '
                                                             'is emitted for this node class, `x %s 0` traps in C' % (key, '%' if c.name == 'ModNode' else '//'))
            else:
                r.violate(key + ':early', REL, fn.lineno, '%s calls generate_div_warning_code before the operands are evaluated: the zero test reads operand2.result() before its temporary is assigned' % key)
    pcf = ast.parse("def generate_evaluation_code(self, code):\n    if self.cdivision:\n        NumBinopNode.generate_evaluation_code(self, code)\n        return\n"
                    "    NumBinopNode.generate_evaluation_code(self, code)\n    self.generate_div_warning_code(code)\n").body[0]
    r.positive_control(warn_problems(pcf) == {'missing'}, 'early return without the warning call')
    rules.append(r)

    # ---------------------------------------------------------------- ZGUARD
    r = Rule('C03-ZGUARD', 'the ZeroDivisionError emission of generate_div_warning_code is guarded only by zerodivision_check / not-a-Python-object and tests operand2', floor=1)
    gw = own_methods(fam, 'generate_div_warning_code')
    if not gw:
        raise AnalysisError('DivNode.generate_div_warning_code vanished')
    from ..rules import sC03 as _s3
    for c, fn in gw:
        key = '%s.generate_div_warning_code' % c.qual
        r.inst(key, sample=key)
        for k, msg in zguard_problems(_s3.inline_self_calls(ix, c, fn)):       # an emission block extracted into a helper method is analysed in place
            r.violate(key + ':' + k, REL, fn.lineno, '%s: %s' % (key, msg))
    pcf = ast.parse("def generate_div_warning_code(self, code):\n    if not self.type.is_pyobject:\n        if self.zerodivision_check and self.type.signed:\n"
                    "            zero_test = '%s == 0' % self.operand1.result()\n            code.putln('if (unlikely(%s)) {' % zero_test)\n"
                    "            code.putln('PyErr_SetString(PyExc_ZeroDivisionError, \"x\");')\n").body[0]
    r.positive_control({k for k, _ in zguard_problems(pcf)} == {'extra-guard', 'operand'}, 'extra guard and wrong operand')
    rules.append(r)

    # ---------------------------------------------------------------- ZDC / CDIV
    rz = Rule('C03-ZDC', 'zerodivision_check is true whenever cdivision is not pinned, the scoped cdivision directive is off and the divisor is not a non-zero constant', floor=1)
    rc = Rule('C03-CDIV', 'a computed cdivision is true when the scoped directive is on and false for signed integer types when it is off', floor=2)
    for c in fam:
        for name, fn in c.methods.items():
            for s in assignments(fn, 'zerodivision_check'):
                if isinstance(s.value, ast.Constant):
                    continue
                key = '%s.%s:zerodivision_check' % (c.qual, name)
                rz.inst(key, sample='%s = %s' % (key, node_src(s.value, 100)))
                p = zdc_problem(fn, s)
                if p:
                    rz.violate(key, REL, s.lineno, '%s %s' % (key, p))
            for s in assignments(fn, 'cdivision'):
                if isinstance(s.value, ast.Constant):
                    continue
                key = '%s.%s:cdivision' % (c.qual, name)
                rc.inst(key, sample='%s = %s' % (key, node_src(s.value, 100)))
                p = cdiv_problem(fn, s)
                if p:
                    rc.violate(key, REL, s.lineno, '%s %s' % (key, p))
    pcf = ast.parse("def analyse_operation(self, env):\n    if not self.type.is_pyobject:\n        self.zerodivision_check = (self.cdivision is None and env.directives['cdivision']"
                    " and (not self.operand2.has_constant_result() or self.operand2.constant_result == 0))\n").body[0]
    rz.positive_control(zdc_problem(pcf, assignments(pcf, 'zerodivision_check')[0]) is not None, 'directive test inverted')
    pcf = ast.parse("def analyse_operation(self, env):\n    self.cdivision = env.directives['cdivision'] or self.type.signed\n").body[0]
    rc.positive_control(cdiv_problem(pcf, assignments(pcf, 'cdivision')[0]) is not None, 'signedness test inverted')
    rules += [rz, rc]

    # ---------------------------------------------------------------- SCOPED
    r = Rule('C03-SCOPED', 'directive reads in the DivNode family go through a parameter (env.directives / code.globalstate.directives) with a key Options defines; Options\' defaults are never read', floor=5)
    otree = ctx.parse('Cython/Compiler/Options.py')
    dflt = tables.module_assign(otree, '_directive_defaults')
    if not isinstance(dflt, ast.Dict):
        raise AnalysisError('Options._directive_defaults is not a dict literal')
    okeys = {tables.literal(k) for k in dflt.keys if k is not None}

    def scoped_problems(fn):
        out = []
        params = {a.arg for a in fn.args.args}
        for n, base, key in directive_reads(fn):
            root = base
            while isinstance(root, (ast.Attribute, ast.Subscript, ast.Call)):
                root = root.value if not isinstance(root, ast.Call) else root.func
            if not (isinstance(root, ast.Name) and root.id in params and root.id != 'self'):
                out.append(('unscoped:%s' % key, n, 'reads directive %r from %s, which is not the scope handed to the method (env / code): a `# cython: cdivision=...` or '
                                                    '@cython.cdivision decorator of the enclosing scope is ignored' % (key, node_src(n.value if isinstance(n, ast.Subscript) else n.func.value))))
            if key is not None and key not in okeys:
                out.append(('unknown:%s' % key, n, 'reads directive %r which Options._directive_defaults does not define (KeyError at compile time)' % key))
        for n in walk_no_nested(fn):
            if isinstance(n, ast.Attribute) and n.attr in ('_directive_defaults', 'get_directive_defaults', 'directive_defaults'):
                out.append(('defaults', n, 'reads %s: the global default replaces the directive of the enclosing scope' % node_src(n)))
        return out
    for c in fam:
        for name, fn in c.methods.items():
            for n, base, key in directive_reads(fn):
                r.inst('%s.%s:%s' % (c.qual, name, key), sample='%s.%s reads %s' % (c.qual, name, node_src(n)))
            for k, n, msg in scoped_problems(fn):
                r.violate('%s.%s:%s' % (c.qual, name, k), REL, n.lineno, '%s.%s %s' % (c.qual, name, msg))
    pcf = ast.parse("def generate_evaluation_code(self, code):\n    self.cdivision = Options.get_directive_defaults()['cdivision'] or self.env.directives['cdivison']\n").body[0]
    r.positive_control({k.split(':')[0] for k, _, _ in scoped_problems(pcf)} == {'defaults', 'unscoped', 'unknown'}, 'defaults read, self.env, misspelt key')
    rules.append(r)

    # ---------------------------------------------------------------- HELPER / SEL
    rh = Rule('C03-HELPER', 'emitted __Pyx_div_<T> / __Pyx_mod_<T> calls agree with a CMath.c section loaded by the same class (name key, arity, specialised type); '
                            'every %(key)s of a loaded section is provided by specialize()', floor=5)
    rs = Rule('C03-SEL', 'calculate_result_code emits the Python-semantics helper only when cdivision is false and the plain C operator only when cdivision or truedivision is set', floor=4)
    spec_keys = specialize_keys(ctx)
    for c in fam:
        if 'calculate_result_code' not in c.methods:
            continue
        fn = c.methods['calculate_result_code']
        gen = ix.find_method(c, 'generate_evaluation_code')
        if gen is None:
            raise AnalysisError('%s has no generate_evaluation_code' % c.qual)
        loads = loaded_sections(gen[1])
        calls = helper_calls(fn)
        if not calls:
            rh.inst('%s.calculate_result_code' % c.qual)
            rh.violate('%s.calculate_result_code:no-helper' % c.qual, REL, fn.lineno,
                       '%s.calculate_result_code no longer emits a __Pyx_div_/__Pyx_mod_ helper call: C integers are divided with C semantics although cdivision is off' % c.qual)
        for call in calls:
            key = '%s.calculate_result_code:%s' % (c.qual, call[1])
            rh.inst(key, sample='%s emits %s{%s}(%d args)' % (c.qual, call[1], node_src(call[2]), call[3]))
            for k, msg in helper_problems(ctx, call, loads, spec_keys) + coverage_problems(ctx, fn, call, gen[1], loads):
                rh.violate(key + ':' + k, REL, call[0].lineno, '%s.calculate_result_code %s' % (c.qual, msg))
        for sec, ufile, stype, kws, line, _n in loads:
            if ufile != CMATH:
                continue
            key = '%s.generate_evaluation_code:%s' % (c.qual, sec)
            rh.inst(key, sample='%s loads %s::%s.specialize(%s%s)' % (c.qual, ufile, sec, stype, ''.join(', %s=' % k for k in sorted(kws))))
            defs, keys = c_helpers(ctx, sec)
            if defs is None:
                rh.violate(key + ':missing', REL, line, '%s loads %s::%s which does not exist' % (c.qual, ufile, sec))
                continue
            if stype is None:
                rh.violate(key + ':unspecialised', REL, line, '%s uses %s::%s without .specialize(type): its %%(type)s placeholders are emitted verbatim' % (c.qual, ufile, sec))
                continue
            for k in sorted(keys - set(spec_keys) - kws):
                rh.violate(key + ':subst:' + k, REL, line, '%s::%s contains %%(%s)s but specialize(%s%s) only provides %s: KeyError while compiling any C `%s`'
                           % (ufile, sec, k, stype, ''.join(', %s=..' % x for x in sorted(kws)), sorted(set(spec_keys) | kws), '%' if 'Mod' in sec else '//'))
        # SEL
        typed = {'self.cdivision': [None, False, True], 'self.truedivision': [None, False, True]}
        hc = {id(call[0]) for call in calls}
        for n, text, ph in emitted_templates(fn):
            kind = 'helper' if id(n) in hc else ('plain' if PLAIN_OP.match(text.strip()) else None)
            if kind is None:
                continue
            conds = None
            for t, pc in P.path_conditions(fn, lambda x: x is n):
                conds = pc
            key = '%s.calculate_result_code:%s:%s' % (c.qual, kind, text.replace(PLACEHOLDER, '_')[:30])
            rs.inst(key, sample=key)
            p = sel_problem(conds, typed, kind)
            if p:
                rs.violate(key, REL, n.lineno, '%s.calculate_result_code %s' % (c.qual, p))
    pcf = ast.parse("def calculate_result_code(self):\n    if not self.cdivision:\n        return f'({op1} % {op2})'\n    return f'__Pyx_mod_{self.type.specialization_name()}({op1}, {op2}, 0)'\n").body[0]
    got = set()
    for n, text, ph in emitted_templates(pcf):
        conds = [pc for t, pc in P.path_conditions(pcf, lambda x: x is n)][0]
        kind = 'helper' if HELPER_CALL.search(text) else 'plain'
        if sel_problem(conds, {'self.cdivision': [None, False, True], 'self.truedivision': [None, False, True]}, kind):
            got.add(kind)
    rs.positive_control(got == {'helper', 'plain'}, 'branches swapped')
    pc = helper_problems(ctx, (None, '__Pyx_mod_', ast.parse('self.type.specialization_name()', mode='eval').body, 2),
                         [('ModInt', CMATH, 'self.type', set(), 0, None)], spec_keys)
    rh.positive_control(any(k.startswith('arity') for k, _ in pc), 'two-argument call of __Pyx_mod_')
    rules += [rh, rs]

    # ---------------------------------------------------------------- PIN
    rules.append(rule_pin(ctx, fam_names))
    # ---------------------------------------------------------------- SIB (+ HELPERS: each copy and each original against the definition of // and %)
    from ..rules import dscope, flooradj
    from ..rules import sC03
    rsib, rh2 = sC03.sib_with_helpers(ctx, 'C03-SIB')
    rules.append(rsib)
    rules.append(rh2)
    rules.append(dscope.rule_dscope(ctx))
    rules.append(flooradj.rule_adj(ctx))
    rules.append(sC03.rule_inplace(ctx))
    rules.append(sC03.rule_guard(ctx))
    rules.append(sC03.rule_raise(ctx))
    rules.append(sC03.rule_simple(ctx))
    return rules


def sel_problem(conds, typed, kind):
    tests = [t for t, _ in conds]
    for subst, av, vals in P.truth_table(tests, typed):
        if not P.conj_holds(conds, vals):
            continue
        if kind == 'helper' and subst['self.cdivision']:
            return 'emits the Python-semantics helper call although self.cdivision is true: cdivision=True code still pays for (and gets) floor semantics'
        if kind == 'plain' and not subst['self.cdivision'] and not subst['self.truedivision']:
            return ('emits the plain C operator although self.cdivision is %r (and truedivision %r): with the cdivision directive off, -7 // 2 gives -3 and -7 %% 2 gives -1'
                    % (subst['self.cdivision'], subst['self.truedivision']))
    return None


# ------------------------------------------------------------------------------------------------------------------ PIN
def rule_pin(ctx, fam_names):
    ix = ctx.index
    r = Rule('C03-PIN', 'every DivNode/ModNode a transform synthesises with a constant operator (outside the parser) pins cdivision explicitly instead of inheriting the user\'s directive', floor=2)
    en = ix.mod('ExprNodes')
    tab = tables.module_assign(en.tree, 'binop_node_classes')
    if not isinstance(tab, ast.Dict):
        raise AnalysisError('ExprNodes.binop_node_classes is not a dict literal')
    div_ops = {tables.literal(k) for k, v in zip(tab.keys, tab.values) if isinstance(v, ast.Name) and v.id in fam_names}
    if not div_ops:
        raise AnalysisError('binop_node_classes maps no operator to the DivNode family')

    def sites(fn):
        """[(call, description, pinned)]"""
        out = []
        parents = {}
        for n in ast.walk(fn):
            for ch in ast.iter_child_nodes(n):
                parents[id(ch)] = n
        for c in walk_no_nested(fn):
            if not isinstance(c, ast.Call):
                continue
            name = _call_name(c)
            what = None
            if name in fam_names:
                what = name
            elif name == 'binop_node':
                op = None
                if len(c.args) > 1:
                    op = c.args[1]
                for k in c.keywords:
                    if k.arg == 'operator':
                        op = k.value
                if isinstance(op, ast.Constant) and op.value in div_ops:
                    what = 'binop_node(%r)' % op.value
            if what is None:
                continue
            pinned = any(k.arg == 'cdivision' for k in c.keywords)
            if not pinned:
                # X = <call>; X.cdivision = <const> later in the same statement list
                p = parents.get(id(c))
                if isinstance(p, ast.Assign) and p.value is c and len(p.targets) == 1 and isinstance(p.targets[0], ast.Name):
                    var = p.targets[0].id
                    blk = parents.get(id(p))
                    for f in ('body', 'orelse', 'finalbody'):
                        lst = getattr(blk, f, None)
                        if isinstance(lst, list) and p in lst:
                            for s in lst[lst.index(p) + 1:]:
                                if isinstance(s, ast.Assign) and any(isinstance(t, ast.Attribute) and t.attr == 'cdivision' and isinstance(t.value, ast.Name) and t.value.id == var
                                                                     for t in s.targets):
                                    pinned = True
                                    break
                                if any(isinstance(x, ast.Name) and x.id == var and isinstance(x.ctx, ast.Store) for x in ast.walk(s)):
                                    break
            out.append((c, what, pinned))
        return out
    for m in ix.modules.values():
        if not m.name.startswith('Cython.Compiler') or m.short == 'Parsing':
            continue
        if 'binop_node' not in m.src and not any(n in m.src for n in fam_names):
            continue
        for qn, owner, fn in ix.functions_of(m):
            if m is en and (qn == 'binop_node' or (owner is not None and owner.name in fam_names)):
                continue
            for c, what, pinned in sites(fn):
                key = '%s.%s:%s' % (m.short, qn, what)
                r.inst(key, sample='%s creates %s%s' % (m.short + '.' + qn, what, ' (pinned)' if pinned else ''))
                if not pinned:
                    r.violate(key, m.rel, c.lineno,
                              '%s.%s synthesises %s without pinning cdivision: the node obeys the user\'s `cdivision` directive, so code the compiler generated for its own '
                              'purposes rounds differently (and loses its zero test) under `# cython: cdivision=True`' % (m.short, qn, what))
    pcf = ast.parse("def f(self, node):\n    n = ExprNodes.binop_node(node.pos, '//', a, b)\n    m = ExprNodes.binop_node(node.pos, '%', a, b)\n    m.cdivision = True\n    return n, m\n").body[0]
    got = sorted(sites(pcf), key=lambda x: x[0].lineno)
    r.positive_control(len(got) == 2 and [p for _, _, p in got] == [False, True], 'unpinned // next to a pinned %')
    return r
