"""C05 — Python int <-> C integer conversion: the CIntToPy / CIntFromPy templates and the Python side that instantiates them
agree on context keys, function names, error sentinel, digit counts and C-API types."""
import ast, re

from ..core import Rule, AnalysisError, node_src
from ..engine import pyflow, tables
from ..engine.pyindex import walk_no_nested, is_self_attr
from ..engine.cutil import match_paren, split_args, strip_c_comments
from ..rules import pC04 as P
from ..rules.iface import str_template, PLACEHOLDER

ID = 'C05'
TECHNIQUE = ('Tempita read sets vs context dictionaries at the four instantiation sites, name agreement between the attribute the call '
             'sites use and the key the template defines, constant propagation of class attributes through error_condition (partial '
             'evaluation over the finite class family), sentinel extraction from the C template, loop-variable agreement inside the '
             '{{for _size}} blocks, reference comparison of C-API argument/return types with the installed CPython headers; '
             'per preprocessor/Tempita variant: guard / dominator extraction (cguard) and an interprocedural "sign-checked" typestate over the CIntFromPy functions; '
             'bounded model check of the instantiated conversion templates on model machines with a model PyLong (rules/pC03.py interpreter, documented contracts of the C-API as hooks); '
             'typed truth table of the emitted sentinel comparison over every integer rank x signedness')
DECIDES = ('(CTX) every load of CIntToPy / CIntFromPy binds all variables the template reads; the key used as the defined function name is bound to the '
           'very attribute (to_py_function / from_py_function) the call sites emit, that attribute was assigned a per-type name '
           '(contains specialization_name()) before, and TYPE is the type\'s own C declaration; '
           '(SENT) every constant return in CIntFromPy / CIntFromPyVerify is ({{TYPE}}) -1 (macro: (target_type) -1 with target_type = {{TYPE}} at every use), '
           'after every PyErr_SetString/PyErr_Format the value delivered is that sentinel, and for every C integer class that uses the template the '
           'effective error_condition (class constants propagated) tests PyErr_Occurred() and, if it compares the result, compares it with exactly -1; '
           '(DIGITS) inside every {{for _size in ...}} block the digit count tested (`size == {{v}}`) is the count passed to pylong_join, the digits pointer '
           'named is the one declared, and a join without explicit type is verified against pylong_join\'s default join type; '
           '(API) in __PYX_VERIFY_RETURN_INT_EXC(T, F, Api(x)) F is the return type of Api in the CPython headers and the size guard compares with sizeof(F); '
           'in CIntToPy each `sizeof(T) <op> sizeof(G)) return Api((C) value)` has C == G == parameter type of Api, signed G in the unsigned branch only under `<`; '
           '(NEG) in every preprocessor variant each value CIntFromPy delivers for an unsigned TYPE (__PYX_VERIFY_RETURN_INT[_EXC] sites, `return (TYPE) <digits>`) lies in the else-arm of / behind a '
           'rejecting negativity test of x, in the function or at all its unsigned-capable call sites, unless the value comes from a C-API converter that rejects negatives itself (rules/sC05.py); '
           '(FIXED) the hand-named to_py/from_py functions of the fixed integer types (size_t, Py_ssize_t, Py_hash_t, Py_UCS4, Py_UNICODE) take/return a C type of the same signedness class and at least the width; '
           '(MODEL) the instantiated CIntFromPy (five preprocessor variants), __Pyx_PyIndex_AsSsize_t / __Pyx_PyLong_AsSsize_t and CIntToPy are evaluated by the checker\'s C interpreter on model machines '
           '(8/16/32-bit TYPE against 8/16-bit long and long long, 3-bit PyLong digits, model PyLong objects with the documented contracts of the accessors and C-API converters): every Python int of up to three digits '
           'and the boundary / digit-pattern set beyond is converted exactly when it fits, raises OverflowError and returns (TYPE) -1 when it does not, objects with __index__ are converted, other objects give TypeError, '
           'no undefined C operation (NULL dereference, signed shift into the sign bit, read past the digits) is executed, and CIntToPy hands back the value of the C integer (rules/sC05.py); '
           '(ERRTYPE) the sentinel comparison emitted by error_condition (CType and the external-typedef variant, cast_code & co. resolved) is true for (T)-1 and false otherwise for every integer rank x signedness under C\'s promotion rules.')
DECIDES += (' (TDEFERR, rules/s7C05.py) external integer typedefs: every feasible path of CTypedefType.error_condition for {typedef_is_external, integer base class constants seen through __getattr__} emits a sentinel test that is '
            'true for (T)-1 of the REAL type and false otherwise for every rank x signedness of the real type x every rank x signedness of the DECLARED base type (delegation to the base type renders its cast as the declared type); '
            'CTypedefType.from_py_call_code hands its own error_condition(result_code) to the base type\'s emitter whenever the caller gave none.')
NOT_DECIDED = ('the transfer of MODEL from the model widths (8-bit byte, 3-bit digits) to the production widths - it rests on the width-parametricity of the template (widths only through sizeof / PyLong_SHIFT / the literal 8); '
               'the accessor macros themselves (__Pyx_PyLong_IsNeg, _DigitCount, _Digits, _CompactValue: modelled by their contracts) and __Pyx_PyNumber_Long; the text pylong_join generates (its documented meaning is modelled); '
               'the bit-chunk fallback of __Pyx_LargePyLong_* (PyPy / limited API) and the int.from_bytes() fallback of CIntToPy; error_condition of typedefs whose exception_value is an instance attribute other than -1; '
               'DESIGN\'s "sibling agreement of the {{for _size in (2,3,4)}} sets" is deliberately NOT implemented: a branch that handles fewer digit counts '
               'falls through to the generic path and is still correct, so set equality is not a necessary condition.')
ASSUMPTIONS = ['CPython headers of the running interpreter are the reference for C-API types; PyLong_AsInt (3.13+) is frozen as returning int']

EXEMPT = {
    ('C05-SENT', 'PyrexTypes.CReturnCodeType.error_condition'):
        'CReturnCodeType (exception_check = False) is the type of C status codes returned by helpers; nothing converts a Python object to it, '
        'so its PyErr_Occurred-less error_condition never guards a __Pyx_PyLong_As_ call',
}

TC = 'TypeConversion.c'
SECTIONS = {'CIntToPy': 'to_py_function', 'CIntFromPy': 'from_py_function'}
FROZEN_API = {'PyLong_AsInt': 'int'}      # https://docs.python.org/3.13/c-api/long.html#c.PyLong_AsInt


def _norm_type(t):
    t = ' '.join(t.replace('PY_LONG_LONG', 'long long').split())
    return t


# =============================================================================================== CTX
def _name_key(cat, sec):
    proto = P.section_texts(cat, TC, sec).get('proto')
    if proto is None:
        raise AnalysisError('%s has no .proto part' % sec)
    ks = set(re.findall(r'[\s*]\{\{(\w+)\}\}\s*\(', proto.raw))
    if len(ks) != 1:
        raise AnalysisError('cannot identify the function-name key of %s (found %s)' % (sec, sorted(ks)))
    return ks.pop()


def _assigned_before(fn, call, attr):
    """value nodes assigned to self.<attr> in fn on lines before the load call."""
    return [n.value for n in walk_no_nested(fn) if isinstance(n, ast.Assign) and n.lineno <= call.lineno and
            any(is_self_attr(t) and t.attr == attr for t in n.targets)]


def rule_ctx(ctx):
    cat = ctx.cat
    r = Rule('C05-CTX', 'CIntToPy / CIntFromPy are instantiated with all keys they read, under the name the call sites use, for the type\'s own C declaration', floor=4)
    sites = [s for s in P.load_sites(ctx, TC) if s.sections and s.sections & set(SECTIONS)]
    if not sites:
        raise AnalysisError('no load site of CIntToPy/CIntFromPy')
    seen_secs = set()
    for s in sites:
        for sec in sorted(s.sections & set(SECTIONS)):
            seen_secs.add(sec)
            attr = SECTIONS[sec]
            key = '%s.%s:%s' % (s.module.short, s.qual, sec)
            reads = P.tempita_reads(P.section_all_text(cat, TC, sec))
            items = P.context_items(s)
            if items is None:
                raise AnalysisError('context of %s is not a literal dict' % key)
            r.inst(key, sample='%s: keys %s, template reads %s' % (key, sorted(items), sorted(reads)))
            for v in sorted(reads - set(items)):
                r.violate('%s:%s' % (key, v), s.module.rel, s.call.lineno,
                          '%s loads TypeConversion.c::%s with keys %s but the template reads {{%s}}: Tempita raises NameError, every module converting this C integer type crashes the compiler'
                          % (s.qual, sec, sorted(items), v))
            nk = _name_key(cat, sec)
            impl = P.section_texts(cat, TC, sec).get('impl')
            if impl is None or not re.search(r'[\s*]\{\{%s\}\}\s*\((?:[^;{]|\{\{\w+\}\})*\)\s*\{' % nk, impl.raw):
                r.violate('%s:impl-name' % key, 'Cython/Utility/' + TC, impl.line if impl else 1,
                          '%s.proto declares {{%s}}(...) but the implementation part does not define a function of that name' % (sec, nk))
            if nk in items:
                v = items[nk]
                vs = node_src(v)
                assigned = _assigned_before(s.fn, s.call, attr)
                ok = (is_self_attr(v) and v.attr == attr and bool(assigned)) or any(node_src(a) == vs for a in assigned)
                if not ok:
                    r.violate('%s:%s' % (key, nk), s.module.rel, s.call.lineno,
                              '%s instantiates %s with %s=%s, but the conversion calls emitted later use self.%s%s: the generated C calls a function the template did not define'
                              % (s.qual, sec, nk, vs, attr, '' if assigned else ' (not assigned in this method)'))
                for a in assigned:
                    if not any(isinstance(x, ast.Call) and isinstance(x.func, ast.Attribute) and x.func.attr == 'specialization_name' for x in ast.walk(a)):
                        r.violate('%s:%s-not-per-type' % (key, attr), s.module.rel, a.lineno,
                                  '%s sets self.%s = %s, which does not depend on specialization_name(): two C integer types share one converter name (redefinition / wrong width)'
                                  % (s.qual, attr, node_src(a, 60)))
            if 'TYPE' in items:
                ts = P.resolve_local(s.fn, items['TYPE'])
                if not re.fullmatch(r"self\.(empty_declaration_code\(\)|declaration_code\((''|\"\")\))", ts):
                    r.violate('%s:TYPE' % key, s.module.rel, s.call.lineno,
                              '%s instantiates %s with TYPE=%s instead of the type\'s own declaration: the converter is generated for another C type' % (s.qual, sec, ts))
    if seen_secs != set(SECTIONS):
        raise AnalysisError('load sites found only for %s' % sorted(seen_secs))
    r.positive_control(P.tempita_reads('{{py: from m import f}}{{for _s in (2, 3)}}{{f(_s, TYPE)}}{{endfor}}{{if IS_ENUM}}x{{endif}}') == {'TYPE', 'IS_ENUM'},
                       'read set with py: import and loop variable')
    return r


# =============================================================================================== SENT
RET_CONST = re.compile(r'\breturn\s*\(\s*([^();]+?)\s*\)\s*(-?\s*\d+)\s*;')


def _c_sentinels(text):
    return [(m.group(1).strip(), m.group(2).replace(' ', ''), m.start()) for m in RET_CONST.finditer(text)]


def _after_raise(text):
    """[(offset of PyErr_ call, delivered text)] : the first `return ...;` or `x = (cast) const;` after each raise."""
    out = []
    for m in re.finditer(r'\bPyErr_(?:SetString|Format)\s*\(', text):
        rp = match_paren(text, m.end() - 1)
        rest = text[rp + 1:]
        mm = re.search(r'\breturn\b([^;]*);|\b\w+\s*=\s*(\(\s*[^();]+\)\s*-?\s*\d+)\s*;', rest)
        out.append((m.start(), ' '.join((mm.group(1) or mm.group(2)).split()) if mm else None))
    return out


def _error_condition_paths(ix, cls, fn):
    """Partial evaluation of error_condition with the class-level constants of cls: [(decided, text or None, [placeholder sources])]."""
    def const_attr(name):
        a = ix.find_class_attr(cls, name)
        if a is None:
            return None
        try:
            return ('v', ast.literal_eval(a[1]))
        except Exception:
            return None

    def ev(t, st):
        if isinstance(t, ast.UnaryOp) and isinstance(t.op, ast.Not):
            v = ev(t.operand, st)
            return None if v is None else not v
        if isinstance(t, ast.BoolOp):
            vals = [ev(v, st) for v in t.values]
            if isinstance(t.op, ast.And):
                if any(v is False for v in vals):
                    return False
                return True if all(v is True for v in vals) else None
            if any(v is True for v in vals):
                return True
            return False if all(v is False for v in vals) else None
        if is_self_attr(t):
            c = const_attr(t.attr)
            return None if c is None else bool(c[1])
        if isinstance(t, ast.Name):
            lst = next((f for f in st if isinstance(f, tuple) and f[0] == 'list' and f[1] == t.id), None)
            return None if lst is None else bool(lst[2])
        if isinstance(t, ast.Compare) and len(t.ops) == 1 and is_self_attr(t.left) and isinstance(t.comparators[0], ast.Constant) and t.comparators[0].value is None:
            c = const_attr(t.left.attr)
            if c is None:
                return None
            return (c[1] is None) if isinstance(t.ops[0], ast.Is) else (c[1] is not None) if isinstance(t.ops[0], ast.IsNot) else None
        if isinstance(t, ast.Compare) and len(t.ops) == 1 and isinstance(t.left, ast.Call) and isinstance(t.left.func, ast.Name) and t.left.func.id == 'len' and \
                isinstance(t.left.args[0], ast.Name) and isinstance(t.comparators[0], ast.Constant):
            lst = next((f for f in st if isinstance(f, tuple) and f[0] == 'list' and f[1] == t.left.args[0].id), None)
            if lst is not None:
                n, k = len(lst[2]), t.comparators[0].value
                return {ast.Gt: n > k, ast.GtE: n >= k, ast.Eq: n == k, ast.NotEq: n != k, ast.Lt: n < k, ast.LtE: n <= k}.get(type(t.ops[0]))
        return None

    def templ(v, st):
        if isinstance(v, ast.Name):
            f = next((f for f in st if isinstance(f, tuple) and f[0] == 'str' and f[1] == v.id), None)
            return (f[2], f[3]) if f else None
        t = str_template(v)
        if t is None:
            return None
        return t[0], tuple(node_src(p, 60) if p is not None else '?' for p in t[1])

    def drop(s, kind, name):
        return {f for f in s if not (isinstance(f, tuple) and f[0] == kind and f[1] == name)}

    def tr(n, st):
        s = set(st)
        if isinstance(n, ast.Assign) and len(n.targets) == 1 and isinstance(n.targets[0], ast.Name):
            nm = n.targets[0].id
            s = drop(drop(s, 'str', nm), 'list', nm)
            if isinstance(n.value, ast.List) and not n.value.elts:
                s.add(('list', nm, ()))
            else:
                t = templ(n.value, st)
                if t is not None:
                    s.add(('str', nm, t[0], t[1]))
        elif isinstance(n, ast.AugAssign) and isinstance(n.target, ast.Name) and isinstance(n.op, ast.Add):
            old = next((f for f in s if isinstance(f, tuple) and f[0] == 'str' and f[1] == n.target.id), None)
            t = templ(n.value, st)
            s = drop(s, 'str', n.target.id)
            if old is not None and t is not None:
                s.add(('str', n.target.id, old[2] + t[0], old[3] + t[1]))
        elif isinstance(n, ast.Expr) and isinstance(n.value, ast.Call) and isinstance(n.value.func, ast.Attribute) and n.value.func.attr == 'append' and \
                isinstance(n.value.func.value, ast.Name) and n.value.args:
            nm = n.value.func.value.id
            lst = next((f for f in s if isinstance(f, tuple) and f[0] == 'list' and f[1] == nm), None)
            t = templ(n.value.args[0], st)
            if lst is not None:
                s.discard(lst)
                if t is not None:
                    s.add(('list', nm, lst[2] + (t,)))
        elif isinstance(n, ast.Return):
            v = n.value
            res = ('ret', 'OPAQUE', ())
            if v is None or (isinstance(v, ast.Constant) and not isinstance(v.value, str)):
                res = ('ret', None, ())
            elif isinstance(v, ast.Call) and isinstance(v.func, ast.Attribute) and v.func.attr == 'join' and isinstance(v.func.value, ast.Constant) and \
                    v.args and isinstance(v.args[0], ast.Name):
                lst = next((f for f in s if isinstance(f, tuple) and f[0] == 'list' and f[1] == v.args[0].id), None)
                if lst is not None:
                    res = ('ret', v.func.value.value.join(t[0] for t in lst[2]), tuple(p for t in lst[2] for p in t[1]))
            else:
                t = templ(v, st)
                if t is not None:
                    res = ('ret', t[0], t[1])
            s.add(res)
        return frozenset(s)

    def refine(test, truth, st):
        v = ev(test, st)
        if v is None:
            return st | {'UNK'}
        return st if v == truth else None
    o = pyflow.Flow(tr, refine=refine, correlate=False).run(fn)
    out = []
    for st in o.returns | o.normal:
        ret = next((f for f in st if isinstance(f, tuple) and f[0] == 'ret'), ('ret', None, ()))
        out.append(('UNK' not in st, ret[1], ret[2]))
    return out


def rule_sent(ctx):
    ix, cat = ctx.index, ctx.cat
    r = Rule('C05-SENT', 'the failure value of the from-Python converters is ({{TYPE}}) -1 everywhere, and error_condition of every class using the template tests PyErr_Occurred() (and exactly -1 if it compares)', floor=27)
    impl = P.section_texts(cat, TC, 'CIntFromPy').get('impl')
    ver = P.section_texts(cat, TC, 'CIntFromPyVerify')
    if impl is None:
        raise AnalysisError('CIntFromPy has no implementation')
    text = strip_c_comments(impl.raw)
    sents = _c_sentinels(text)
    if len(sents) < 6:
        raise AnalysisError('only %d constant returns found in CIntFromPy' % len(sents))
    rel = 'Cython/Utility/' + TC
    for cast, lit, pos in sents:
        line = impl.line + text[:pos].count('\n')
        r.inst('CIntFromPy:return@%d' % len(r.nontrivial), sample='CIntFromPy: return (%s) %s' % (cast, lit), nontrivial=False)
        if (cast, lit) != ('{{TYPE}}', '-1'):
            r.violate('CIntFromPy:return(%s)%s' % (cast.replace(' ', ''), lit), rel, line,
                      'CIntFromPy returns the constant (%s) %s; the only constant a converter may return is the error sentinel ({{TYPE}}) -1 which error_condition tests - '
                      'a failed conversion is not detected (or a success is reported as failure)' % (cast, lit))
    for pos, delivered in _after_raise(text):
        line = impl.line + text[:pos].count('\n')
        key = 'CIntFromPy:raise@%s' % re.sub(r'\W+', '_', text[pos:pos + 60].split('\n')[0])[:50]
        r.inst(key, sample='after raise: %s' % delivered)
        if delivered is None or not re.fullmatch(r'\(\s*\{\{TYPE\}\}\s*\)\s*-\s*1', delivered):
            r.violate(key, rel, line, 'after raising (%s...) CIntFromPy delivers `%s` instead of ({{TYPE}}) -1: the caller\'s error_condition does not see the failure'
                      % (' '.join(text[pos:pos + 50].split()), delivered))
    # verify macro
    vtext = '\n'.join(strip_c_comments(s.raw) for s in ver.values())
    vs = _c_sentinels(vtext.replace('\\\n', ' '))
    md = [d for d in cat.decls.get('__PYX__VERIFY_RETURN_INT', []) if d.kind == 'macro']
    if not md or not vs:
        raise AnalysisError('__PYX__VERIFY_RETURN_INT macro or its error return vanished')
    p0 = (md[0].params or ['?'])[0].strip()
    for cast, lit, _pos in vs:
        r.inst('CIntFromPyVerify:return(%s)%s' % (cast, lit))
        if cast != p0 or lit != '-1':
            r.violate('CIntFromPyVerify:return(%s)%s' % (cast, lit), rel, md[0].line,
                      '__PYX__VERIFY_RETURN_INT returns (%s) %s on a failed C-API call instead of (%s) -1' % (cast, lit, p0))
    for m in re.finditer(r'\b(__PYX_VERIFY_RETURN_INT(?:_EXC)?)\s*\(', text):
        rp = match_paren(text, m.end() - 1)
        args = split_args(text[m.end():rp])
        key = 'CIntFromPy:%s(%s)' % (m.group(1), re.sub(r'\s+', '', ','.join(args[1:]))[:60])
        r.inst(key, nontrivial=False)
        if not args or args[0].strip() != '{{TYPE}}':
            r.violate(key + ':target', rel, impl.line + text[:m.start()].count('\n'),
                      '%s is used with target type %s instead of {{TYPE}}: the range check and the error sentinel are those of another type' % (m.group(1), args[0] if args else '?'))
    # Python side
    cil = ix.cls('PyrexTypes', 'CIntLike')
    fam = [c for c in ix.subclasses(cil)]
    users = []
    for c in fam:
        a = ix.find_class_attr(c, 'from_py_function')
        if a is not None and isinstance(a[1], ast.Constant) and a[1].value is None:
            users.append(c)
    if len(users) < 3:
        raise AnalysisError('only %d classes use the CIntFromPy template' % len(users))
    for c in users:
        eff = ix.find_method(c, 'error_condition')
        if eff is None:
            raise AnalysisError('%s has no error_condition' % c.name)
        key = 'PyrexTypes.%s.error_condition' % c.name
        paths = _error_condition_paths(ix, c, eff[1])
        r.inst(key, sample='%s -> %s' % (key, [p[1] for p in paths]))
        for decided, text_, phs in paths:
            if not decided or text_ == 'OPAQUE':
                continue
            if text_ is None or 'PyErr_Occurred()' not in text_:
                r.violate(key, eff[0].module.rel, eff[1].lineno,
                          '%s (error_condition of %s with the class constants of %s) evaluates to `%s`: without PyErr_Occurred() a legitimately converted value equal to the sentinel '
                          'is reported as an error, resp. no error is ever detected' % (key, eff[0].name, c.name, text_))
                continue
            if '==' in text_:
                ev = ix.find_class_attr(c, 'exception_value')
                val = ast.literal_eval(ev[1]) if ev is not None else None
                if not any('exception_value' in p for p in phs) or val != -1:
                    r.violate(key + ':sentinel', eff[0].module.rel, eff[1].lineno,
                              '%s compares the converted value with %r, but __Pyx_PyLong_As_<type> returns (type) -1 on failure: failed conversions are not detected' % (key, val))
            if '!=' in text_ or re.search(r'!\s*PyErr_Occurred', text_):
                r.violate(key + ':negated', eff[0].module.rel, eff[1].lineno, '%s evaluates to the negated test `%s`' % (key, text_))
    pc = ast.parse("def error_condition(self, result_code):\n    conds = []\n    if self.exception_value is not None:\n        conds.append('(%s == (%s)%s)' % (result_code, self.sign_and_name(), self.exception_value))\n"
                   "    return ' && '.join(conds)\n").body[0]
    pp = _error_condition_paths(ix, ix.cls('PyrexTypes', 'CIntType'), pc)
    r.positive_control(len(pp) == 1 and pp[0][0] and 'PyErr_Occurred' not in (pp[0][1] or ''), 'error_condition without PyErr_Occurred()')
    return r



# =============================================================================================== DIGITS
def _join_default(ctx):
    tree = ctx.parse('Cython/Utility/__init__.py')
    fn = tables.find_function(tree, 'pylong_join')
    if fn is None:
        raise AnalysisError('Cython.Utility.pylong_join vanished')
    names = [a.arg for a in fn.args.args]
    if names[:1] != ['count'] or 'join_type' not in names or 'digits_ptr' not in names:
        raise AnalysisError('pylong_join signature changed: %s' % names)
    defaults = dict(zip(names[len(names) - len(fn.args.defaults):], fn.args.defaults))
    d = defaults.get('join_type')
    if not (isinstance(d, ast.Constant) and isinstance(d.value, str)):
        raise AnalysisError('pylong_join has no constant default join_type')
    return names, d.value


def _digit_sites(raw, argnames):
    """[(offset, loop vars, count arg src, digits name, join type src or None, tested var or None, verify func type or None, declared ptr ok)]"""
    out = []
    loops = []
    for kind, code, pos in P.tempita_code_tokens(raw):
        if kind == 'for':
            m = re.match(r'(.+?)\s+in\s+(.+)$', code, re.S)
            loops.append((m.group(1).strip(), pos))
        elif kind == 'endfor':
            loops.pop()
        elif kind == 'expr' and 'pylong_join' in code:
            try:
                e = ast.parse(code, mode='eval').body
            except SyntaxError:
                raise AnalysisError('cannot parse template expression %r' % code)
            for c in ast.walk(e):
                if not (isinstance(c, ast.Call) and isinstance(c.func, ast.Name) and c.func.id == 'pylong_join'):
                    continue
                bound = dict(zip(argnames, c.args))
                bound.update({k.arg: k.value for k in c.keywords})
                cnt = bound.get('count')
                dp = bound.get('digits_ptr')
                jt = bound.get('join_type')
                start = loops[-1][1] if loops else 0
                seg = raw[start:pos]
                tests = re.findall(r'\bsize\s*==\s*\{\{\s*(\w+)\s*\}\}', seg)
                fstart = max(raw.rfind('\nstatic ', 0, pos), 0)
                dname = dp.value if isinstance(dp, ast.Constant) else 'digits' if dp is None else None
                declared = dname is not None and re.search(r'\bdigit\s*\*\s*%s\b' % re.escape(dname), raw[fstart:pos]) is not None
                mv = re.search(r'__PYX_VERIFY_RETURN_INT(?:_EXC)?\s*\(\s*\{\{TYPE\}\}\s*,\s*([^,()]+?)\s*,\s*$', raw[:pos])
                out.append((pos, [l[0] for l in loops], node_src(cnt) if cnt is not None else None, dname, node_src(jt) if jt is not None else None,
                            tests[-1] if tests else None, mv.group(1) if mv else None, declared))
    return out


def rule_digits(ctx):
    cat = ctx.cat
    r = Rule('C05-DIGITS', 'in the {{for _size}} blocks of CIntFromPy the digit count tested is the count joined, the digits pointer is the declared one, default-typed joins are verified as that type', floor=5)
    impl = P.section_texts(cat, TC, 'CIntFromPy').get('impl')
    raw = impl.raw
    if not re.search(r'\{\{py:\s*from\s+Cython\.Utility\s+import\s+[^}]*\bpylong_join\b', raw):
        raise AnalysisError('CIntFromPy no longer imports pylong_join from Cython.Utility')
    argnames, default = _join_default(ctx)
    rel = 'Cython/Utility/' + TC
    for n, (pos, loops, cnt, dname, jt, tested, vtype, declared) in enumerate(_digit_sites(raw, argnames)):
        line = impl.line + raw[:pos].count('\n')
        fn = re.findall(r'\nstatic [^\n(]*?(\w*\{\{\w+\}\}\w*|\w+)\s*\(', raw[:pos])
        key = 'CIntFromPy:%s:join#%d' % (fn[-1].replace('{{', '').replace('}}', '') if fn else '?', n)
        r.inst(key, sample='%s: size == {{%s}} ... pylong_join(%s, %r, %s) verified as %s' % (key, tested, cnt, dname, jt, vtype))
        if not loops or cnt not in loops:
            r.violate(key + ':count', rel, line, 'pylong_join(%s, ...) does not join the loop variable of its {{for}} block (%s): the number of digits read differs from the digit count handled'
                      % (cnt, loops or 'none'))
        elif tested is None:
            r.violate(key + ':untested', rel, line, 'the block joining %s digits does not test `size == {{%s}}` first: digits beyond ob_size are read' % (cnt, cnt))
        elif tested != cnt:
            r.violate(key + ':count', rel, line, 'the block tests `size == {{%s}}` but joins {{%s}} digits: a value with %s digits is assembled from a different number of digits'
                      % (tested, cnt, tested))
        if not declared:
            r.violate(key + ':digits', rel, line, 'pylong_join reads from %r, which is not a `digit*` declared in the enclosing function' % dname)
        if jt is None and vtype is not None and _norm_type(vtype) != _norm_type(default):
            r.violate(key + ':jointype', rel, line, 'the joined value has type %r (pylong_join default) but is range-checked by __PYX_VERIFY_RETURN_INT as %r: '
                      'the comparison value != (func_type)(target)value is done in another type' % (default, vtype))
    pcs = _digit_sites("static T f(PyObject *x) {\n const digit* digits = d(x);\n{{for _size in (2, 3)}}\nif (size == {{_size}}) { return {{pylong_join(_size-1, 'digits')}}; }\n{{endfor}}\n}", argnames)
    r.positive_control(len(pcs) == 1 and pcs[0][2] != pcs[0][5], 'join of _size-1 digits under size == _size')
    return r


# =============================================================================================== API
def _api_type(api, name, what):
    """C type text of the return value (what='ret') or the single parameter (what='param') of a C-API function."""
    if name in api:
        ret, params = api[name]
        if what == 'ret':
            return _norm_type(ret)
        if len(params) == 1:
            return _norm_type(re.sub(r'\b[A-Za-z_]\w*$', '', params[0]).strip() if re.search(r'\s[A-Za-z_]\w*$', params[0]) and not re.fullmatch(r'(unsigned |signed )?(long long|long|int|short|char)', params[0]) else params[0])
        return None
    if what == 'ret' and name in FROZEN_API:
        return FROZEN_API[name]
    return None


def _guard_before(text, pos):
    """(op, G) of the last `sizeof({{TYPE}}) <op> sizeof(G)` before pos."""
    ms = list(re.finditer(r'sizeof\(\s*\{\{TYPE\}\}\s*\)\s*(<=|<|==|>=|>)\s*sizeof\(\s*([^)]+?)\s*\)', text[:pos]))
    if not ms:
        return None
    # first comparison of the condition that dominates pos = first match after the last `if` keyword before pos
    k = max(text.rfind('if (', 0, pos), text.rfind('if(', 0, pos))
    ms2 = [m for m in ms if m.start() > k]
    m = ms2[0] if ms2 else ms[-1]
    return m.group(1), m.group(2)


def _to_py_sites(text):
    """[(api, cast, op, G, sign branch)] for `return PyLong_FromX((cast) value)` in CIntToPy."""
    out = []
    mu = re.search(r'if\s*\(\s*(!?)\s*is_unsigned\s*\)\s*\{', text)
    if not mu:
        raise AnalysisError('CIntToPy no longer branches on is_unsigned')
    negated = bool(mu.group(1))
    lb = mu.end() - 1
    depth, j = 0, lb
    while j < len(text):
        if text[j] == '{':
            depth += 1
        elif text[j] == '}':
            depth -= 1
            if depth == 0:
                break
        j += 1
    u_end = j
    me = re.match(r'\}\s*else\s*\{', text[u_end:])
    if not me:
        raise AnalysisError('CIntToPy: no else branch after if (is_unsigned)')
    sb = u_end + me.end() - 1
    depth, j = 0, sb
    while j < len(text):
        if text[j] == '{':
            depth += 1
        elif text[j] == '}':
            depth -= 1
            if depth == 0:
                break
        j += 1
    s_end = j
    if negated:
        # `if (!is_unsigned) { signed arm } else { unsigned arm }`
        lb, u_end, sb, s_end = sb, s_end, lb, u_end
    for m in re.finditer(r'\breturn\s+(PyLong_From\w+)\s*\(\s*\(\s*([^()]+?)\s*\)\s*value\s*\)\s*;', text):
        if lb < m.start() < u_end:
            br = 'unsigned'
        elif sb < m.start() < s_end:
            br = 'signed'
        else:
            continue
        g = _guard_before(text, m.start())
        out.append((m.group(1), m.group(2), g[0] if g else None, g[1] if g else None, br, m.start()))
    return out


def _check_to_py(api, site):
    name, cast, op, g, br, _pos = site
    probs = []
    pt = _api_type(api, name, 'param')
    if pt is None:
        return probs, False
    if _norm_type(cast) != pt:
        probs.append('passes (%s) value to %s, whose parameter is %s' % (cast, name, pt))
    if g is None:
        probs.append('calls %s without a sizeof guard' % name)
        return probs, True
    if _norm_type(g) != pt:
        probs.append('is guarded by sizeof({{TYPE}}) %s sizeof(%s) but converts through %s (%s): values that fit the guard type are truncated' % (op, g, name, pt))
    g_unsigned = _norm_type(g).startswith('unsigned')
    if br == 'unsigned' and not g_unsigned and op != '<':
        probs.append('in the unsigned branch converts through the signed type %s under `%s`: an unsigned value of the same size does not fit (strict < is required)' % (g, op))
    if br == 'signed' and g_unsigned:
        probs.append('in the signed branch converts through the unsigned type %s: negative values wrap' % g)
    if op not in ('<', '<='):
        probs.append('is guarded by `%s`, which does not bound the size of {{TYPE}} from above' % op)
    return probs, True


def rule_api(ctx):
    cat = ctx.cat
    api = tables.cpython_api()
    r = Rule('C05-API', 'C-API converters are used with the type the CPython headers declare, under a size guard for that same type', floor=8)
    rel = 'Cython/Utility/' + TC
    impl = P.section_texts(cat, TC, 'CIntFromPy').get('impl')
    text = strip_c_comments(impl.raw)
    unknown = 0
    for m in re.finditer(r'\b__PYX_VERIFY_RETURN_INT_EXC\s*\(', text):
        rp = match_paren(text, m.end() - 1)
        args = [a.strip() for a in split_args(text[m.end():rp])]
        if len(args) != 3:
            raise AnalysisError('__PYX_VERIFY_RETURN_INT_EXC used with %d arguments' % len(args))
        mc = re.fullmatch(r'(\w+)\s*\(.*\)', args[2], re.S)
        if not mc:
            unknown += 1
            continue
        fname, ft = mc.group(1), args[1]
        key = 'CIntFromPy:%s' % fname
        line = impl.line + text[:m.start()].count('\n')
        rt = _api_type(api, fname, 'ret')
        if rt is None:
            unknown += 1
            continue
        g = _guard_before(text, m.start())
        r.inst(key, sample='%s: VERIFY(%s) returns %s, guard %s' % (key, ft, rt, g))
        if _norm_type(ft) != rt:
            r.violate(key + ':functype', rel, line, '__PYX_VERIFY_RETURN_INT_EXC stores the result of %s (returns %s) in a %s: large values are truncated before the range check' % (fname, rt, ft))
        if g is None or g[0] not in ('<', '<='):
            r.violate(key + ':guard', rel, line, '%s is used without a `sizeof({{TYPE}}) <= sizeof(...)` guard' % fname)
        elif _norm_type(g[1]) != _norm_type(ft):
            r.violate(key + ':guard', rel, line, '%s (range %s) is used when sizeof({{TYPE}}) %s sizeof(%s): for a {{TYPE}} wider than %s fitting values raise OverflowError'
                      % (fname, ft, g[0], g[1], ft))
    to = P.section_texts(cat, TC, 'CIntToPy').get('impl')
    ttext = strip_c_comments(to.raw)
    sites = _to_py_sites(ttext)
    for site in sites:
        key = 'CIntToPy:%s:%s' % (site[4], site[0])
        probs, known = _check_to_py(api, site)
        if not known:
            unknown += 1
            continue
        r.inst(key, sample='%s: (%s) value under sizeof(T) %s sizeof(%s)' % (key, site[1], site[2], site[3]))
        for p in probs:
            r.violate(key, rel, to.line + ttext[:site[5]].count('\n'), 'CIntToPy %s' % p)
    if not any(s[4] == 'unsigned' for s in sites) or not any(s[4] == 'signed' for s in sites):
        raise AnalysisError('CIntToPy: C-API conversions not found in both sign branches')
    r.info('%d converter uses could not be compared with the installed headers' % unknown)
    pp, _k = _check_to_py(api, ('PyLong_FromLong', 'long', '<=', 'long', 'unsigned', 0))
    r.positive_control(bool(pp), 'unsigned value of the same size converted through long')
    return r



# =============================================================================================== ERRTYPE
"""(C05-ERRTYPE)  The from-Python converters return ({{TYPE}}) -1 on failure, i.e. the bit pattern of -1 *converted to the target type*.  The test the
Python side emits after the call (error_condition) is C text; whether it recognises that value depends on C's integer promotions: for an unsigned type
narrower than int, `r == -1` compares 255 with -1 and is never true.  The rule renders every decided path of the effective error_condition of the classes
that use the template (and of the external-typedef variant) as a C condition over the roles R (call result), T (the type's own spelling) and the class
constant exception_value, resolving cast_code() & co. through the class index, and evaluates the conjunct that mentions R with the checker's typed C
evaluator (rules/pC03.py) over every integer rank x signedness x {LP64, ILP32}:
      R == (T)-1                  => the test is true       (a failed conversion is noticed)
      R != (T)-1, R in T          => the test is false      (a converted value is not taken for an error without PyErr_Occurred() being asked ... the
                                                             sentinel conjunct alone must not fire for other values)."""
ERR_TYPES = [('char', 8), ('short', 16), ('int', 32), ('long', None), ('long long', 64)]


def _method_templates(ix, cls, name, argsrc, depth=0):
    """alternative C texts of self.<name>(args) when the method returns emitted-text templates; None entries = unmodelled alternatives"""
    if depth > 3:
        return [None]
    hit = ix.find_method(cls, name) if not isinstance(cls, tuple) else None
    if hit is None:
        return [None]
    owner, fn = hit
    params = [a.arg for a in fn.args.args][1:]
    sub = dict(zip(params, argsrc))
    out = []
    for n in walk_no_nested(fn):
        if isinstance(n, ast.Return) and n.value is not None:
            out += _render_err(ix, cls, fn, n.value, sub, depth + 1)
    return out or [None]


def _render_err(ix, cls, fn, node, sub, depth=0):
    """alternatives of an emitted-text expression of a type method; roles: sa_r (result), sa_t (own type spelling), literal sentinel"""
    selfname = fn.args.args[0].arg
    src = ast.unparse(node).replace(' ', '')
    if isinstance(node, ast.Name) and node.id in sub:
        return [sub[node.id]]
    if isinstance(node, ast.Name) and depth < 6:
        from ..rules.iface import local_env
        vals = local_env(fn).get(node.id) or []
        if vals:
            out = []
            for v in vals:
                out += _render_err(ix, cls, fn, v, sub, depth + 1)
            return out
    if re.fullmatch(re.escape(selfname) + r"\.(sign_and_name\(\)|empty_declaration_code\(\)|declaration_code\((''|\"\")\))", src):
        return ['sa_t']
    if src == selfname + '.exception_value':
        a = ix.find_class_attr(cls, 'exception_value')
        try:
            v = ast.literal_eval(a[1]) if a is not None else None
        except Exception:
            v = None
        return [str(v) if isinstance(v, int) and not isinstance(v, bool) else '-1']        # instance attribute / None: the converters return (T)-1
    if isinstance(node, ast.Constant) and isinstance(node.value, (int, str)) and not isinstance(node.value, bool):
        return [str(node.value)]
    if isinstance(node, ast.Call) and isinstance(node.func, ast.Attribute):
        args = []
        recv = node.func.value
        call_args = list(node.args)
        target_cls = cls
        if isinstance(recv, ast.Name) and recv.id != selfname and call_args and isinstance(call_args[0], ast.Name) and call_args[0].id == selfname:
            k = ix.cls('PyrexTypes', recv.id)            # BaseType.cast_code(self, x)
            if k is None:
                return [None]
            target_cls, call_args = k, call_args[1:]
            hit = (k, k.methods.get(node.func.attr)) if node.func.attr in k.methods else None
        elif isinstance(recv, ast.Name) and recv.id == selfname:
            hit = ix.find_method(cls, node.func.attr)
        else:
            return [None]
        if not hit or hit[1] is None:
            return [None]
        alts = [[]]
        for a in call_args:
            r = _render_err(ix, cls, fn, a, sub, depth + 1)
            alts = [x + [y] for x in alts for y in r]
        out = []
        for argsrc in alts:
            if any(a is None for a in argsrc):
                out.append(None)
                continue
            owner, m = hit
            params = [a.arg for a in m.args.args][1:]
            sub2 = dict(zip(params, argsrc))
            if depth > 4:
                out.append(None)
                continue
            for n in walk_no_nested(m):
                if isinstance(n, ast.Return) and n.value is not None:
                    out += _render_err(ix, cls, m, n.value, sub2, depth + 1)
        return out or [None]
    t = str_template(node)
    if t is None:
        return [None]
    text, phs = t
    alts = ['']
    parts = text.split(PLACEHOLDER)
    for i, p in enumerate(parts):
        alts = [None if a is None else a + p for a in alts]
        if i < len(phs):
            r = _render_err(ix, cls, fn, phs[i], sub, depth + 1) if phs[i] is not None else [None]
            alts = [None if (a is None or y is None) else a + y for a in alts for y in r]
    return alts


def _sentinel_conjuncts(cond):
    from ..engine import cexpr
    e = cexpr.parse(cond)

    def conj(x):
        while x[0] == 'call' and x[1] in ('likely', 'unlikely') and len(x[2]) == 1:
            x = x[2][0]
        if x[0] == 'bin' and x[1] == '&&':
            return conj(x[2]) + conj(x[3])
        return [x]
    return [c for c in conj(e) if any(y[0] == 'id' and y[1] == 'sa_r' for y in cexpr.walk(c))]


def errtype_problems(cond):
    """first problem of the sentinel part of an emitted error condition over all integer types, or None"""
    from ..rules import pC03 as MC
    from ..engine import cexpr
    try:
        parts = _sentinel_conjuncts(cond)
    except cexpr.ParseError as e:
        raise AnalysisError('C05-ERRTYPE: cannot parse the emitted error condition `%s`: %s' % (cond, e))
    if not parts:
        return None
    cache = {}
    for mname, lbits in (('LP64', 64), ('ILP32', 32)):
        for tname, bits in ERR_TYPES:
            bits = bits or lbits
            for signed in (False, True):
                types = {'char': (8, True), 'short': (16, True), 'int': (32, True), 'long': (lbits, True), 'long long': (64, True), 'size_t': (lbits, False),
                         'Py_ssize_t': (lbits, True), 'sa_t': (bits, signed)}
                it = MC.Interp(MC.Model(types, mname), {}, {}, {}, cache)
                sent = MC.wrap(-1, bits, signed)
                lo, hi = MC.lo_hi(bits, signed)
                probes = [sent] + [v for v in {0, 1, 2, lo, hi, hi - 1, 255, 65535, (1 << 32) - 1, -2, 254} if lo <= v <= hi and v != sent]
                for v in probes:
                    try:
                        val = all(bool(it.ev(c, [{'sa_r': (v, bits, signed)}])[0]) for c in parts)
                    except MC.CUndefined as u:
                        return 'evaluating the test for a %s%s result is undefined behaviour: %s' % ('' if signed else 'unsigned ', tname, u)
                    except MC.Unsupported as u:
                        raise AnalysisError('C05-ERRTYPE: the emitted error condition `%s` is outside the modelled C subset: %s' % (cond, u))
                    tn = ('' if signed else 'unsigned ') + tname
                    if v == sent and not val:
                        return ('for the target type `%s` (%s) the converter returns (%s)-1 = %d on failure, for which the emitted test is FALSE (integer promotion compares %d with -1): '
                                'the pending OverflowError/TypeError is not noticed, execution continues with the value %d' % (tn, mname, tn, sent, sent, sent))
                    if v != sent and val:
                        return 'for the target type `%s` (%s) the correctly converted value %d satisfies the sentinel test' % (tn, mname, v)
    return None


def rule_errtype(ctx):
    ix = ctx.index
    r = Rule('C05-ERRTYPE', 'the sentinel comparison in error_condition is true for (T)-1 and false for every other value of T, for all integer ranks and signednesses (C promotion rules)', floor=2)
    cil = ix.cls('PyrexTypes', 'CIntLike')
    users = []
    for c in ix.subclasses(cil):
        a = ix.find_class_attr(c, 'from_py_function')
        if a is not None and isinstance(a[1], ast.Constant) and a[1].value is None:
            users.append(c)
    td = ix.cls('PyrexTypes', 'CTypedefType')
    todo = []
    seen_fn = {}
    for c in users:
        eff = ix.find_method(c, 'error_condition')
        if eff is None:
            raise AnalysisError('%s has no error_condition' % c.name)
        seen_fn.setdefault(id(eff[1]), (eff[0], eff[1], c))
    for owner, fn, c in seen_fn.values():
        todo.append(('PyrexTypes.%s.error_condition(%s)' % (owner.name, c.name), owner, fn, c))
    if td is not None and 'error_condition' in td.methods:
        todo.append(('PyrexTypes.CTypedefType.error_condition(external typedef)', td, td.methods['error_condition'], td))
    elif td is not None:
        # no method of its own: the base type's test is used through __getattr__; what that means for external typedefs is decided by C05-TDEFERR (rules/s7C05.py)
        r.inst('PyrexTypes.CTypedefType.error_condition(external typedef)', sample='CTypedefType has no error_condition of its own')
    for key, owner, fn, c in todo:
        res = fn.args.args[1].arg if len(fn.args.args) > 1 else None
        conds = set()
        unmodelled = 0
        for n in walk_no_nested(fn):
            # every emitted-text expression of the method that contains a comparison
            if isinstance(n, (ast.BinOp, ast.JoinedStr)) and str_template(n) is not None and '==' in str_template(n)[0]:
                for alt in _render_err(ix, c, fn, n, {res: 'sa_r'}):
                    if alt is None:
                        unmodelled += 1
                    else:
                        conds.add(' '.join(alt.split()))
        if not conds and not unmodelled:
            if owner is td:
                # the typedef's method emits no comparison of its own (pure delegation): nothing to evaluate here, the delegated test is decided by C05-TDEFERR (rules/s7C05.py)
                r.inst(key, sample='%s: no comparison of its own' % key)
            continue
        r.inst(key, sample='%s: %s' % (key, sorted(conds)))
        if unmodelled:
            r.info('%s: %d alternative(s) of the emitted comparison are not modelled and not decided' % (key, unmodelled))
        for cond in sorted(conds):
            p = errtype_problems(cond)
            if p:
                r.violate(key, owner.module.rel, fn.lineno, '%s emits `%s` (sa_r = the converted value, sa_t = the C type): %s' % (key, cond, p))
                break
    r.positive_control(errtype_problems('(sa_r == -1)') is not None and errtype_problems('(sa_r == (long)-1)') is not None and errtype_problems('(sa_r == ((sa_t)-1))') is None,
                       'uncast / long-cast sentinel fire, the own-type cast passes')
    return r


def run(ctx):
    from ..rules import fixedconv, sC05, dD7, s7C05
    return [rule_ctx(ctx), rule_sent(ctx), rule_digits(ctx), rule_api(ctx), fixedconv.rule_fixed(ctx), sC05.rule_neg(ctx), sC05.rule_model(ctx), rule_errtype(ctx),
            dD7.rule_index(ctx), dD7.rule_nonint(ctx), s7C05.rule_tdeferr(ctx)]


MUTATIONS = [
    # (file, single edit, expected rule) - all tried on a scratch copy; every one was reported with a message naming the edited construct
    ('Cython/Compiler/PyrexTypes.py', 'CIntLike.create_from_py_utility_code: drop the "IS_ENUM" context key', 'C05-CTX'),
    ('Cython/Compiler/PyrexTypes.py', 'CIntLike.create_to_py_utility_code: TO_PY_FUNCTION="__Pyx_PyInt_From_" + spec while self.to_py_function keeps __Pyx_PyLong_From_', 'C05-CTX'),
    ('Cython/Compiler/PyrexTypes.py', 'CIntLike.create_from_py_utility_code: TYPE=c_long_type.empty_declaration_code()', 'C05-CTX'),
    ('Cython/Compiler/PyrexTypes.py', 'CTypedefType.create_from_py_utility_code: FROM_PY_FUNCTION=self.to_py_function', 'C05-CTX'),
    ('Cython/Utility/TypeConversion.c', '__Pyx_raise_overflow_{{FROM_PY_FUNCTION}}: return ({{TYPE}}) 0', 'C05-SENT'),
    ('Cython/Utility/TypeConversion.c', '__PYX__VERIFY_RETURN_INT: return (target_type) 0 on a failed C-API call', 'C05-SENT'),
    ('Cython/Utility/TypeConversion.c', '__PYX_VERIFY_RETURN_INT_EXC(long, long, PyLong_AsLong(x)) (target type not {{TYPE}})', 'C05-SENT'),
    ('Cython/Utility/TypeConversion.c', 'enum fallback: val = ({{TYPE}}) 0 after PyErr_SetString(RuntimeError)', 'C05-SENT'),
    ('Cython/Compiler/PyrexTypes.py', 'CIntType.exception_value = -2', 'C05-SENT'),
    ('Cython/Compiler/PyrexTypes.py', 'CType.error_condition: PyErr_Occurred() only appended `if self.exception_check and self.is_string`', 'C05-SENT'),
    ('Cython/Utility/TypeConversion.c', "negative branch: pylong_join(_size-1, 'digits') under size == {{_size}}", 'C05-DIGITS'),
    ('Cython/Utility/TypeConversion.c', 'positive signed branch: default-typed join verified as `long` instead of `unsigned long`', 'C05-DIGITS'),
    ('Cython/Utility/TypeConversion.c', '__PYX_VERIFY_RETURN_INT_EXC({{TYPE}}, long, PyLong_AsLongLong(x))', 'C05-API'),
    ('Cython/Utility/TypeConversion.c', 'PyLong_AsLong path guarded by sizeof({{TYPE}}) <= sizeof(PY_LONG_LONG)', 'C05-API'),
    ('Cython/Utility/TypeConversion.c', 'CIntToPy unsigned branch: sizeof({{TYPE}}) <= sizeof(long) -> PyLong_FromLong', 'C05-API'),
    ('Cython/Utility/TypeConversion.c', 'CIntToPy: PyLong_FromLongLong((long) value)', 'C05-API'),
    ('Cython/Utility/TypeConversion.c', 'seed C05a: unsigned dispatcher takes the compact fast path (signed compact value through __PYX_VERIFY_RETURN_INT) before the IsNeg rejection', 'C05-NEG'),
    ('Cython/Utility/TypeConversion.c', 'unsigned dispatcher: IsNeg rejection dropped (`if (IsCompact(x)) ... else`)', 'C05-NEG (compact site and the three PyULong sites)'),
    ('Cython/Utility/TypeConversion.c', 'unsigned dispatcher: rejection narrowed to `IsNeg(x) && !IsCompact(x)`', 'C05-NEG'),
    ('Cython/Utility/TypeConversion.c', 'unsigned dispatcher: `if (!IsCompact(x)) return __Pyx_PyULong_...(x);` placed before the IsNeg test', 'C05-NEG (digit sites of PyULong)'),
    ('Cython/Utility/TypeConversion.c', '__Pyx_PyULong: #elif arm loses its Py_SIZE(x) < 0 test and converts through PyLong_AsLong', 'C05-NEG'),
    ('mutants/C05/*', '15 + 6 brainstormed breaking edits (digit-count guards off by one digit, sign not applied, workers exchanged, is_signed / native-bytes flags, bytes_copied >=, error_condition casts, '
                      'VERIFY macro weakened, NULL checks dropped, compact accessor of the wrong signedness, ...) and 12 behaviour-preserving rewrites; see meta.json of each', 'C05-MODEL / C05-ERRTYPE'),
    ('Cython/Compiler/PyrexTypes.py', 'round 7 (rules/s7C05.py, mutants/C05/tdef-*): seed C05j (CTypedefType.error_condition always delegates) and siblings: external test negated / narrowed, sentinel cast by the '
                                      'declared base type, method removed, from_py_call_code passing None / the base type\'s test; 4 rewrites (if/else with a local, early return + f-string, `if x is None:` wiring, cast spelled out) silent',
     'C05-TDEFERR'),
    # behaviour-preserving edits, all silent
    ('Cython/Utility/TypeConversion.c', '__Pyx_PyULong: #elif arm loses its Py_SIZE(x) < 0 test, or the PyPy arm its `result == 1` jump (PyLong_AsUnsignedLong[Long] reject negatives themselves)', 'silent'),
    ('Cython/Utility/TypeConversion.c', 'dispatcher: `if (likely(IsCompact(x) && !IsNeg(x))) VERIFY else if (IsNeg(x)) goto raise_neg_overflow; else ...`; early-exit form '
                                        '`if (IsNeg(x)) goto ...; if (IsCompact(x)) {...}` + plain return; PyPy arm as `int is_less = ...; if (is_less < 0) return -1; else if (is_less > 0) goto ...`', 'silent'),
    ('Cython/Utility/TypeConversion.c', 'negative branch loop over (2, 3) instead of (2, 3, 4) (falls through to the generic path)', 'silent'),
    ('Cython/Utility/TypeConversion.c', 'unsigned branch: loop variable _size renamed to n', 'silent'),
    ('Cython/Compiler/PyrexTypes.py', 'create_to_py_utility_code: context keys reordered, TYPE through a local variable', 'silent'),
    ('Cython/Compiler/PyrexTypes.py', 'CType.error_condition: `if conds:` / early return instead of `if len(conds) > 0: ... else:`', 'silent'),
]
