"""C05 — Python int <-> C integer conversion: the CIntToPy / CIntFromPy templates and the Python side that instantiates them
agree on context keys, function names, error sentinel, digit counts and C-API types."""
import ast, re

from ..core import Rule, AnalysisError, node_src
from ..engine import pyflow, tables
from ..engine.pyindex import walk_no_nested, is_self_attr
from ..engine.cutil import match_paren, split_args, strip_c_comments
from ..rules import pC04 as P
from ..rules.iface import str_template, PLACEHOLDER

ID = 'C05'
TECHNIQUE = ('Tempita read sets vs context dictionaries at the four instantiation sites, name agreement between the attribute the call '
             'sites use and the key the template defines, constant propagation of class attributes through error_condition (partial '
             'evaluation over the finite class family), sentinel extraction from the C template, loop-variable agreement inside the '
             '{{for _size}} blocks, reference comparison of C-API argument/return types with the installed CPython headers')
DECIDES = ('(CTX) every load of CIntToPy / CIntFromPy binds all variables the template reads; the key used as the defined function name is bound to the '
           'very attribute (to_py_function / from_py_function) the call sites emit, that attribute was assigned a per-type name '
           '(contains specialization_name()) before, and TYPE is the type\'s own C declaration; '
           '(SENT) every constant return in CIntFromPy / CIntFromPyVerify is ({{TYPE}}) -1 (macro: (target_type) -1 with target_type = {{TYPE}} at every use), '
           'after every PyErr_SetString/PyErr_Format the value delivered is that sentinel, and for every C integer class that uses the template the '
           'effective error_condition (class constants propagated) tests PyErr_Occurred() and, if it compares the result, compares it with exactly -1; '
           '(DIGITS) inside every {{for _size in ...}} block the digit count tested (`size == {{v}}`) is the count passed to pylong_join, the digits pointer '
           'named is the one declared, and a join without explicit type is verified against pylong_join\'s default join type; '
           '(API) in __PYX_VERIFY_RETURN_INT_EXC(T, F, Api(x)) F is the return type of Api in the CPython headers and the size guard compares with sizeof(F); '
           'in CIntToPy each `sizeof(T) <op> sizeof(G)) return Api((C) value)` has C == G == parameter type of Api, signed G in the unsigned branch only under `<`.')
NOT_DECIDED = ('range conditions per digit count (8 * sizeof(T) > n * PyLong_SHIFT ...), the text pylong_join generates, the fallback bit-chunk loop, '
               'TypeError for non-integers (delegated to __Pyx_PyNumber_Long), error_condition of external typedefs (instance attributes); '
               'DESIGN\'s "sibling agreement of the {{for _size in (2,3,4)}} sets" is deliberately NOT implemented: a branch that handles fewer digit counts '
               'falls through to the generic path and is still correct, so set equality is not a necessary condition.')
ASSUMPTIONS = ['CPython headers of the running interpreter are the reference for C-API types; PyLong_AsInt (3.13+) is frozen as returning int']

EXEMPT = {
    ('C05-SENT', 'PyrexTypes.CReturnCodeType.error_condition'):
        'CReturnCodeType (exception_check = False) is the type of C status codes returned by helpers; nothing converts a Python object to it, '
        'so its PyErr_Occurred-less error_condition never guards a __Pyx_PyLong_As_ call',
}

TC = 'TypeConversion.c'
SECTIONS = {'CIntToPy': 'to_py_function', 'CIntFromPy': 'from_py_function'}
FROZEN_API = {'PyLong_AsInt': 'int'}      # https://docs.python.org/3.13/c-api/long.html#c.PyLong_AsInt
MUTATIONS = []


def _norm_type(t):
    t = ' '.join(t.replace('PY_LONG_LONG', 'long long').split())
    return t


# =============================================================================================== CTX
def _name_key(cat, sec):
    proto = P.section_texts(cat, TC, sec).get('proto')
    if proto is None:
        raise AnalysisError('%s has no .proto part' % sec)
    ks = set(re.findall(r'[\s*]\{\{(\w+)\}\}\s*\(', proto.raw))
    if len(ks) != 1:
        raise AnalysisError('cannot identify the function-name key of %s (found %s)' % (sec, sorted(ks)))
    return ks.pop()


def _assigned_before(fn, call, attr):
    """value nodes assigned to self.<attr> in fn on lines before the load call."""
    return [n.value for n in walk_no_nested(fn) if isinstance(n, ast.Assign) and n.lineno <= call.lineno and
            any(is_self_attr(t) and t.attr == attr for t in n.targets)]


def rule_ctx(ctx):
    cat = ctx.cat
    r = Rule('C05-CTX', 'CIntToPy / CIntFromPy are instantiated with all keys they read, under the name the call sites use, for the type\'s own C declaration', floor=4)
    sites = [s for s in P.load_sites(ctx, TC) if s.sections and s.sections & set(SECTIONS)]
    if not sites:
        raise AnalysisError('no load site of CIntToPy/CIntFromPy')
    seen_secs = set()
    for s in sites:
        for sec in sorted(s.sections & set(SECTIONS)):
            seen_secs.add(sec)
            attr = SECTIONS[sec]
            key = '%s.%s:%s' % (s.module.short, s.qual, sec)
            reads = P.tempita_reads(P.section_all_text(cat, TC, sec))
            items = P.context_items(s)
            if items is None:
                raise AnalysisError('context of %s is not a literal dict' % key)
            r.inst(key, sample='%s: keys %s, template reads %s' % (key, sorted(items), sorted(reads)))
            for v in sorted(reads - set(items)):
                r.violate('%s:%s' % (key, v), s.module.rel, s.call.lineno,
                          '%s loads TypeConversion.c::%s with keys %s but the template reads {{%s}}: Tempita raises NameError, every module converting this C integer type crashes the compiler'
                          % (s.qual, sec, sorted(items), v))
            nk = _name_key(cat, sec)
            impl = P.section_texts(cat, TC, sec).get('impl')
            if impl is None or not re.search(r'[\s*]\{\{%s\}\}\s*\([^;{]*\)\s*\{' % nk, impl.raw):
                r.violate('%s:impl-name' % key, 'Cython/Utility/' + TC, impl.line if impl else 1,
                          '%s.proto declares {{%s}}(...) but the implementation part does not define a function of that name' % (sec, nk))
            if nk in items:
                v = items[nk]
                vs = node_src(v)
                assigned = _assigned_before(s.fn, s.call, attr)
                ok = (is_self_attr(v) and v.attr == attr and bool(assigned)) or any(node_src(a) == vs for a in assigned)
                if not ok:
                    r.violate('%s:%s' % (key, nk), s.module.rel, s.call.lineno,
                              '%s instantiates %s with %s=%s, but the conversion calls emitted later use self.%s%s: the generated C calls a function the template did not define'
                              % (s.qual, sec, nk, vs, attr, '' if assigned else ' (not assigned in this method)'))
                for a in assigned:
                    if not any(isinstance(x, ast.Call) and isinstance(x.func, ast.Attribute) and x.func.attr == 'specialization_name' for x in ast.walk(a)):
                        r.violate('%s:%s-not-per-type' % (key, attr), s.module.rel, a.lineno,
                                  '%s sets self.%s = %s, which does not depend on specialization_name(): two C integer types share one converter name (redefinition / wrong width)'
                                  % (s.qual, attr, node_src(a, 60)))
            if 'TYPE' in items:
                ts = P.resolve_local(s.fn, items['TYPE'])
                if not re.fullmatch(r"self\.(empty_declaration_code\(\)|declaration_code\((''|\"\")\))", ts):
                    r.violate('%s:TYPE' % key, s.module.rel, s.call.lineno,
                              '%s instantiates %s with TYPE=%s instead of the type\'s own declaration: the converter is generated for another C type' % (s.qual, sec, ts))
    if seen_secs != set(SECTIONS):
        raise AnalysisError('load sites found only for %s' % sorted(seen_secs))
    r.positive_control(P.tempita_reads('{{py: from m import f}}{{for _s in (2, 3)}}{{f(_s, TYPE)}}{{endfor}}{{if IS_ENUM}}x{{endif}}') == {'TYPE', 'IS_ENUM'},
                       'read set with py: import and loop variable')
    return r


# =============================================================================================== SENT
RET_CONST = re.compile(r'\breturn\s*\(\s*([^();]+?)\s*\)\s*(-?\s*\d+)\s*;')


def _c_sentinels(text):
    return [(m.group(1).strip(), m.group(2).replace(' ', ''), m.start()) for m in RET_CONST.finditer(text)]


def _after_raise(text):
    """[(offset of PyErr_ call, delivered text)] : the first `return ...;` or `x = (cast) const;` after each raise."""
    out = []
    for m in re.finditer(r'\bPyErr_(?:SetString|Format)\s*\(', text):
        rp = match_paren(text, m.end() - 1)
        rest = text[rp + 1:]
        mm = re.search(r'\breturn\b([^;]*);|\b\w+\s*=\s*(\(\s*[^();]+\)\s*-?\s*\d+)\s*;', rest)
        out.append((m.start(), ' '.join((mm.group(1) or mm.group(2)).split()) if mm else None))
    return out


def _error_condition_paths(ix, cls, fn):
    """Partial evaluation of error_condition with the class-level constants of cls: [(decided, text or None, [placeholder sources])]."""
    def const_attr(name):
        a = ix.find_class_attr(cls, name)
        if a is None:
            return None
        try:
            return ('v', ast.literal_eval(a[1]))
        except Exception:
            return None

    def ev(t, st):
        if isinstance(t, ast.UnaryOp) and isinstance(t.op, ast.Not):
            v = ev(t.operand, st)
            return None if v is None else not v
        if isinstance(t, ast.BoolOp):
            vals = [ev(v, st) for v in t.values]
            if isinstance(t.op, ast.And):
                if any(v is False for v in vals):
                    return False
                return True if all(v is True for v in vals) else None
            if any(v is True for v in vals):
                return True
            return False if all(v is False for v in vals) else None
        if is_self_attr(t):
            c = const_attr(t.attr)
            return None if c is None else bool(c[1])
        if isinstance(t, ast.Compare) and len(t.ops) == 1 and is_self_attr(t.left) and isinstance(t.comparators[0], ast.Constant) and t.comparators[0].value is None:
            c = const_attr(t.left.attr)
            if c is None:
                return None
            return (c[1] is None) if isinstance(t.ops[0], ast.Is) else (c[1] is not None) if isinstance(t.ops[0], ast.IsNot) else None
        if isinstance(t, ast.Compare) and len(t.ops) == 1 and isinstance(t.left, ast.Call) and isinstance(t.left.func, ast.Name) and t.left.func.id == 'len' and \
                isinstance(t.left.args[0], ast.Name) and isinstance(t.comparators[0], ast.Constant):
            lst = next((f for f in st if isinstance(f, tuple) and f[0] == 'list' and f[1] == t.left.args[0].id), None)
            if lst is not None:
                n, k = len(lst[2]), t.comparators[0].value
                return {ast.Gt: n > k, ast.GtE: n >= k, ast.Eq: n == k, ast.NotEq: n != k, ast.Lt: n < k, ast.LtE: n <= k}.get(type(t.ops[0]))
        return None

    def templ(v, st):
        if isinstance(v, ast.Name):
            f = next((f for f in st if isinstance(f, tuple) and f[0] == 'str' and f[1] == v.id), None)
            return (f[2], f[3]) if f else None
        t = str_template(v)
        if t is None:
            return None
        return t[0], tuple(node_src(p, 60) if p is not None else '?' for p in t[1])

    def drop(s, kind, name):
        return {f for f in s if not (isinstance(f, tuple) and f[0] == kind and f[1] == name)}

    def tr(n, st):
        s = set(st)
        if isinstance(n, ast.Assign) and len(n.targets) == 1 and isinstance(n.targets[0], ast.Name):
            nm = n.targets[0].id
            s = drop(drop(s, 'str', nm), 'list', nm)
            if isinstance(n.value, ast.List) and not n.value.elts:
                s.add(('list', nm, ()))
            else:
                t = templ(n.value, st)
                if t is not None:
                    s.add(('str', nm, t[0], t[1]))
        elif isinstance(n, ast.AugAssign) and isinstance(n.target, ast.Name) and isinstance(n.op, ast.Add):
            old = next((f for f in s if isinstance(f, tuple) and f[0] == 'str' and f[1] == n.target.id), None)
            t = templ(n.value, st)
            s = drop(s, 'str', n.target.id)
            if old is not None and t is not None:
                s.add(('str', n.target.id, old[2] + t[0], old[3] + t[1]))
        elif isinstance(n, ast.Expr) and isinstance(n.value, ast.Call) and isinstance(n.value.func, ast.Attribute) and n.value.func.attr == 'append' and \
                isinstance(n.value.func.value, ast.Name) and n.value.args:
            nm = n.value.func.value.id
            lst = next((f for f in s if isinstance(f, tuple) and f[0] == 'list' and f[1] == nm), None)
            t = templ(n.value.args[0], st)
            if lst is not None:
                s.discard(lst)
                if t is not None:
                    s.add(('list', nm, lst[2] + (t,)))
        elif isinstance(n, ast.Return):
            v = n.value
            res = ('ret', 'OPAQUE', ())
            if v is None or (isinstance(v, ast.Constant) and not isinstance(v.value, str)):
                res = ('ret', None, ())
            elif isinstance(v, ast.Call) and isinstance(v.func, ast.Attribute) and v.func.attr == 'join' and isinstance(v.func.value, ast.Constant) and \
                    v.args and isinstance(v.args[0], ast.Name):
                lst = next((f for f in s if isinstance(f, tuple) and f[0] == 'list' and f[1] == v.args[0].id), None)
                if lst is not None:
                    res = ('ret', v.func.value.value.join(t[0] for t in lst[2]), tuple(p for t in lst[2] for p in t[1]))
            else:
                t = templ(v, st)
                if t is not None:
                    res = ('ret', t[0], t[1])
            s.add(res)
        return frozenset(s)

    def refine(test, truth, st):
        v = ev(test, st)
        if v is None:
            return st | {'UNK'}
        return st if v == truth else None
    o = pyflow.Flow(tr, refine=refine, correlate=False).run(fn)
    out = []
    for st in o.returns | o.normal:
        ret = next((f for f in st if isinstance(f, tuple) and f[0] == 'ret'), ('ret', None, ()))
        out.append(('UNK' not in st, ret[1], ret[2]))
    return out


def rule_sent(ctx):
    ix, cat = ctx.index, ctx.cat
    r = Rule('C05-SENT', 'the failure value of the from-Python converters is ({{TYPE}}) -1 everywhere, and error_condition of every class using the template tests PyErr_Occurred() (and exactly -1 if it compares)', floor=20)
    impl = P.section_texts(cat, TC, 'CIntFromPy').get('impl')
    ver = P.section_texts(cat, TC, 'CIntFromPyVerify')
    if impl is None:
        raise AnalysisError('CIntFromPy has no implementation')
    text = strip_c_comments(impl.raw)
    sents = _c_sentinels(text)
    if len(sents) < 6:
        raise AnalysisError('only %d constant returns found in CIntFromPy' % len(sents))
    rel = 'Cython/Utility/' + TC
    for cast, lit, pos in sents:
        line = impl.line + text[:pos].count('\n')
        r.inst('CIntFromPy:return@%d' % len(r.nontrivial), sample='CIntFromPy: return (%s) %s' % (cast, lit), nontrivial=False)
        if (cast, lit) != ('{{TYPE}}', '-1'):
            r.violate('CIntFromPy:return(%s)%s' % (cast.replace(' ', ''), lit), rel, line,
                      'CIntFromPy returns the constant (%s) %s; the only constant a converter may return is the error sentinel ({{TYPE}}) -1 which error_condition tests - '
                      'a failed conversion is not detected (or a success is reported as failure)' % (cast, lit))
    for pos, delivered in _after_raise(text):
        line = impl.line + text[:pos].count('\n')
        key = 'CIntFromPy:raise@%s' % re.sub(r'\W+', '_', text[pos:pos + 60].split('\n')[0])[:50]
        r.inst(key, sample='after raise: %s' % delivered)
        if delivered is None or not re.fullmatch(r'\(\s*\{\{TYPE\}\}\s*\)\s*-\s*1', delivered):
            r.violate(key, rel, line, 'after raising (%s...) CIntFromPy delivers `%s` instead of ({{TYPE}}) -1: the caller\'s error_condition does not see the failure'
                      % (' '.join(text[pos:pos + 50].split()), delivered))
    # verify macro
    vtext = '\n'.join(strip_c_comments(s.raw) for s in ver.values())
    vs = _c_sentinels(vtext.replace('\\\n', ' '))
    md = [d for d in cat.decls.get('__PYX__VERIFY_RETURN_INT', []) if d.kind == 'macro']
    if not md or not vs:
        raise AnalysisError('__PYX__VERIFY_RETURN_INT macro or its error return vanished')
    p0 = (md[0].params or ['?'])[0].strip()
    for cast, lit, _pos in vs:
        r.inst('CIntFromPyVerify:return(%s)%s' % (cast, lit))
        if cast != p0 or lit != '-1':
            r.violate('CIntFromPyVerify:return(%s)%s' % (cast, lit), rel, md[0].line,
                      '__PYX__VERIFY_RETURN_INT returns (%s) %s on a failed C-API call instead of (%s) -1' % (cast, lit, p0))
    for m in re.finditer(r'\b(__PYX_VERIFY_RETURN_INT(?:_EXC)?)\s*\(', text):
        rp = match_paren(text, m.end() - 1)
        args = split_args(text[m.end():rp])
        key = 'CIntFromPy:%s(%s)' % (m.group(1), re.sub(r'\s+', '', ','.join(args[1:]))[:60])
        r.inst(key, nontrivial=False)
        if not args or args[0].strip() != '{{TYPE}}':
            r.violate(key + ':target', rel, impl.line + text[:m.start()].count('\n'),
                      '%s is used with target type %s instead of {{TYPE}}: the range check and the error sentinel are those of another type' % (m.group(1), args[0] if args else '?'))
    # Python side
    cil = ix.cls('PyrexTypes', 'CIntLike')
    fam = [c for c in ix.subclasses(cil)]
    users = []
    for c in fam:
        a = ix.find_class_attr(c, 'from_py_function')
        if a is not None and isinstance(a[1], ast.Constant) and a[1].value is None:
            users.append(c)
    if len(users) < 3:
        raise AnalysisError('only %d classes use the CIntFromPy template' % len(users))
    for c in users:
        eff = ix.find_method(c, 'error_condition')
        if eff is None:
            raise AnalysisError('%s has no error_condition' % c.name)
        key = 'PyrexTypes.%s.error_condition' % c.name
        paths = _error_condition_paths(ix, c, eff[1])
        r.inst(key, sample='%s -> %s' % (key, [p[1] for p in paths]))
        for decided, text_, phs in paths:
            if not decided or text_ == 'OPAQUE':
                continue
            if text_ is None or 'PyErr_Occurred()' not in text_:
                r.violate(key, eff[0].module.rel, eff[1].lineno,
                          '%s (error_condition of %s with the class constants of %s) evaluates to `%s`: without PyErr_Occurred() a legitimately converted value equal to the sentinel '
                          'is reported as an error, resp. no error is ever detected' % (key, eff[0].name, c.name, text_))
                continue
            if '==' in text_:
                ev = ix.find_class_attr(c, 'exception_value')
                val = ast.literal_eval(ev[1]) if ev is not None else None
                if not any('exception_value' in p for p in phs) or val != -1:
                    r.violate(key + ':sentinel', eff[0].module.rel, eff[1].lineno,
                              '%s compares the converted value with %r, but __Pyx_PyLong_As_<type> returns (type) -1 on failure: failed conversions are not detected' % (key, val))
            if '!=' in text_ or re.search(r'!\s*PyErr_Occurred', text_):
                r.violate(key + ':negated', eff[0].module.rel, eff[1].lineno, '%s evaluates to the negated test `%s`' % (key, text_))
    pc = ast.parse("def error_condition(self, result_code):\n    conds = []\n    if self.exception_value is not None:\n        conds.append('(%s == (%s)%s)' % (result_code, self.sign_and_name(), self.exception_value))\n"
                   "    return ' && '.join(conds)\n").body[0]
    pp = _error_condition_paths(ix, ix.cls('PyrexTypes', 'CIntType'), pc)
    r.positive_control(len(pp) == 1 and pp[0][0] and 'PyErr_Occurred' not in (pp[0][1] or ''), 'error_condition without PyErr_Occurred()')
    return r


def run(ctx):
    return [rule_ctx(ctx), rule_sent(ctx)]
