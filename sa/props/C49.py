"""C49 — generated code is assembled in insertion-point order (StringIOTree + CCodeWriter)."""
import ast

from ..core import Rule, AnalysisError, node_src
from ..engine.pyindex import walk_no_nested, is_self_attr
from ..rules import sC49

ID = 'C49'
TECHNIQUE = ('symbolic evaluation of every StringIOTree method on one symbolic tree (unknown children, unknown pending text and markers; loops over '
             'children generalised from a generic element with the readers as induction hypothesis) compared with the list-of-fragments specification; '
             'linear-form newline accounting of the C code writers; def-use of the buffer handed to new writers')
DECIDES = ('with content(T) = concat(content(children)) + own stream and marks(T) likewise: '
           '(a) _collect_in / copyto / getvalue return content(T), allmarkers returns marks(T), empty() is "own stream empty and every child empty", none of them changes the tree; '
           '(b) insert(t) yields content(T) + content(t) and insertion_point() yields content(T) + <new empty tree>, same for the markers; '
           '(c) commit() keeps content and marks, leaves nothing pending and leaves self.write bound to the current stream; reset() / __init__ produce the empty tree; '
           '(d) in the C code writers (CCodeWriter family) on every path: newlines written to the buffer = markers recorded, except in private raw writers that pass on '
           'exactly their argument and are only called with newline-free text or from accounted methods; nobody else mutates .markers/.stream/.prepended_children; '
           '(e) insertion_point() of every code writer class (and of wrappers holding a writer) builds the new object on self.buffer.insertion_point() / self.writer.insertion_point(), resolved through create_new() and __init__ of each subclass; insert(w) calls self.buffer.insert(w.buffer); '
           '(f) the writers stored in GlobalState.parts are insertion points of the root writer created while iterating the layout list itself.')
NOT_DECIDED = ('the history quantifier is discharged by the invariant argument (stated as the rule applied, not a proof of behaviour); which source position a marker names '
               '(last_marked_pos bookkeeping) and the uses of the buffer by the rest of the compiler are not covered.')

READERS = ('_collect_in', 'copyto', 'getvalue', 'allmarkers', 'empty')
INSERTERS = ('insert', 'insertion_point')
MUTATORS = ('commit', 'reset', '__init__')
STATE_ATTRS = ('prepended_children', 'stream', 'write', 'markers')

MUTATIONS = [
    # every entry is stored with its patch under /verif/mutants/C49/<name>/ (replayed by the thorough tier)
    ('Cython/StringIOTree.py', 'copyto-own-first, getvalue-own-only, allmarkers-own-first, allmarkers-flat, empty-any-child, empty-ignores-children, collect-skip-unwritten, collect-reversed', 'C49a'),
    ('Cython/StringIOTree.py', 'insert-no-commit, inspoint-prepends, inspoint-commit-after, insert-front', 'C49b'),
    ('Cython/StringIOTree.py', 'commit-keeps-markers, commit-markers-first-child, commit-guard-markers, commit-shares-stream, commit-stale-write, reset-keeps-children, init-shared-children', 'C49c'),
    ('Cython/Compiler/Code.py', 'writelines-count-plus1, putln-raw-newline, write-branches-swapped, tracewrite-via-buffer, annotate-double-write', 'C49d'),
    ('Cython/Compiler/Code.py, Annotate.py, Dataclass.py', 'ccw-insert-swapped, ccw-inspoint-detached, pyx-inspoint-detached, ccw-createnew-drops-buffer, ccw-init-ignores-buffer, annot-createnew-drops-buffer, templatecode-inspoint-detached', 'C49e'),
    ('Cython/Compiler/Code.py', 'marker-wrong-pos: NOT reported (declined, see NOT_DECIDED)', ''),
    ('Cython/Compiler/Code.py', 'gs-parts-new-writer, gs-hparts-sorted', 'C49f'),
    ('*', 'behaviour preserving, silent: p-collect-skip-empty, p-copyto-tell, p-allmarkers-loop, p-commit-local-child, p-insert-alias, p-reset-init, p-writelines-local-count, '
          'p-write-early-return, p-indent-local, p-ccw-inspoint-local, writelines-marker-after, p-empty-loop, p-gs-parts-enumerate', ''),
]


def _methods(cls):
    return dict(cls.methods)


def _check(r, methods, clsname, name, rel, skip=False):
    fn = methods[name]
    if skip:
        r.info('%s.%s not evaluated: __init__ does not produce a well-formed tree (reported by C49c)' % (clsname, name))
        return []
    try:
        problems = sC49.check_method(methods, clsname, name)
    except sC49.Giveup as e:
        raise AnalysisError('C49: the symbolic evaluation of %s.%s met a construct it does not model (%s)' % (clsname, name, e))
    for kind, msg in problems:
        r.violate('%s.%s:%s' % (clsname, name, kind), rel, fn.lineno, '%s.%s: %s' % (clsname, name, msg))
    return problems


def _control(src, name):
    tree = ast.parse(src)
    cls = tree.body[0]
    methods = {n.name: n for n in cls.body if isinstance(n, ast.FunctionDef)}
    try:
        return bool(sC49.check_method(methods, cls.name, name))
    except sC49.Giveup:
        return False


_PC_BASE = '''class T:
    def __init__(self, stream=None):
        self.prepended_children = []
        if stream is None:
            stream = StringIO()
        self.stream = stream
        self.write = stream.write
        self.markers = []
    def commit(self):
        if self.stream.tell():
            self.prepended_children.append(T(self.stream))
            self.prepended_children[-1].markers = self.markers
            self.markers = []
            self.stream = StringIO()
            self.write = self.stream.write
'''


def rule_tree(ctx):
    ix = ctx.index
    sio = ix.cls('StringIOTree', 'StringIOTree')
    methods = _methods(sio)
    rel = sio.module.rel
    for name in READERS + INSERTERS + MUTATORS:
        if name not in methods:
            raise AnalysisError('StringIOTree.%s vanished' % name)
    init_problems = []
    try:
        init_problems = sC49.check_method(methods, sio.name, '__init__')
    except sC49.Giveup:
        pass
    ra = Rule('C49a', 'readers of StringIOTree return content(children) + own stream (markers likewise) and empty() is the conjunction over stream and children', floor=5)
    for name in READERS:
        ra.inst('StringIOTree.' + name, sample='StringIOTree.%s evaluated symbolically against content(T)/marks(T)' % name)
        _check(ra, methods, sio.name, name, rel, skip=bool(init_problems))
    ra.positive_control(_control(_PC_BASE.replace('class T', 'class T') + '''    def copyto(self, target):
        target.write(self.stream.getvalue())
        for c in self.prepended_children:
            c.copyto(target)
''', 'copyto') and _control(_PC_BASE + '''    def _collect_in(self, out):
        for x in self.prepended_children:
            if x.stream.tell():
                x._collect_in(out)
        out.append(self.stream.getvalue())
''', '_collect_in'), 'reader writing own stream first / skipping children with an empty own stream')

    rb = Rule('C49b', 'insert(t) appends content(t) after everything written so far; insertion_point() leaves a new empty tree at the current position', floor=2)
    for name in INSERTERS:
        rb.inst('StringIOTree.' + name, sample='StringIOTree.%s evaluated symbolically' % name)
        _check(rb, methods, sio.name, name, rel, skip=bool(init_problems))
    rb.positive_control(_control(_PC_BASE + '''    def insert(self, t):
        if self.markers:
            self.commit()
        self.prepended_children.append(t)
''', 'insert'), 'conditional commit before appending a child')

    rc = Rule('C49c', 'commit() keeps content and markers, leaves nothing pending and rebinds self.write; reset()/__init__ give the empty tree', floor=3)
    for name in MUTATORS:
        rc.inst('StringIOTree.' + name, sample='StringIOTree.%s evaluated symbolically' % name)
        _check(rc, methods, sio.name, name, rel, skip=bool(init_problems) and name != '__init__')
    rc.positive_control(_control(_PC_BASE.replace('            self.prepended_children[-1].markers = self.markers\n', ''), 'commit'), 'commit dropping the pending markers')
    # every other method of the class must not touch the state (a new mutator needs a specification)
    for name, fn in methods.items():
        if name in READERS + INSERTERS + MUTATORS:
            continue
        for n in walk_no_nested(fn):
            touched = None
            if isinstance(n, ast.Attribute) and n.attr in STATE_ATTRS and isinstance(n.ctx, (ast.Store, ast.Del)):
                touched = n
            elif isinstance(n, ast.Call) and isinstance(n.func, ast.Attribute) and isinstance(n.func.value, ast.Attribute) and n.func.value.attr in STATE_ATTRS \
                    and n.func.attr in ('append', 'extend', 'insert', 'pop', 'clear', 'remove', 'sort', 'reverse', 'write', 'truncate', 'seek'):
                touched = n
            elif isinstance(n, ast.Call) and isinstance(n.func, ast.Attribute) and is_self_attr(n.func) and n.func.attr in ('write',) + MUTATORS + INSERTERS:
                touched = n
            if touched is not None:
                raise AnalysisError('StringIOTree.%s changes the tree (%s) but has no specification in the checker' % (name, node_src(touched, 60)))
    return [ra, rb, rc]


# ------------------------------------------------------------------------------------------------------------- (d)
def rule_writers(ctx):
    ix = ctx.index
    sio = ix.cls('StringIOTree', 'StringIOTree')
    rd = Rule('C49d', 'C code writers: newlines written to the buffer = markers recorded on every path (raw writers are private and only fed newline-free text); '
                      'nobody else mutates .markers/.stream/.prepended_children', floor=5)
    ccw = ix.cls('Code', 'CCodeWriter')
    family = [ccw] + ix.subclasses(ccw)
    summaries = {}
    reported = set()
    verdict = {}
    for _round in range(8):
        changed = False
        for c in family:
            for name, fn in c.methods.items():
                if not sC49.touches_buffer(fn, summaries):
                    continue
                key = '%s.%s' % (c.qual, name)
                try:
                    paths = sC49.method_balance(fn, summaries)
                except sC49.Giveup as e:
                    raise AnalysisError('C49d: %s: %s' % (key, e))
                forms = [(f.under(facts), facts) for f, facts in paths]
                params = [a.arg for a in fn.args.args][1:]
                if all(f.zero() for f, _ in forms):
                    verdict[key] = ('balanced', fn, c, None)
                    if name in summaries and summaries[name][2] == key:
                        del summaries[name]
                        changed = True
                    continue
                raw = None
                for f, _ in forms:
                    if not f.zero() and not f.unk and not f.const and all(v == 1 for v in f.coefs.values()):
                        cand = sC49.Form(0, f.coefs)
                        if all(cand.under(facts).key() == g.key() for g, facts in forms):
                            raw = cand
                            break
                if raw is not None and not name.startswith('_'):
                    verdict[key] = ('raw', fn, c, raw)      # reported below; not propagated to its callers
                elif raw is not None:
                    verdict[key] = ('raw', fn, c, raw)
                    prev = summaries.get(name)
                    if prev is None or prev[1].key() != raw.key():
                        if prev is not None and prev[2] != key:
                            verdict[key] = ('override', fn, c, raw)
                        else:
                            summaries[name] = (params, raw, key)
                            changed = True
                else:
                    worst = [f for f, _ in forms if not f.zero()][0]
                    verdict[key] = ('unbalanced', fn, c, worst)
        if not changed:
            break
    else:
        raise AnalysisError('C49d: newline accounting does not reach a fixpoint')
    for key, (kind, fn, c, form) in sorted(verdict.items()):
        rd.inst(key, sample='%s: %s%s' % (key, kind, '' if form is None else ' (' + form.text() + ')'))
        if kind == 'unbalanced':
            rd.violate(key + ':unrecorded-newline', c.module.rel, fn.lineno,
                       '%s: on some path the newlines written to self.buffer minus the markers recorded is %s instead of 0 '
                       '(text that may contain a newline reaches the buffer without _write_lines, or the marker count is not s.count("\\n")): '
                       'the C-line -> source-line markers drift' % (key, form.text()))
        elif kind == 'override':
            rd.violate(key + ':override', c.module.rel, fn.lineno, '%s overrides a raw writer with a different newline balance (%s)' % (key, form.text()))
        elif kind == 'raw' and not fn.name.startswith('_'):
            rd.violate(key + ':public-raw-writer', c.module.rel, fn.lineno,
                       '%s hands its argument to the buffer without recording markers for its newlines (balance %s) and is public: '
                       'multi-line text written through it shifts all following markers' % (key, form.text()))
    # call sites of private raw writers outside accounted self-calls
    raw_names = {n for n, v in summaries.items()}
    fam_fns = {id(fn) for c in family for fn in c.methods.values()}
    for m in ix.modules.values():
        for qn, owner, fn in ix.functions_of(m):
            for n in walk_no_nested(fn):
                if isinstance(n, ast.Call) and isinstance(n.func, ast.Attribute) and n.func.attr in raw_names:
                    selfname = fn.args.args[0].arg if fn.args.args else None
                    if id(fn) in fam_fns and isinstance(n.func.value, ast.Name) and n.func.value.id == selfname:
                        continue
                    arg_ok = len(n.args) == 1 and sC49.nl_of(n.args[0], {}, set()).zero()
                    key = '%s.%s->%s' % (m.short, qn, n.func.attr)
                    rd.inst(key, sample=key)
                    if not arg_ok:
                        rd.violate(key + ':raw-call', m.rel, n.lineno, '%s calls the raw writer %s() with text that may contain a newline (no markers recorded)' % (key, n.func.attr))
                # direct buffer writes from outside the family on a code writer's buffer:  code.buffer.write(...)
                if isinstance(n, ast.Call) and isinstance(n.func, ast.Attribute) and n.func.attr == 'write' and isinstance(n.func.value, ast.Attribute) \
                        and n.func.value.attr == 'buffer' and id(fn) not in fam_fns and not (owner is not None and owner.name == 'PyxCodeWriter'):
                    key = '%s.%s' % (m.short, qn)
                    rd.inst(key + ':buffer.write', sample=key)
                    if not (len(n.args) == 1 and sC49.nl_of(n.args[0], {}, set()).zero()):
                        rd.violate(key + ':raw-write', m.rel, n.lineno, '%s writes to a code buffer directly, bypassing the marker accounting' % key)
    if '_write_lines' not in ccw.methods:
        raise AnalysisError('CCodeWriter._write_lines vanished')
    pc = ast.parse("def w(self, s):\n    self.buffer.markers.extend([m] * len(s.splitlines()))\n    self.buffer.write(s)\n").body[0]
    pc2 = ast.parse("def w(self, pos):\n    self.buffer.write(f'x({pos[1]:d},{self.goto(pos)})\\n')\n").body[0]
    det = all(any(not f.under(facts).zero() for f, facts in sC49.method_balance(p, {})) for p in (pc, pc2))
    rd.positive_control(det, 'marker count taken from splitlines(); f-string with a newline written raw')
    # nobody outside StringIOTree / the accounted writer methods mutates .markers, .stream, .prepended_children
    for m in ix.modules.values():
        for qn, owner, fn in ix.functions_of(m):
            if owner is sio:
                continue
            for n in walk_no_nested(fn):
                tgt = None
                if isinstance(n, ast.Attribute) and n.attr in ('markers', 'prepended_children') and isinstance(n.ctx, (ast.Store, ast.Del)):
                    tgt = n
                elif isinstance(n, ast.Call) and isinstance(n.func, ast.Attribute) and n.func.attr in ('append', 'extend', 'insert', 'pop', 'clear', 'remove', 'sort', 'reverse') \
                        and isinstance(n.func.value, ast.Attribute) and n.func.value.attr in ('markers', 'prepended_children'):
                    tgt = n
                elif isinstance(n, ast.Attribute) and n.attr in ('stream', 'write') and isinstance(n.ctx, ast.Store) and isinstance(n.value, ast.Attribute) and n.value.attr == 'buffer':
                    tgt = n
                if tgt is None:
                    continue
                key = '%s.%s' % (m.short, qn)
                rd.inst(key + ':mutates', sample=key + ' mutates ' + node_src(tgt, 60))
                accounted = id(fn) in fam_fns and ('%s.%s' % (owner.qual, fn.name)) in verdict and isinstance(tgt, ast.Call)
                if not accounted:
                    rd.violate(key + ':mutates-buffer-state', m.rel, n.lineno,
                               '%s mutates StringIOTree state (%s) from outside the buffer class' % (key, node_src(tgt, 60)))
    return rd


# ------------------------------------------------------------------------------------------------------------- (e)
def _single_assign(fn, name):
    vals = []
    for n in walk_no_nested(fn):
        if isinstance(n, ast.Assign):
            for t in n.targets:
                if isinstance(t, ast.Name) and t.id == name:
                    vals.append(n.value)
                elif isinstance(t, (ast.Tuple, ast.List)):
                    for i, x in enumerate(t.elts):
                        if isinstance(x, ast.Name) and x.id == name:
                            vals.append(n.value.elts[i] if isinstance(n.value, (ast.Tuple, ast.List)) and len(n.value.elts) == len(t.elts) else None)
        elif isinstance(n, (ast.AugAssign, ast.AnnAssign, ast.For, ast.comprehension)) and any(isinstance(x, ast.Name) and x.id == name for x in ast.walk(n.target)):
            vals.append(None)
        elif isinstance(n, ast.NamedExpr) and n.target.id == name:
            vals.append(None)
    return vals[0] if len(vals) == 1 else None


def _resolve(fn, e, depth=0):
    while isinstance(e, ast.Name) and depth < 5:
        v = _single_assign(fn, e.id)
        if v is None:
            break
        e, depth = v, depth + 1
    return e


def _buffer_param(ix, cls, attr='buffer'):
    """name and position (self not counted) of the __init__ parameter that becomes self.buffer"""
    got = ix.find_method(cls, '__init__')
    if got is None:
        raise AnalysisError('%s has no __init__' % cls.qual)
    owner, init = got
    params = [a.arg for a in init.args.args][1:]
    stores = [n for n in walk_no_nested(init) if isinstance(n, ast.Assign) and any(is_self_attr(t) and t.attr == attr for t in n.targets)]
    if not stores:
        # delegated to a base __init__:  Base.__init__(self, a, b, c)
        for n in walk_no_nested(init):
            if isinstance(n, ast.Call) and isinstance(n.func, ast.Attribute) and n.func.attr == '__init__' and n.args and isinstance(n.args[0], ast.Name) and n.args[0].id == init.args.args[0].arg:
                base = ix.resolve_expr(owner.module, n.func.value)
                if base is None or base[0] != 'class':
                    continue
                bname, bpos = _buffer_param(ix, base[1], attr)
                if bname is None:
                    return None, None
                arg = None
                if bpos + 1 < len(n.args):
                    arg = n.args[bpos + 1]
                for k in n.keywords:
                    if k.arg == bname:
                        arg = k.value
                if isinstance(arg, ast.Name) and arg.id in params:
                    return arg.id, params.index(arg.id)
        raise AnalysisError('%s.__init__: cannot see which parameter becomes self.buffer' % cls.qual)
    names = set()
    for s in stores:
        names |= {x.id for x in ast.walk(s.value) if isinstance(x, ast.Name)} & set(params)
    if not names:
        return None, None
    if len(names) != 1:
        raise AnalysisError('%s.__init__: self.buffer is built from %s' % (cls.qual, sorted(names)))
    p = names.pop()
    return p, params.index(p)


def _ctor_buffer_arg(ix, cls, fn, call, depth=0, attr='buffer'):
    """the argument expression of `call` (inside fn, a method of cls) that becomes the new writer's buffer; None if not supplied"""
    if depth > 3:
        raise AnalysisError('constructor forwarding too deep')
    f = call.func
    target_cls = None
    if isinstance(f, ast.Call) and isinstance(f.func, ast.Name) and f.func.id == 'type' and len(f.args) == 1 and isinstance(f.args[0], ast.Name):
        target_cls = cls
    elif isinstance(f, ast.Attribute) and f.attr == '__class__' and isinstance(f.value, ast.Name):
        target_cls = cls
    elif isinstance(f, ast.Name):
        got = ix.resolve_expr(cls.module, f)
        if got is None or got[0] != 'class':
            raise AnalysisError('cannot resolve constructor %s' % f.id)
        target_cls = got[1]
    elif isinstance(f, ast.Attribute) and isinstance(f.value, ast.Name) and f.value.id == fn.args.args[0].arg:
        got = ix.find_method(cls, f.attr)
        if got is None:
            raise AnalysisError('%s.%s not found' % (cls.qual, f.attr))
        fowner, fwd = got
        rets = [n for n in walk_no_nested(fwd) if isinstance(n, ast.Return) and n.value is not None]
        if len(rets) != 1:
            raise AnalysisError('%s.%s: expected one return' % (fowner.qual, fwd.name))
        inner = _resolve(fwd, rets[0].value)
        if not isinstance(inner, ast.Call):
            raise AnalysisError('%s.%s does not return a constructor call' % (fowner.qual, fwd.name))
        inner_arg = _ctor_buffer_arg(ix, fowner, fwd, inner, depth + 1, attr)
        inner_arg = _resolve(fwd, inner_arg) if inner_arg is not None else None
        fparams = [a.arg for a in fwd.args.args][1:]
        if not (isinstance(inner_arg, ast.Name) and inner_arg.id in fparams):
            return inner_arg      # the forwarder decides the buffer itself
        pos = fparams.index(inner_arg.id)
        if pos < len(call.args):
            return call.args[pos]
        for k in call.keywords:
            if k.arg == inner_arg.id:
                return k.value
        return None
    else:
        raise AnalysisError('unrecognised constructor expression %s' % node_src(f, 60))
    pname, pos = _buffer_param(ix, target_cls, attr)
    if pname is None:
        return ast.Name(id='<%s.__init__ ignores its buffer argument>' % target_cls.qual, ctx=ast.Load())
    if pos < len(call.args):
        return call.args[pos]
    for k in call.keywords:
        if k.arg == pname:
            return k.value
    return None


def rule_delegation(ctx):
    ix = ctx.index
    r = Rule('C49e', 'insertion_point() of a code writer builds the new writer on self.buffer.insertion_point(); insert(w) calls self.buffer.insert(w.buffer)', floor=4)
    code = ix.mod('Code')
    def carrier(c):
        for a in ('buffer', 'writer'):
            if any(a in k.self_attrs for k in ix.mro(c)):
                return a
        return None

    def holds_buffer(c):
        return carrier(c) is not None
    writers = [c for c in ix.all_classes() if c.module.name.startswith('Cython.Compiler') and ix.find_method(c, 'insertion_point') and c.name != 'StringIOTree' and holds_buffer(c)]
    others = [c.qual for c in ix.all_classes() if c.module.name.startswith('Cython.Compiler') and 'insertion_point' in c.methods and not holds_buffer(c)]
    if others:
        r.info('classes with an insertion_point() that wrap another writer (not checked): %s' % sorted(others))
    for c in writers:
        owner_c, fn = ix.find_method(c, 'insertion_point')      # own or inherited; self.create_new() is resolved in c's MRO
        key = '%s.insertion_point' % c.qual
        r.inst(key, sample=key)
        rets = [n for n in walk_no_nested(fn) if isinstance(n, ast.Return) and n.value is not None]
        if len(rets) != 1:
            raise AnalysisError('%s: expected exactly one return' % key)
        call = _resolve(fn, rets[0].value)
        if not isinstance(call, ast.Call):
            raise AnalysisError('%s does not return a constructor call' % key)
        attr = carrier(c)
        arg = _ctor_buffer_arg(ix, c, fn, call, attr=attr)
        arg = _resolve(fn, arg) if arg is not None else None
        selfname = fn.args.args[0].arg
        ok = isinstance(arg, ast.Call) and isinstance(arg.func, ast.Attribute) and arg.func.attr == 'insertion_point' and not arg.args and \
            isinstance(arg.func.value, ast.Attribute) and arg.func.value.attr == attr and isinstance(arg.func.value.value, ast.Name) and arg.func.value.value.id == selfname
        if not ok:
            r.violate(key + ':detached', owner_c.module.rel, fn.lineno,
                      '%s builds the new writer on %s instead of self.%s.insertion_point(): what is written to the insertion point never becomes part of this writer\'s output'
                      % (key, 'a fresh buffer' if arg is None else node_src(arg, 60), attr))
    for c in writers:
        got = c.methods.get('insert')
        if got is None or carrier(c) != 'buffer':
            continue
        fn = got
        key = '%s.insert' % c.qual
        r.inst(key, sample=key)
        selfname = fn.args.args[0].arg
        params = [a.arg for a in fn.args.args][1:]
        good = bad = 0
        for n in walk_no_nested(fn):
            if isinstance(n, ast.Call) and isinstance(n.func, ast.Attribute) and n.func.attr == 'insert' and len(n.args) == 1:
                recv, a = _resolve(fn, n.func.value), _resolve(fn, n.args[0])
                r_self = isinstance(recv, ast.Attribute) and recv.attr == 'buffer' and isinstance(recv.value, ast.Name) and recv.value.id == selfname
                a_par = isinstance(a, ast.Attribute) and a.attr == 'buffer' and isinstance(a.value, ast.Name) and a.value.id in params
                if r_self and a_par:
                    good += 1
                else:
                    bad += 1
        # the call must be unconditional
        top = [s for s in fn.body if isinstance(s, ast.Expr) and isinstance(s.value, ast.Call) and isinstance(s.value.func, ast.Attribute) and s.value.func.attr == 'insert']
        if good != 1 or bad or len(top) != 1:
            r.violate(key + ':delegation', c.module.rel, fn.lineno,
                      '%s must insert the buffer of its argument into its own buffer exactly once (self.buffer.insert(writer.buffer)); found %d such call(s), %d other insert call(s), %d unconditional'
                      % (key, good, bad, len(top)))
    return r


# ------------------------------------------------------------------------------------------------------------- (f)
ORDER_KEEPING = ('enumerate', 'list', 'tuple', 'iter')
ORDER_CHANGING = ('sorted', 'reversed', 'set', 'frozenset')


def rule_parts(ctx):
    ix = ctx.index
    r = Rule('C49f', 'every writer stored in GlobalState.parts is an insertion point of the root writer, created while iterating the layout list itself', floor=2)
    gs = ix.cls('Code', 'GlobalState')
    layouts = {a for a in gs.attrs if a.endswith('code_layout')}
    if len(layouts) < 2:
        raise AnalysisError('GlobalState code layouts not found')
    n_store = 0
    for name, fn in gs.methods.items():
        selfname = fn.args.args[0].arg if fn.args.args else 'self'
        parents = {}
        for p in ast.walk(fn):
            for ch in ast.iter_child_nodes(p):
                parents[id(ch)] = p
        for n in walk_no_nested(fn):
            if not isinstance(n, ast.Assign):
                continue
            tg = [t for t in n.targets if isinstance(t, ast.Subscript) and is_self_attr(t.value, selfname) and t.value.attr == 'parts']
            if not tg:
                continue
            n_store += 1
            key = 'Code.GlobalState.%s:parts' % name
            r.inst(key, sample='%s[%s] = %s' % (key, node_src(tg[0].slice, 30), node_src(n.value, 50)))
            v = _resolve(fn, n.value)
            recv = _resolve(fn, v.func.value) if isinstance(v, ast.Call) and isinstance(v.func, ast.Attribute) else None
            is_root = recv is not None and (is_self_attr(recv, selfname) and recv.attr == 'rootwriter')
            if not (isinstance(v, ast.Call) and v.func.attr == 'insertion_point' and is_root and not v.args):
                r.violate(key + ':detached', gs.module.rel, n.lineno,
                          'GlobalState.%s stores %s as a code section; a section must be rootwriter.insertion_point(), otherwise what is written to it is not part of the C file' % (name, node_src(n.value, 60)))
                continue
            # the enclosing loop
            loop = parents.get(id(n))
            while loop is not None and not isinstance(loop, ast.For):
                if isinstance(loop, (ast.If, ast.While, ast.Try)):
                    r.violate(key + ':conditional', gs.module.rel, n.lineno, 'GlobalState.%s creates a code section only conditionally: the order of the sections depends on the run' % name)
                loop = parents.get(id(loop))
            if loop is None:
                raise AnalysisError('GlobalState.%s: code section created outside a loop over the layout' % name)
            it = loop.iter
            wrappers = []
            while isinstance(it, ast.Call) and isinstance(it.func, ast.Name) and it.args:
                wrappers.append(it.func.id)
                it = it.args[0]
            it = _resolve(fn, it)
            if not (is_self_attr(it, selfname) and it.attr in layouts):
                raise AnalysisError('GlobalState.%s: the section loop iterates %s' % (name, node_src(loop.iter, 60)))
            for w in wrappers:
                if w in ORDER_CHANGING:
                    r.violate(key + ':order', gs.module.rel, loop.lineno,
                              'GlobalState.%s creates the code sections while iterating %s: the insertion points are no longer in layout order' % (name, node_src(loop.iter, 60)))
                elif w not in ORDER_KEEPING:
                    raise AnalysisError('GlobalState.%s: unknown wrapper %s() around the layout list' % (name, w))
            # the key stored is the loop variable (each section once, under its own name)
            names = {x.id for x in ast.walk(loop.target) if isinstance(x, ast.Name)}
            if not (isinstance(tg[0].slice, ast.Name) and tg[0].slice.id in names):
                r.violate(key + ':key', gs.module.rel, n.lineno, 'GlobalState.%s stores the section under %s instead of the layout entry being iterated' % (name, node_src(tg[0].slice, 40)))
    if n_store < 2:
        raise AnalysisError('GlobalState.parts stores not found')
    return r


def run(ctx):
    return rule_tree(ctx) + [rule_writers(ctx), rule_delegation(ctx), rule_parts(ctx)]
