"""C49 — generated code is assembled in insertion-point order (StringIOTree + CCodeWriter)."""
import ast

from ..core import Rule, AnalysisError, node_src
from ..engine import pyflow
from ..engine.pyindex import walk_no_nested, is_self_attr

ID = 'C49'
TECHNIQUE = 'inductive-invariant obligations checked on the AST of StringIOTree and CCodeWriter: evaluation-order of readers, must-precede dataflow (commit before append), rebinding discipline, who-may-write call graph'
DECIDES = ('the four structural obligations that make "content(T) = concat(children) + own stream" (and the same for markers) an inductive invariant: '
           '(a) every reader of a StringIOTree visits prepended_children, recursively through the same reader, before its own stream/markers; '
           '(b) insert/insertion_point commit() the pending stream on every path before appending a child; '
           '(c) every rebinding of self.stream rebinds the cached self.write to the new stream and hands over or resets self.markers, commit() hands the old markers to the child that receives the old stream; '
           '(d) only _write_to_buffer writes to a C code buffer, text containing a newline reaches it only through _write_lines, which first extends markers by s.count("\\n"); nobody else mutates .markers/.stream.')
NOT_DECIDED = 'nothing further for the buffer itself; the history quantifier is discharged by the invariant argument (stated as the rule applied, not a proof of behaviour); uses of the buffer by the rest of the compiler are not covered.'

CHILDREN = 'prepended_children'
READERS = ('_collect_in', 'copyto', 'allmarkers')


def _events(fn):
    """(line, col, kind, node) for uses of children / own stream / own markers, with local aliases resolved."""
    alias = {}
    for n in walk_no_nested(fn):
        if isinstance(n, ast.Assign) and len(n.targets) == 1 and isinstance(n.targets[0], ast.Name) and is_self_attr(n.value):
            alias[n.targets[0].id] = n.value.attr
    ev = []
    for n in walk_no_nested(fn):
        kind = None
        if is_self_attr(n):
            kind = n.attr
        elif isinstance(n, ast.Name) and isinstance(n.ctx, ast.Load) and n.id in alias:
            kind = alias[n.id]
        if kind in (CHILDREN, 'stream', 'markers'):
            ev.append((n.lineno, n.col_offset, kind, n))
    # the alias definition itself is not a *use* in evaluation order of the result
    ev = [e for e in ev if not any(isinstance(p, ast.Assign) and p.value is e[3] and isinstance(p.targets[0], ast.Name)
                                   for p in walk_no_nested(fn))]
    return sorted(ev, key=lambda e: e[:2])


def _reader_check(fn):
    """-> list of problems for one reader method."""
    problems = []
    ev = _events(fn)
    kinds = [e[2] for e in ev]
    own = 'markers' if fn.name == 'allmarkers' else 'stream'
    if CHILDREN not in kinds:
        problems.append('does not visit prepended_children at all')
    if own not in kinds:
        problems.append('does not read its own %s' % own)
    if problems:
        return problems
    # evaluation order: every child use precedes the first own use.  For a `return A + B` expression and for
    # statement sequences, source position order is evaluation order.
    first_own = min(i for i, k in enumerate(kinds) if k == own)
    last_child = max(i for i, k in enumerate(kinds) if k == CHILDREN)
    if last_child > first_own:
        problems.append('reads its own %s (line %d) before prepended_children (line %d): children are written *before* the stream content'
                        % (own, ev[first_own][0], ev[last_child][0]))
    # recursion through the same reader on each child
    rec = False
    for n in walk_no_nested(fn):
        if isinstance(n, ast.Call) and isinstance(n.func, ast.Attribute) and n.func.attr == fn.name and \
                isinstance(n.func.value, ast.Name) and n.func.value.id != 'self':
            rec = True
    if not rec:
        problems.append('does not recurse into children through %s() (grand-children would be lost)' % fn.name)
    # the recursion must happen for EVERY child: not under a condition inside the loop (a child whose own stream is
    # empty may still hold written grand-children)
    for loop in walk_no_nested(fn):
        if not isinstance(loop, ast.For):
            continue
        for inner in ast.walk(loop):
            if isinstance(inner, (ast.If, ast.IfExp, ast.Continue, ast.Break)) and inner is not loop:
                guarded = isinstance(inner, (ast.Continue, ast.Break)) or any(
                    isinstance(c, ast.Call) and isinstance(c.func, ast.Attribute) and c.func.attr == fn.name for c in ast.walk(inner))
                if guarded and any(isinstance(c, ast.Call) and isinstance(c.func, ast.Attribute) and c.func.attr == fn.name for c in ast.walk(loop)):
                    problems.append('visits a child only conditionally (line %d): a child with an empty own stream can still contain written descendants' % inner.lineno)
                    break
    for comp in walk_no_nested(fn):
        if isinstance(comp, ast.comprehension) and comp.ifs and any(e[3] is x for e in ev if e[2] == CHILDREN for x in ast.walk(comp.iter)):
            problems.append('filters children in a comprehension condition')
    # every for-loop over children iterates all of them (no slicing / reversed)
    for n in walk_no_nested(fn):
        it = None
        if isinstance(n, ast.For):
            it = n.iter
        elif isinstance(n, ast.comprehension):
            it = n.iter
        if it is not None and any(e[3] is x for e in ev if e[2] == CHILDREN for x in ast.walk(it)):
            if not (is_self_attr(it) or isinstance(it, ast.Name)):
                problems.append('iterates children through %r instead of the plain list (order/coverage may change)' % node_src(it))
    return problems


def run(ctx):
    ix = ctx.index
    rules = []
    sio = ix.cls('StringIOTree', 'StringIOTree')

    # ---------------------------------------------------------------- (a) readers
    ra = Rule('C49a', 'readers of StringIOTree visit children (recursively) before own stream/markers', floor=4)
    for name in READERS + ('empty', 'getvalue'):
        if name not in sio.methods:
            raise AnalysisError('StringIOTree.%s vanished' % name)
    for name in READERS:
        fn = sio.methods[name]
        ra.inst('StringIOTree.' + name, sample='StringIOTree.%s: %s' % (name, [e[2] for e in _events(fn)]))
        for p in _reader_check(fn):
            ra.violate('StringIOTree.%s:%s' % (name, p.split()[0] + p.split()[1]), sio.module.rel, fn.lineno, '%s %s' % (name, p))
    # getvalue must go through _collect_in (or be a reader itself)
    fn = sio.methods['getvalue']
    ra.inst('StringIOTree.getvalue')
    if not any(isinstance(n, ast.Call) and isinstance(n.func, ast.Attribute) and n.func.attr in ('_collect_in', 'copyto') and
               isinstance(n.func.value, ast.Name) and n.func.value.id == 'self' for n in walk_no_nested(fn)):
        for p in _reader_check(fn):
            ra.violate('StringIOTree.getvalue:' + p.split()[0], sio.module.rel, fn.lineno, 'getvalue ' + p)
    # empty() must consider both the stream and all children
    fn = sio.methods['empty']
    ra.inst('StringIOTree.empty')
    kinds = {e[2] for e in _events(fn)}
    if not {'stream', CHILDREN} <= kinds:
        ra.violate('StringIOTree.empty:coverage', sio.module.rel, fn.lineno, 'empty() ignores %s' % sorted({'stream', CHILDREN} - kinds))
    pc = ast.parse("def copyto(self, target):\n    target.write(self.stream.getvalue())\n    for c in self.prepended_children:\n        c.copyto(target)\n").body[0]
    ra.positive_control(any('before prepended_children' in p for p in _reader_check(pc)), 'reader writing own stream first')
    rules.append(ra)

    # ---------------------------------------------------------------- (b) commit before append
    rb = Rule('C49b', 'every append to prepended_children outside commit() is preceded by self.commit() on all paths', floor=2)

    def tr(node, state):
        s = set(state)
        for c in pyflow.calls_in(node):
            if isinstance(c.func, ast.Attribute) and c.func.attr == 'commit' and isinstance(c.func.value, ast.Name) and c.func.value.id == 'self':
                s.add('committed')
            if isinstance(c.func, ast.Attribute) and c.func.attr in ('append', 'insert', 'extend') and is_self_attr(c.func.value) \
                    and c.func.value.attr == CHILDREN and 'committed' not in s:
                s.add(('BAD', c.lineno))
        # writes to the own stream after commit invalidate it
        for c in pyflow.calls_in(node):
            if isinstance(c.func, ast.Attribute) and c.func.attr == 'write' and 'committed' in s and \
                    (is_self_attr(c.func.value) and c.func.value.attr == 'stream' or (isinstance(c.func.value, ast.Name) and c.func.value.id == 'self')):
                s.discard('committed')
        return frozenset(s)

    def check_b(fn):
        o = pyflow.Flow(tr).run(fn)
        bad = set()
        for st in o.normal | o.returns | o.raises:
            bad |= {f for f in st if isinstance(f, tuple) and f[0] == 'BAD'}
        return bad
    n_app = 0
    for name, fn in sio.methods.items():
        appends = [n for n in walk_no_nested(fn) if isinstance(n, ast.Call) and isinstance(n.func, ast.Attribute) and
                   n.func.attr in ('append', 'insert', 'extend') and is_self_attr(n.func.value) and n.func.value.attr == CHILDREN]
        if not appends or name == 'commit':
            continue
        rb.inst('StringIOTree.' + name, sample='StringIOTree.%s appends a child' % name)
        for b in check_b(fn):
            rb.violate('StringIOTree.%s:append-without-commit' % name, sio.module.rel, b[1],
                       '%s appends to prepended_children on a path where the pending stream content was not commit()ted: '
                       'text written earlier would appear AFTER the inserted child' % name)
    for required in ('insert', 'insertion_point'):
        if required not in sio.methods:
            raise AnalysisError('StringIOTree.%s vanished' % required)
    pc = ast.parse("def insert(self, t):\n    if self.stream.tell() > 100:\n        self.commit()\n    self.prepended_children.append(t)\n").body[0]
    rb.positive_control(bool(check_b(pc)), 'conditional commit')
    rules.append(rb)

    # ---------------------------------------------------------------- (c) rebinding discipline
    rc = Rule('C49c', 'rebinding self.stream rebinds self.write to the same stream and hands over/resets self.markers; commit() moves stream and markers to one child', floor=3)
    for name, fn in sio.methods.items():
        stores = [n for n in walk_no_nested(fn) if isinstance(n, ast.Assign) and any(is_self_attr(t) and t.attr == 'stream' for t in n.targets)]
        if not stores:
            continue
        key = 'StringIOTree.' + name
        rc.inst(key, sample=key + ' rebinds self.stream')
        last = max(stores, key=lambda n: n.lineno)
        wr = [n for n in walk_no_nested(fn) if isinstance(n, ast.Assign) and any(is_self_attr(t) and t.attr == 'write' for t in n.targets)]
        ok = False
        for w in wr:
            v = w.value
            if w.lineno > last.lineno and isinstance(v, ast.Attribute) and v.attr == 'write':
                src = v.value
                if (is_self_attr(src) and src.attr == 'stream') or (isinstance(src, ast.Name) and isinstance(last.value, ast.Name) and src.id == last.value.id):
                    ok = True
        if not ok:
            rc.violate(key + ':write', sio.module.rel, last.lineno,
                       '%s rebinds self.stream but does not afterwards rebind the cached self.write to the new stream: later writes go into the old (already committed) stream' % name)
        mk = [n for n in walk_no_nested(fn) if isinstance(n, ast.Assign) and any(is_self_attr(t) and t.attr == 'markers' for t in n.targets)]
        if not mk:
            rc.violate(key + ':markers', sio.module.rel, last.lineno,
                       '%s rebinds self.stream but keeps self.markers: the markers no longer describe the (new, empty) stream' % name)
    if 'commit' not in sio.methods or 'reset' not in sio.methods:
        raise AnalysisError('StringIOTree.commit/reset vanished')
    fn = sio.methods['commit']
    rc.inst('StringIOTree.commit:handover')
    # commit: child = StringIOTree(self.stream) appended; child.markers = self.markers; then self.markers = [] ; then new stream
    lines = {}
    for n in walk_no_nested(fn):
        if isinstance(n, ast.Call) and isinstance(n.func, ast.Name) and n.func.id == sio.name and n.args and is_self_attr(n.args[0]) and n.args[0].attr == 'stream':
            lines['child'] = n.lineno
        if isinstance(n, ast.Assign) and isinstance(n.targets[0], ast.Attribute) and n.targets[0].attr == 'markers' and not is_self_attr(n.targets[0]) \
                and is_self_attr(n.value) and n.value.attr == 'markers':
            lines['handover'] = n.lineno
        if isinstance(n, ast.Assign) and is_self_attr(n.targets[0]) and n.targets[0].attr == 'markers':
            lines['reset'] = n.lineno
        if isinstance(n, ast.Assign) and is_self_attr(n.targets[0]) and n.targets[0].attr == 'stream':
            lines['newstream'] = n.lineno
    if 'child' not in lines:
        rc.violate('StringIOTree.commit:child', sio.module.rel, fn.lineno, 'commit() no longer wraps the old self.stream into a child StringIOTree')
    elif not ('handover' in lines and 'reset' in lines and lines['child'] <= lines['handover'] < lines['reset'] and lines['child'] < lines.get('newstream', 0)):
        rc.violate('StringIOTree.commit:handover', sio.module.rel, fn.lineno,
                   'commit() must give the old markers to the child that received the old stream before resetting self.markers (found %r): '
                   'otherwise line markers drift relative to the text' % lines)
    rules.append(rc)

    # ---------------------------------------------------------------- (d) who may write
    rd = Rule('C49d', 'only _write_to_buffer writes to a CCodeWriter buffer; newline-carrying text goes through _write_lines which extends markers by s.count("\\n") first; nobody else mutates .markers/.stream', floor=6)
    code = ix.mod('Code')
    ccw = ix.cls('Code', 'CCodeWriter')
    family = [ccw] + ix.subclasses(ccw)
    for c in family:
        for name, fn in c.methods.items():
            for n in walk_no_nested(fn):
                if isinstance(n, ast.Call) and isinstance(n.func, ast.Attribute) and n.func.attr == 'write' and \
                        is_self_attr(n.func.value) and n.func.value.attr == 'buffer':
                    key = '%s.%s' % (c.qual, name)
                    rd.inst(key, sample=key + ' calls self.buffer.write')
                    if name != '_write_to_buffer':
                        rd.violate(key + ':raw-write', c.module.rel, n.lineno,
                                   '%s writes to self.buffer directly, bypassing _write_lines: newlines in the text are not recorded in markers' % key)
                if isinstance(n, ast.Call) and isinstance(n.func, ast.Attribute) and n.func.attr == '_write_to_buffer':
                    key = '%s.%s->_write_to_buffer' % (c.qual, name)
                    rd.inst(key, sample=key)
                    if name == '_write_lines':
                        continue
                    arg = n.args[0] if n.args else None
                    if name == 'write':
                        # must be the else-branch of `if '\n' in s`
                        ok = False
                        for i in walk_no_nested(fn):
                            if isinstance(i, ast.If) and isinstance(i.test, ast.Compare) and isinstance(i.test.left, ast.Constant) and i.test.left.value == '\n' \
                                    and isinstance(i.test.ops[0], ast.In) and any(x is n for s2 in i.orelse for x in ast.walk(s2)) \
                                    and any(isinstance(x, ast.Call) and isinstance(x.func, ast.Attribute) and x.func.attr == '_write_lines' for s2 in i.body for x in ast.walk(s2)):
                                ok = True
                        if not ok:
                            rd.violate(key + ':unguarded', c.module.rel, n.lineno, "write() reaches _write_to_buffer without the `'\\n' in s` test routing multi-line text to _write_lines")
                    else:
                        consts = [x.value for x in ast.walk(arg) if isinstance(x, ast.Constant) and isinstance(x.value, str)] if arg is not None else []
                        dyn = [x for x in ast.walk(arg) if isinstance(x, (ast.Name, ast.Attribute, ast.Call, ast.JoinedStr))] if arg is not None else [None]
                        dyn = [x for x in dyn if not (isinstance(x, ast.Attribute) and x.attr == 'level') and not (isinstance(x, ast.Name) and x.id == 'self')]
                        if any('\n' in s for s in consts) or dyn:
                            rd.violate(key + ':maybe-newline', c.module.rel, n.lineno,
                                       '%s passes text that may contain a newline straight to _write_to_buffer (markers not extended)' % key)
    wl = ccw.methods.get('_write_lines')
    if wl is None:
        raise AnalysisError('CCodeWriter._write_lines vanished')
    rd.inst('Code.CCodeWriter._write_lines:markers')
    ext = None
    for n in walk_no_nested(wl):
        if isinstance(n, ast.Call) and isinstance(n.func, ast.Attribute) and n.func.attr == 'extend' and \
                isinstance(n.func.value, ast.Attribute) and n.func.value.attr == 'markers':
            ext = n
    wcall = [n for n in walk_no_nested(wl) if isinstance(n, ast.Call) and isinstance(n.func, ast.Attribute) and n.func.attr == '_write_to_buffer']
    if ext is None or not wcall:
        rd.violate('Code.CCodeWriter._write_lines:markers', code.rel, wl.lineno, '_write_lines no longer extends buffer.markers before writing')
    else:
        a = ext.args[0]
        good = isinstance(a, ast.BinOp) and isinstance(a.op, ast.Mult) and any(
            isinstance(x, ast.Call) and isinstance(x.func, ast.Attribute) and x.func.attr == 'count' and x.args and
            isinstance(x.args[0], ast.Constant) and x.args[0].value == '\n' and isinstance(x.func.value, ast.Name) and x.func.value.id == wl.args.args[1].arg
            for x in (a.left, a.right)) and any(isinstance(x, ast.List) and len(x.elts) == 1 for x in (a.left, a.right))
        if not good:
            rd.violate('Code.CCodeWriter._write_lines:count', code.rel, ext.lineno,
                       'markers must be extended by exactly one entry per newline of the text written ([m] * s.count("\\n")); found %s' % node_src(a))
        if ext.lineno > wcall[0].lineno:
            rd.violate('Code.CCodeWriter._write_lines:order', code.rel, ext.lineno, 'markers are extended after the text is written')
        # the same string is written
        if not (wcall[0].args and isinstance(wcall[0].args[0], ast.Name) and wcall[0].args[0].id == wl.args.args[1].arg):
            rd.violate('Code.CCodeWriter._write_lines:text', code.rel, wcall[0].lineno, '_write_lines writes a different string than the one it counted newlines in')
    # nobody outside StringIOTree / _write_lines mutates .markers, .stream, .prepended_children
    for m in ix.modules.values():
        for qn, owner, fn in ix.functions_of(m):
            if owner is sio:
                continue
            for n in walk_no_nested(fn):
                tgt = None
                if isinstance(n, ast.Attribute) and n.attr in ('markers', CHILDREN) and isinstance(n.ctx, (ast.Store, ast.Del)):
                    tgt = n
                elif isinstance(n, ast.Call) and isinstance(n.func, ast.Attribute) and n.func.attr in ('append', 'extend', 'insert', 'pop', 'clear', 'remove', 'sort', 'reverse') \
                        and isinstance(n.func.value, ast.Attribute) and n.func.value.attr in ('markers', CHILDREN):
                    tgt = n
                elif isinstance(n, ast.Attribute) and n.attr == 'stream' and isinstance(n.ctx, ast.Store) and isinstance(n.value, ast.Attribute) and n.value.attr == 'buffer':
                    tgt = n
                if tgt is None:
                    continue
                key = '%s.%s' % (m.short, qn)
                rd.inst(key + ':mutates', sample=key + ' mutates ' + node_src(tgt, 60))
                if not (owner is ccw and fn.name == '_write_lines'):
                    rd.violate(key + ':mutates-buffer-state', m.rel, n.lineno,
                               '%s mutates StringIOTree state (%s) from outside the buffer class' % (key, node_src(tgt, 60)))
    rules.append(rd)
    return rules
