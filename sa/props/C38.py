"""C38 — pure-Python mode: every `cython.<name>` spelling the compiler interprets exists in the Shadow module.

A static model of the namespace created by Cython/Shadow.py (sa/rules/pC38.py; nothing is imported or executed)
is compared with the compiler's tables of names it accepts after `import cython`.
"""
import ast

from ..core import Rule, AnalysisError
from ..rules import pC38, sC38

ID = 'C38'
TECHNIQUE = ('table agreement between the compiler\'s name tables (Options.directive_types/_directive_defaults/directive_scopes, '
             'InterpretCompilerDirectives.special_methods/valid_cython_submodules/valid_parallel_directives, PyrexTypes basic type tables) '
             'and a statement-order model of the module namespace of Shadow.py (bindings, del, globals() stores evaluated over finite sets, '
             'sys.modules registrations, attribute lookup through classes/instances/functions); exactness (float-taint) abstract interpretation of the '
             'integer emulation functions of Shadow.py; decision table of AdjustDefByDirectives.visit_DefNode obtained by interpreting its code in the checker '
             'over the complete domain of decorator combinations; (strengthening 4, sa/rules/sC38.py) finite-domain evaluation of the extracted bodies of Shadow.cdiv/cmod over '
             'every sign x residue class of small divisors against the C99 definition; three-valued evaluation of every __exit__ in the world "an exception is in flight"; '
             'typedef()-chain resolution of the shadow C-type names against the type classes of PyrexTypes; world evaluation (Mini) of ParallelRangeNode.analyse_declarations, '
             'TransformBuiltinMethods.visit_SimpleCallNode/visit_GeneralCallNode, DefNode.as_cfunction and InterpretCompilerDirectives.try_to_parse_directives/'
             'try_to_parse_directive/visit_WithStatNode per directive x argument shape, compared with an abstract call evaluator (signature binding + returned value) over the '
             'object descriptors of the shadow model')
DECIDES = ('necessary conditions for "a pure-mode module imports and runs under CPython exactly when it compiles": '
           '(DIR) every directive that the compiler accepts as decorator or with-item (a key of Options.directive_types or _directive_defaults whose '
           'directive_scopes entry is absent or names a non-module scope) resolves as an attribute path of the Shadow module, dotted names through '
           'the attributes of the bound object; (SPECIAL) every undotted name of InterpretCompilerDirectives.special_methods that is not a cython.* '
           'submodule is bound in Shadow; (TYPES) every C type name the compiler resolves directly from PyrexTypes.fixed_sign_int_types / '
           'modifiers_and_name_to_type[(1, 0, name)] as `cython.<name>` is bound in Shadow (statically or by its globals() loops); '
           '(SUBMOD) valid_cython_submodules and the sys.modules["cython.*"] registrations of Shadow agree in both directions; '
           '(SUBATTR) a registered submodule is also reachable as attribute `cython.<sub>` (the compiler accepts `import cython.<sub>; cython.<sub>.x`); '
           '(PAR) valid_parallel_directives = the __all__ of the object registered as cython.parallel and each is an attribute of it; '
           '(COMPILED) Shadow.compiled is the constant False and the compiler replaces cython.compiled by a true BoolNode. '
           '(EXACT, sa/rules/sC38.py) the Shadow functions with an all-int signature (cdiv, cmod) return a value computed by integer-exact operations only: no true '
           'division, float(), math.* or negative power feeds the return value, also not through int()/round() - a double has 53 bits, a C long long 63. '
           '(EXC, sa/rules/sC38.py) for each of the 32 combinations {cfunc, ccall} x @exceptval x @returns x annotation_typing x return annotation, every path of '
           'AdjustDefByDirectives.visit_DefNode that reaches as_cfunction passes: the explicit @exceptval value unchanged with has_explicit_exc_clause=True; '
           'otherwise, when a C return type is passed (from @returns or from the annotation), an exception clause with check=True - so exceptions propagate out of '
           'compiled pure-mode C functions as they do when interpreted. '
           '(TRUNC) the bodies of Shadow.cdiv / Shadow.cmod, interpreted by the checker, equal the C99 quotient truncated toward zero / the remainder with the sign of the '
           'dividend on every pair (a, b) with b in +-{1,2,3,5,7} and |a| <= 3|b|+2 (all sign combinations, every residue class of a modulo |b| on both sides of zero, zero '
           'included); representative because - checked syntactically, reported as info otherwise - the functions inspect their operands only through + - * // % unary minus, '
           'abs, divmod and comparisons, so their behaviour is piecewise determined by signs and residues. '
           '(EXIT) every __exit__ defined by a class of Shadow.py returns a false value on every path when its arguments are live exception info (not None, true): no '
           '`with cython.nogil / gil / critical_section(o) / <directive>(v)` block and no pymutex swallows an exception uncompiled; delegation to another object is info. '
           '(KIND) for every C type name N that parse_basic_ctype resolves by table lookup to a numeric type object, the builtin at the end of the typedef() chain of '
           'Shadow.N (through py_int/py_float/py_complex, the globals() loops over int_types/float_types/complex_types, aliases) is int for is_int, float for is_float, complex '
           'for is_complex type classes and bool for the class whose to_py_function is a PyBool conversion (bint). '
           '(PRANGE) the prange method of the object registered as cython.parallel returns range(S, T, K) with (S, T, K) = the (start, stop, step) slots in which '
           'ParallelRangeNode.analyse_declarations stores 1, 2 and 3 positional arguments (omitted start = 0, omitted step = 1). '
           '(COP) visit_SimpleCallNode builds, on every path without error(), binop_node(`/`) for cdiv and binop_node(`%`) for cmod with operands (arg0, arg1) and '
           'cdivision = True (keyword or later attribute store), and TypecastNode(type = type named by arg0, operand = arg1) for cast; same for cast with keywords in '
           'visit_GeneralCallNode; the @ccall branch of visit_DefNode passes overridable=True and the @cfunc branch overridable=False to as_cfunction; the element of the '
           'exceptval pair that as_cfunction hands to exception_check= / exception_value= is the element in which visit_DefNode and try_to_parse_directive put the check flag / value. '
           '(SHAPE) per directive usable as decorator, per spelling the compiler accepts for it (read from try_to_parse_directives / try_to_parse_directive per directive type: '
           'bare, (), (v), (v, v), (k=v), (check=v), (v, check=v), (<sub-option>=v)): the call binds to the signature of the shadow function / lambda / class / __call__ and the '
           'result applied to the decorated object evaluates to that object (wrappers that keep a reference to it: info) - demanded of every accepted spelling when the compiler '
           'accepts only bare or only call spellings, and of at least one accepted spelling for bool / deferred directives where both are accepted; directives whose '
           'directive_scopes entry names "with statement": an accepted spelling evaluates to an object with __enter__ and __exit__; Shadow.cast binds every keyword '
           'visit_GeneralCallNode looks up (typecheck) and does not reject it before use.')
NOT_DECIDED = ('the transfer of the cdiv/cmod value clause from the enumerated small operands to large ones (a function with a magnitude threshold above 23 would pass; '
               'C38-EXACT excludes the float route); value conversion by cast / the typedef call / declare on run-time values (None, out-of-range, float to int); '
               'that EVERY spelling the compiler accepts for a bool directive works uncompiled (on the unmodified tree each bool directive supports one of bare / call: '
               'C38-ALLFORMS, registered; its 20 failing rows on the unmodified tree are the known finding K21), with-statement use of directives without an explicit "with statement" scope, sub-option keywords '
               '(`infer_types(verbose=True)`); the default of exceptval(check=); C type names reached only through parse_basic_type prefixes (longlong, uint, p_int); '
               'wrap-around of C integer arithmetic; program equivalence. '
               'Dotted special methods (cython.operator.*) and cython.view are compile-only by design and only enter through the SUBMOD exemptions.')
ASSUMPTIONS = ['Shadow.py is executed top to bottom once; `if TYPE_CHECKING:` bodies do not run (typing.TYPE_CHECKING is False at run time)',
               'cython.py re-exports the Shadow namespace with `from Cython.Shadow import *`, so names with a leading underscore are not part of `cython.*`',
               'TRUNC/COP: the meaning of the names is fixed - cdiv is the C operator `/`, cmod the C operator `%` on signed integers (C99 6.5.5); operands stay in range',
               'COP: a node class gets keyword arguments of its constructor as attributes (Node.__init__), so binop_node(..., cdivision=True) equals a later attribute store; '
               'directives reach AdjustDefByDirectives.visit_DefNode as the values try_to_parse_directive returned',
               'SHAPE: the worlds are decorator / with-item expressions whose arguments are not the literal None (which selects the directive default for every type); the node '
               'classes CallNode / AttributeNode / NameNode tested by try_to_parse_directives distinguish the call from the bare spelling; for deferred-argument directives '
               '(nogil, gil, critical_section, dataclasses.*) only the bare and the one-argument spelling are claimed; a directive argument of a bool/int/str/list directive is a '
               'compile-time literal, hence not callable',
               'KIND: a C type is converted to the Python type named by the is_int / is_float / is_complex flag of its type class, to bool when its to_py_function is a PyBool '
               'conversion; character types (PyUnicode conversion: Py_UCS4, Py_UNICODE) are documented as int-or-str and not compared',
               'PRANGE: start=None / step=None of ParallelRangeNode mean 0 / 1 (C37-TRIP)']

EXEMPT = {
    ('C38-DIR', 'directive:staticmethod'):
        'the directive is spelled as the builtin `staticmethod` (InterpretCompilerDirectives.directive_names maps the bare name); `cython.staticmethod` is not a documented spelling',
    ('C38-TYPES', 'type:object'):
        'py_object_type is spelled `object`; `cython.object` is an accident of the shared lookup table, not a documented pure-mode name',
    ('C38-SUBMOD', 'submodule:operator'):
        'cython.operator (C++ operator helpers) is compile-only by design; no interpreted emulation is claimed',
    ('C38-SUBMOD', 'submodule:view'):
        'cython.view (memoryview internals) is compile-only by design; no interpreted emulation is claimed',
    ('C38-SUBATTR', 'submodule-attr:cimports'):
        'the compiler rejects `import cython.cimports` (visit_CImportStatNode: "Cannot cimport the cython.cimports package directly"), so the attribute spelling is not valid pure-mode code',
}

OPTIONS = 'Cython/Compiler/Options.py'
PTT = 'Cython/Compiler/ParseTreeTransforms.py'
PYREX = 'Cython/Compiler/PyrexTypes.py'
SHADOW = 'Cython/Shadow.py'

MUTATIONS = [
    # (file, single edit tried on a scratch copy, rule that reported it) - all 22 were reported, each naming the edited construct
    (SHADOW, "drop `initializedcheck = ` from the chained lambda assignment", 'C38-DIR'),
    (SHADOW, "rename `def maybe_uninitialized` of class warn to `maybe_uninit`", 'C38-DIR'),
    (SHADOW, "remove `embedsignature.format = ` from the chained attribute assignment", 'C38-DIR'),
    (SHADOW, "delete the static method `unused` of class warn", 'C38-DIR'),
    (OPTIONS, "add a new directive `'fastmath': False` to _directive_defaults (no Shadow binding)", 'C38-DIR'),
    (OPTIONS, "directive_scopes['ccomplex'] = ('module', 'function') (module-only directive becomes a decorator)", 'C38-DIR'),
    (SHADOW, "add `__all__ = ['compiled', 'declare', 'cast']` at module level (star re-export restricted)", 'C38-DIR'),
    (SHADOW, "rename `def unlikely` to `def unlikly`", 'C38-SPECIAL'),
    (SHADOW, "`del name, reprname` -> `del name, reprname, cast`", 'C38-SPECIAL'),
    (SHADOW, "move `NULL: pointer[Any] = gs['p_void'](0)` under `if TYPE_CHECKING:`", 'C38-SPECIAL'),
    (SHADOW, "delete `'Py_hash_t',` from int_types", 'C38-TYPES'),
    (SHADOW, "delete `bint = typedef(bool, \"bint\")`", 'C38-TYPES'),
    (SHADOW, "delete the loop `for name in float_types: gs[name] = ...`", 'C38-TYPES'),
    (SHADOW, "delete the line `sys.modules['cython.parallel'] = CythonDotParallel()`", 'C38-SUBMOD'),
    (SHADOW, "sys.modules['cython.dataclasses'] -> sys.modules['cython.dataclass']", 'C38-SUBMOD'),
    (PTT, "add 'numeric' to valid_cython_submodules", 'C38-SUBMOD'),
    (SHADOW, "rename `def threadid` of CythonDotParallel to `thread_id`", 'C38-PAR'),
    (PTT, 'enable "threadsavailable" in valid_parallel_directives', 'C38-PAR'),
    (SHADOW, "CythonDotParallel.__all__ loses 'prange'", 'C38-PAR'),
    (SHADOW, "`compiled: bool = False` -> True", 'C38-COMPILED'),
    (PTT, "visit_NameNode: BoolNode(node.pos, value=True) -> value=False", 'C38-COMPILED'),
    (SHADOW, "`dataclasses = sys.modules[...] = X` -> `sys.modules[...] = X` (attribute lost)", 'C38-SUBATTR'),
]
MUTATIONS += [   # strengthening round (seeds C38a / C38b): all reported with exit 1
    (SHADOW, "seed C38a: cdiv body -> `return int(a / b)`", 'C38-EXACT Shadow.cdiv:return'),
    (SHADOW, "cmod body -> `import math; return int(math.fmod(a, b))`", 'C38-EXACT Shadow.cmod:return'),
    (SHADOW, "cdiv: only the b < 0 branch -> `return -int(a / -b)`", 'C38-EXACT Shadow.cdiv:return'),
    (SHADOW, "cdiv: `q = a * (1 / b); return round(q)` (float through a local)", 'C38-EXACT Shadow.cdiv:return'),
    (SHADOW, "cdiv: `return a * b ** -1 // 1`", 'C38-EXACT Shadow.cdiv:return'),
    (PTT, "seed C38b: backward-compatible default hoisted in front of the annotation branch", 'C38-EXC exc:cfunc:implicit-check, exc:ccall:implicit-check (--TA)'),
    (PTT, "`(None, True if return_type_node else False)` -> `(None, False if return_type_node else True)`", 'C38-EXC exc:*:implicit-check (-R**)'),
    (PTT, "annotation branch: `except_val = (None, True)` -> `(None, False)`", 'C38-EXC exc:*:implicit-check (--TA)'),
    (PTT, "`has_explicit_exc_clause = False if except_val is None else True` inverted", 'C38-EXC exc:*:explicit-flag'),
    (PTT, "ccall branch: drop `except_val=except_val` from the as_cfunction call", 'C38-EXC exc:ccall:explicit-value, exc:ccall:implicit-check'),
    (PTT, "annotation branch test `return_type_node is not None` -> `is None`", 'C38-EXC exc:*:implicit-check (--TA, through the default (None, False) of as_cfunction)'),
]
MUTATIONS += [   # strengthening 4 (patches under mutants/C38/, replayed by the thorough tier): all reported with exit 1
    (SHADOW, "cdiv `(a + b + 1) // b` -> `(a + b - 1) // b`; `if a < 0:` negates only a; cdiv without the b < 0 branch", 'C38-TRUNC Shadow.cdiv:value'),
    (SHADOW, "cmod test `(a * b) < 0` -> `a < 0`; `r -= b` -> `r += b`; adjustment dropped; `and r` dropped", 'C38-TRUNC Shadow.cmod:value'),
    (SHADOW, "_nogil.__exit__ returns True / a local `handled = exc_type is not None`; critical_section.__exit__ returns `exc_type is not None`; "
             "_EmptyDecoratorAndManager.__exit__ returns True; _pymutex_base.__exit__ `... or True`", 'C38-EXIT Shadow.<class>.__exit__'),
    (SHADOW, "bint = typedef(int, ...); float loop -> typedef(py_int, ...); complex loop -> py_float; int loop -> py_float; py_float = typedef(int, ...)", 'C38-KIND kind:<name>'),
    (SHADOW, "prange: `start = 0` dropped; range(start, stop) without step; range(stop, start, step)", 'C38-PRANGE prange:arity<n>'),
    ('Cython/Compiler/Nodes.py', "ParallelRangeNode.analyse_declarations: `self.stop, self.start = self.args`", 'C38-PRANGE prange:arity2'),
    (PTT, "visit_SimpleCallNode: cdiv builds '%'; cmod without cdivision / cdivision = False; operands swapped (cdiv, cmod); cdiv branch removed; cast operand=args[0]", 'C38-COP cop:<name>:call'),
    (PTT, "visit_GeneralCallNode: cast analyses args[1] as the type", 'C38-COP cop:cast:call-with-keywords'),
    (PTT, "visit_DefNode: ccall branch overridable=False; cfunc branch overridable=True", 'C38-COP overridable:<kind>'),
    ('Cython/Compiler/Nodes.py', "as_cfunction: `exception_check, exception_value = except_val or (False, None)`", 'C38-COP except-slots:*'),
    (PTT, "try_to_parse_directive returns ('exceptval', (check, value))", 'C38-COP except-slots:InterpretCompilerDirectives.try_to_parse_directive'),
    (SHADOW, "_EmptyDecoratorAndManager.__call__ returns self; _nogil.__call__ always returns self; chained directive lambda without parameter", 'C38-SHAPE shape:<d>:decorator:*'),
    (SHADOW, "exceptval lambda without default / keyword renamed; def locals(*arg_types); test_assert_path_exists(paths)", 'C38-SHAPE shape:<d>:decorator:call(...)'),
    (SHADOW, "_EmptyDecoratorAndManager without __enter__", 'C38-SHAPE shape:ccall:with:bare ...'),
    (SHADOW, "cast no longer pops typecheck before `assert not kwargs`", 'C38-SHAPE shape:cast:call(T, v, typecheck=ARG)'),
    (OPTIONS, "directive_types['ufunc'] = int; directive_scopes['inline'] gains 'with statement'", 'C38-SHAPE shape:ufunc:decorator:call(ARG), shape:inline:with:bare'),
]
PRESERVING = [
    # behaviour-preserving edits, all silent
    (SHADOW, "reorder the names inside the chained `nonecheck = cdivision = ...` assignment"),
    (SHADOW, "rename the lambda parameter of the chained directive lambda"),
    (SHADOW, "replace `cclass = cfunc = ccall = _EmptyDecoratorAndManager()` by three separate (aliasing) assignments"),
    (SHADOW, "turn `int_types` from a list into a tuple and reverse its rows"),
    # strengthening round: C38-EXACT / C38-EXC silent
    (SHADOW, "cmod rewritten with `q, rem = divmod(a, b)` and a sign test `(a < 0) != (b < 0)`"),
    (SHADOW, "cdiv rewritten as `sign * (abs(a) // abs(b))`"),
    (SHADOW, "cdiv: a float used only in a test (`if b / 1 < 0:`), the returned value stays integer"),
    (PTT, "visit_DefNode: exception default restructured (`from_annotation` local, nested ifs, `bool(return_type_node)`)"),
    (PTT, "`has_explicit_exc_clause = not (except_val is None)`"),
    (PTT, "`except_val = (None, True)` for the backward-compatible default as well (an exception check is never wrong for the property)"),
    (SHADOW, "drop `overflowcheck.fold = ` from the chained attribute assignment (the class still has the method)"),
    (SHADOW, "move the static method `unused` of class warn into a new base class `_warn_base`"),
    (SHADOW, "register cython.parallel through a named instance `_par = CythonDotParallel()`"),
    (OPTIONS, "write directive_scopes['ccomplex'] as ['module'] instead of ('module',)"),
    (PTT, "replace `special_methods.update(unop_method_nodes)` by `special_methods |= {literal set}`"),
    # strengthening 4: all silent
    (SHADOW, "cdiv: `a, b = -a, -b`; `sign * (abs(a) // abs(b))`; repeated subtraction in a while loop; `if b / 1 < 0`"),
    (SHADOW, "cmod: `(a < 0) != (b < 0)` with `r != 0`; divmod with early return; bit trick `(a ^ b) < 0` (info: outside the fragment)"),
    (SHADOW, "__exit__: `return not exc_type`; if/early returns; `*exc_info` with `exc_info[0] is None and None`; class-level lambda returning None"),
    (SHADOW, "float loop through locals `base = py_float`; loop unrolled into explicit typedef bindings; `_pybool = bool; bint = typedef(_pybool, ...)`"),
    (SHADOW, "prange: `start, stop = 0, start`; `return range(start)` for one argument; parameters renamed + conditional expression + iter(range(...))"),
    ('Cython/Compiler/Nodes.py', "analyse_declarations: arity dispatch by index instead of tuple unpacking; as_cfunction reads the exceptval pair by index"),
    (PTT, "visit_SimpleCallNode: cmod/cdiv branches merged with an operator table; cdivision=True as keyword of binop_node; cast branch with unpacked locals and reordered keywords"),
    (PTT, "visit_DefNode: overridable passed through a local; try_to_parse_directive int branch by De Morgan; try_to_parse_directives bare test through a local"),
    (SHADOW, "exceptval as def; locals as lambda **kw; manager __call__ through a local; the chained directive lambda as a named def; cast with an explicit typecheck parameter; "
             "cast if/elif chain as early returns"),
]


# ------------------------------------------------------------------------------------------------ extraction
def _scopes(ds_map):
    """directive -> set of scope words (a str value behaves as a substring test in check_directive_scope)."""
    vocab, raw = set(), {}
    for k, v in ds_map.items():
        try:
            lit = ast.literal_eval(v)
        except Exception:
            raise AnalysisError('Options.directive_scopes[%r] is not a literal' % k)
        raw[k] = lit
        if isinstance(lit, (tuple, list, set, frozenset)):
            vocab |= {x for x in lit if isinstance(x, str)}
    vocab |= {'module', 'function', 'class', 'cclass', 'with statement'}
    out = {}
    for k, lit in raw.items():
        if isinstance(lit, str):
            out[k] = {w for w in vocab if w in lit}
        else:
            out[k] = set(lit)
    return out


def _basic_type_names(tree):
    """Names N for which PyrexTypes.parse_basic_ctype(N) succeeds by table lookup: keys of fixed_sign_int_types and
    names of the (1, 0, N) rows of modifiers_and_name_to_type -> {name: line}."""
    names = {}
    found = set()
    for n in tree.body:
        if not (isinstance(n, ast.Assign) and len(n.targets) == 1 and isinstance(n.targets[0], ast.Name) and isinstance(n.value, ast.Dict)):
            continue
        if n.targets[0].id == 'fixed_sign_int_types':
            found.add('fixed')
            for k in n.value.keys:
                if isinstance(k, ast.Constant) and isinstance(k.value, str):
                    names[k.value] = k.lineno
        elif n.targets[0].id == 'modifiers_and_name_to_type':
            found.add('mods')
            for k in n.value.keys:
                try:
                    t = ast.literal_eval(k)
                except Exception:
                    continue
                if isinstance(t, tuple) and len(t) == 3 and t[0] == 1 and t[1] == 0 and isinstance(t[2], str):
                    names[t[2]] = k.lineno
    if found != {'fixed', 'mods'}:
        raise AnalysisError('PyrexTypes.fixed_sign_int_types / modifiers_and_name_to_type not found as dict literals')
    # the lookup chain itself: parse_basic_type -> parse_basic_ctype -> simple_c_type(1, 0, name)
    fns = {f.name: f for f in tree.body if isinstance(f, ast.FunctionDef)}
    for need in ('parse_basic_type', 'parse_basic_ctype', 'simple_c_type'):
        if need not in fns:
            raise AnalysisError('PyrexTypes.%s vanished' % need)
    ok = any(isinstance(c, ast.Call) and isinstance(c.func, ast.Name) and c.func.id == 'simple_c_type' and len(c.args) == 3 and
             isinstance(c.args[0], ast.Constant) and c.args[0].value == 1 and isinstance(c.args[1], ast.Constant) and c.args[1].value == 0
             for c in ast.walk(fns['parse_basic_ctype']))
    ok = ok and any(isinstance(c, ast.Call) and isinstance(c.func, ast.Name) and c.func.id == 'parse_basic_ctype' for c in ast.walk(fns['parse_basic_type']))
    ok = ok and any(isinstance(c, ast.Name) and c.id == 'modifiers_and_name_to_type' for c in ast.walk(fns['simple_c_type']))
    if not ok:
        raise AnalysisError('PyrexTypes.parse_basic_type no longer resolves plain names through parse_basic_ctype -> simple_c_type(1, 0, name)')
    return names


def _compiled_rewrites(cdef):
    """[(method name, line, value)] for `if <...> == "compiled": return <...>BoolNode(..., value=<const>)`."""
    out = []
    for fn in cdef.body:
        if not isinstance(fn, ast.FunctionDef):
            continue
        for n in ast.walk(fn):
            if not isinstance(n, ast.If):
                continue
            if not any(isinstance(c, ast.Compare) and any(isinstance(x, ast.Constant) and x.value == 'compiled' for x in [c.left] + c.comparators)
                       for c in ast.walk(n.test)):
                continue
            for r in n.body:
                for x in ast.walk(r):
                    if isinstance(x, ast.Return) and isinstance(x.value, ast.Call):
                        f = x.value.func
                        nm = f.attr if isinstance(f, ast.Attribute) else getattr(f, 'id', None)
                        if nm == 'BoolNode':
                            val = [k.value for k in x.value.keywords if k.arg == 'value']
                            out.append((fn.name, x.lineno, val[0].value if val and isinstance(val[0], ast.Constant) else None))
    return out


# ------------------------------------------------------------------------------------------------ run
def run(ctx):
    rules = []
    sh_tree = ctx.parse(SHADOW)
    sh = pC38.ShadowModel(sh_tree, SHADOW)
    if len(sh.ns) < 60:
        raise AnalysisError('Shadow model found only %d module-level bindings' % len(sh.ns))
    opt = ctx.parse(OPTIONS)
    _, dtypes = pC38.module_literal_dict(opt, 'directive_types', OPTIONS)
    _, ddefs = pC38.module_literal_dict(opt, '_directive_defaults', OPTIONS)
    _, dscopes = pC38.module_literal_dict(opt, 'directive_scopes', OPTIONS)
    directives = dict(dtypes)
    if pC38.merges_defaults_into_types(opt, 'directive_types', '_directive_defaults'):
        for k, v in ddefs.items():
            directives.setdefault(k, v)
    scopes = _scopes(dscopes)
    ptt = ctx.parse(PTT)
    icd = pC38.class_def(ptt, 'InterpretCompilerDirectives', PTT)
    special, special_line = pC38.class_str_set(icd, 'special_methods', PTT)
    submods, submods_line = pC38.class_str_set(icd, 'valid_cython_submodules', PTT)
    pardirs, pardirs_line = pC38.class_str_set(icd, 'valid_parallel_directives', PTT)

    def check(rule, key, dotted, rel, line, what, breaks):
        st, detail = sh.lookup(dotted)
        if st is False:
            rule.violate(key, rel, line, '%s but Shadow.py does not provide it: %s. %s' % (what, detail, breaks))
        elif st == pC38.MAYBE:
            rule.info('%s: %s not decidable (%s)' % (key, dotted, detail))
        return st

    # ------------------------------------------------------------------ DIR
    r = Rule('C38-DIR', 'every directive usable as decorator / with-item (Options.directive_types + _directive_defaults, scope not module-only) resolves as cython.<name> in Shadow.py', floor=55)
    for d in sorted(directives):
        sc = scopes.get(d)
        if sc is not None and not (sc - {'module'}):
            continue
        r.inst('directive:' + d, sample='cython.%s (scopes: %s)' % (d, sorted(sc) if sc else 'any'))
        check(r, 'directive:' + d, d, SHADOW, sh.line_of(d.split('.')[0]),
              'the compiler accepts `@cython.%s` / `with cython.%s` (Options.directive_types, allowed scopes %s)' % (d, d, sorted(sc) if sc else 'any'),
              'A pure-Python module using it compiles but raises AttributeError when run uncompiled.')
    pm = pC38.ShadowModel(ast.parse("class warn:\n    @staticmethod\n    def unused_argument(v): return v\noptimize = warn\nx = lambda _: 0\n"))
    r.positive_control(pm.lookup('warn.unused_arg')[0] is False and pm.lookup('nonecheck')[0] is False and pm.lookup('x.fold')[0] is False
                       and pm.lookup('optimize.unused_argument')[0] is True, 'misspelled / missing directive attribute')
    rules.append(r)

    # ------------------------------------------------------------------ SPECIAL
    r = Rule('C38-SPECIAL', 'every undotted InterpretCompilerDirectives.special_methods name that is not a cython.* submodule is bound in Shadow.py', floor=11)
    for s in sorted(special):
        if '.' in s or s in submods:
            continue
        r.inst('special:' + s, sample='cython.' + s)
        check(r, 'special:' + s, s, SHADOW, 1, 'the compiler interprets `cython.%s` (InterpretCompilerDirectives.special_methods)' % s,
              'Pure-mode code using it fails with AttributeError when run uncompiled.')
    pm = pC38.ShadowModel(ast.parse("def cast(t, v): return v\ndef sizeof(o): return 1\ndel cast\nif TYPE_CHECKING:\n    def declare(): pass\n"
                                    .replace('if TYPE', 'from typing import TYPE_CHECKING\nif TYPE')))
    r.positive_control(pm.lookup('cast')[0] is False and pm.lookup('declare')[0] is False and pm.lookup('sizeof')[0] is True, 'deleted / TYPE_CHECKING-only binding')
    rules.append(r)

    # ------------------------------------------------------------------ TYPES
    r = Rule('C38-TYPES', 'every C type name resolved by table lookup in PyrexTypes.parse_basic_ctype is bound as cython.<name> in Shadow.py', floor=16)
    for nm, line in sorted(_basic_type_names(ctx.parse(PYREX)).items()):
        r.inst('type:' + nm, sample='cython.' + nm)
        check(r, 'type:' + nm, nm, SHADOW, 1, 'the compiler accepts the type name `cython.%s` (PyrexTypes table, line %d)' % (nm, line),
              'An annotation or cython.declare() with it works compiled and raises AttributeError uncompiled.')
    pm = pC38.ShadowModel(ast.parse("gs = globals()\nint_types = ['char', 'short']\nfor name in int_types:\n    gs[name] = 1\n    gs['u' + name] = 1\n"
                                    "for i in range(1, 3):\n    for t in int_types:\n        gs[f\"{'p'*i}_{t}\"] = 2\ndel gs\n"))
    r.positive_control(pm.lookup('int')[0] is False and pm.lookup('ushort')[0] is True and pm.lookup('pp_char')[0] is True and pm.lookup('ppp_char')[0] is False,
                       'type missing from the generating list')
    rules.append(r)

    # ------------------------------------------------------------------ SUBMOD
    r = Rule('C38-SUBMOD', 'InterpretCompilerDirectives.valid_cython_submodules <-> sys.modules["cython.<sub>"] registrations in Shadow.py', floor=6)
    registered = {}
    for k, (o, line) in sh.sysmods.items():
        if k.startswith('cython.'):
            registered.setdefault(k.split('.')[1], []).append((k, line))
    for s in sorted(submods):
        r.inst('submodule:' + s, sample='cython.%s registered: %s' % (s, 'cython.' + s in sh.sysmods))
        if 'cython.' + s not in sh.sysmods:
            if sh.dyn_unresolved:
                r.info('submodule:%s undecidable: sys.modules/globals stores with unevaluable keys' % s)
                continue
            r.violate('submodule:' + s, SHADOW, 1,
                      'the compiler accepts `from cython.%s import ...` (valid_cython_submodules, %s line %s) but Shadow.py never registers '
                      'sys.modules[%r]: the import fails with ModuleNotFoundError ("cython is not a package") when run uncompiled' % (s, PTT, submods_line, 'cython.' + s))
    for top, regs in sorted(registered.items()):
        r.inst('registered:' + top, sample='%s -> valid: %s' % ([k for k, _ in regs], top in submods))
        if top not in submods:
            r.violate('registered:' + top, SHADOW, regs[0][1],
                      'Shadow.py registers %s, but %r is not in InterpretCompilerDirectives.valid_cython_submodules: the import works uncompiled '
                      'and is rejected by the compiler ("not a valid cython.* module")' % (regs[0][0], top))
    pm = pC38.ShadowModel(ast.parse("import math, sys\nsys.modules['cython.cimports'] = 1\nmodules = {}\nmodules['cython.parallel'] = 2\ndel math, sys\n"))
    r.positive_control(set(pm.sysmods) == {'cython.cimports'}, 'submodule that is not registered in sys.modules')
    rules.append(r)

    # ------------------------------------------------------------------ SUBATTR
    r = Rule('C38-SUBATTR', 'a submodule registered in sys.modules is also an attribute of the cython module (spelling `import cython.<sub>; cython.<sub>.x`)', floor=2)
    for s in sorted(submods):
        if 'cython.' + s not in sh.sysmods:
            continue
        r.inst('submodule-attr:' + s, sample='cython.%s attribute bound: %s' % (s, s in sh.ns))
        st, detail = sh.lookup(s)
        if st is False:
            r.violate('submodule-attr:' + s, SHADOW, sh.sysmods['cython.' + s][1],
                      'Shadow.py registers sys.modules[%r] but binds no module attribute %r (an entry in sys.modules does not create the attribute '
                      'on the parent module): `import cython.%s` followed by `cython.%s.<name>` is accepted by the compiler and raises '
                      "AttributeError: module 'cython' has no attribute %r when run uncompiled" % ('cython.' + s, s, s, s, s))
    pm = pC38.ShadowModel(ast.parse("import sys\nclass P: pass\nsys.modules['cython.parallel'] = P()\ndataclasses = sys.modules['cython.dataclasses'] = P()\n"))
    r.positive_control(pm.lookup('parallel')[0] is False and pm.lookup('dataclasses')[0] is True, 'registered but unbound submodule')
    rules.append(r)

    # ------------------------------------------------------------------ PAR
    r = Rule('C38-PAR', 'valid_parallel_directives = __all__ of the object registered as cython.parallel, and each is an attribute of it', floor=6)
    if 'cython.parallel' in sh.sysmods:
        pobj, pline = sh.sysmods['cython.parallel']
        if pobj.kind not in ('instance', 'class', 'any'):
            raise AnalysisError('the value registered as cython.parallel is not an instance of a Shadow class (line %d)' % pline)
        pcls = pobj.cls if pobj.kind == 'instance' else pobj
        for d in sorted(pardirs):
            r.inst('parallel:' + d, sample='cython.parallel.' + d)
            a = sh.getattr(pobj, d)
            if a is None:
                r.violate('parallel:' + d, SHADOW, pline,
                          'the compiler accepts `cython.parallel.%s` (valid_parallel_directives) but the object registered as cython.parallel (%s) has no '
                          'attribute %r: `from cython.parallel import %s` fails uncompiled' % (d, pcls.node.name if pcls is not None else '?', d, d))
        allv = sh.getattr(pobj, '__all__')
        names = None
        if isinstance(allv, pC38.Obj) and allv.node is not None:
            try:
                names = set(ast.literal_eval(allv.node))
            except Exception:
                names = None
        if names is not None:
            for d in sorted(pardirs | names):
                r.inst('parallel-all:' + d, sample='__all__ has %s: %s' % (d, d in names))
                if d not in names:
                    r.violate('parallel-all:' + d, SHADOW, allv.line,
                              '`from cython.parallel import *` binds %r when compiled (valid_parallel_directives) but not when run uncompiled (__all__ of %s lacks it)'
                              % (d, pcls.node.name))
                elif d not in pardirs:
                    r.violate('parallel-all:' + d, SHADOW, allv.line,
                              '__all__ of %s exports %r, which the compiler does not know (valid_parallel_directives): star import differs between compiled and uncompiled'
                              % (pcls.node.name, d))
        elif allv is None:
            r.info('the cython.parallel object has no __all__: star import exports every public attribute')
    else:
        r.info('cython.parallel is not registered (reported by C38-SUBMOD)')
        for d in sorted(pardirs):
            r.inst('parallel:' + d)
            r.inst('parallel-all:' + d)
    pm = pC38.ShadowModel(ast.parse("import sys\nclass P:\n    __all__ = ['prange']\n    def prange(self): pass\nsys.modules['cython.parallel'] = P()\n"))
    po = pm.sysmods['cython.parallel'][0]
    r.positive_control(pm.getattr(po, 'threadid') is None and isinstance(pm.getattr(po, 'prange'), pC38.Obj), 'missing parallel function')
    rules.append(r)

    # ------------------------------------------------------------------ COMPILED
    r = Rule('C38-COMPILED', 'cython.compiled is the constant False in Shadow.py and is replaced by BoolNode(value=True) by InterpretCompilerDirectives', floor=2)
    r.inst('Shadow.compiled', sample='Shadow.compiled')
    co = sh.ns.get('compiled')
    if co is None:
        r.violate('Shadow.compiled', SHADOW, 1, 'Shadow.py no longer binds `compiled`: `if cython.compiled:` raises AttributeError uncompiled')
    elif not (co.kind == 'const' and isinstance(co.node, ast.Constant) and co.node.value is False):
        r.violate('Shadow.compiled', SHADOW, co.line, 'Shadow.compiled must be the constant False (found %s): uncompiled code would take the `if cython.compiled:` branches'
                  % (ast.unparse(co.node) if co.node is not None else co.kind))
    rew = _compiled_rewrites(icd)
    if not rew:
        raise AnalysisError('no `== "compiled"` -> BoolNode rewrite found in InterpretCompilerDirectives')
    for name, line, val in rew:
        key = 'InterpretCompilerDirectives.%s:compiled' % name
        r.inst(key, sample='%s -> BoolNode(value=%r)' % (key, val))
        if val is not True:
            r.violate(key, PTT, line, '%s replaces cython.compiled by BoolNode(value=%r); compiled code must see True (Shadow.compiled is False)' % (name, val))
    pc = ast.parse("class X:\n    def visit_NameNode(self, node):\n        if node.as_cython_attribute() == 'compiled':\n            return ExprNodes.BoolNode(node.pos, value=False)\n        return node\n").body[0]
    r.positive_control(_compiled_rewrites(pc) == [('visit_NameNode', 4, False)], 'compiled rewritten to False')
    rules.append(r)
    rules += [sC38.rule_exact(ctx), sC38.rule_exc(ctx), sC38.rule_trunc(ctx), sC38.rule_exit(ctx), sC38.rule_kind(ctx), sC38.rule_prange(ctx), sC38.rule_cop(ctx), sC38.rule_shape(ctx),
              sC38.rule_allforms(ctx)]      # C38-ALLFORMS: every accepted spelling; the rows failing on the unmodified tree are the known finding K21
    return rules
