"""C45 — profiling and tracing events are balanced and well-nested (structural clauses of event emission)."""
from ..rules import pC45, sC45, s4C45

ID = 'C45'
TECHNIQUE = ('counter typestate over the control-flow graphs of the C helpers and macro bodies of Profile.c with per-name effect summaries; path-sensitive forward dataflow over the code-generating methods (three-valued evaluation of the tracing / is_terminator tests, event sequences split into '
             'success, error and common-tail segments of the generated C function and by the emitted #if/#else lines); prime implicants of the path-sensitive decision function '
             '"return label reached without a return event" over normalised atomic tests; configuration-matrix evaluation of the '
             'preprocessor conditions around the Profile.c macros; table agreement of guard event, state slot and fired event in the sys.monitoring block; '
             'role agreement between the kinds of emitted arguments and the use of the macro parameters (per configuration, helper functions followed); polarity analysis of nogil flags; '
             'typestate of the line-trace window; sibling agreement of the nogil / GIL branches and three-valued reachability of the delivering calls in the macro bodies')
DECIDES = ('C45-GUARD: every put_trace_* call and every raw __Pyx_Trace*/__Pyx_PyMonitoring_*/__Pyx_TurnOffSysMonitoring* emission in Cython/Compiler is dominated by a test '
           'that implies profile or linetrace (is_tracing(), directives[...] or a local alias of them). '
           'C45-PAIR: in every function that emits put_trace_start (FuncDefNode and GeneratorBodyDefNode.generate_function_definitions, ModuleNode.generate_module_init_func), '
           'for both C configurations selected by emitted `#if CYTHON_USE_SYS_MONITORING` lines: the success path has exactly one start, exactly one return event unless the '
           'path is conditioned on body.is_terminator, no unwind, and one put_trace_exit after them; the error path (from put_label(error_label)) has exactly one '
           'unwind/return event, which is the unwind event under sys.monitoring, followed by put_trace_exit; in YieldExprNode the yield event precedes the emitted C return and '
           'the resume event follows the resume label, one of each. '
           'C45-RET: a node that jumps to the return label and reports the return event itself (ReturnStatNode) does so on every path on which tracing may be enabled. '
           'C45-RETCOND: the decision function "ReturnStatNode reaches the return label without put_trace_return" over the non-tracing tests of the method (ifs normalised to '
           'atomic tests, single-assignment locals substituted, tracing tests fixed to profile / linetrace / both) has no prime implicant other than the recorded K10 condition '
           '(self.in_parallel): every further suppressing condition (generator, bare return, nogil, an early jump ...) is its own construct. '
           'C45-M2: every trace macro the compiler emits (names and arities extracted path-sensitively from CCodeWriter.put_trace_* that are called, and from raw emissions) has '
           'exactly one definition in each of the 8 configurations of CYTHON_PROFILE x CYTHON_TRACE x CYTHON_USE_SYS_MONITORING, with the emitted arity (aliases followed). '
           'C45-EVT: __Pyx_Monitoring_Event_Index and __Pyx_MonitoringEventTypes are aligned position by position; in every sys.monitoring macro/helper the event named by '
           'PyMonitoring_Fire<Event>Event equals the index of the state slot it is fired through and the event tested by __Pyx_IsTracing. '
           'C45-ARGS: every argument of an emitted trace macro call that is an instruction offset (pos_to_offset), a line (pos[LINE]), an error exit (error_goto) or a nogil flag sits in '
           'a macro parameter that the definition uses for that purpose in every configuration (offset slot / reported object of PyMonitoring_Fire*Event, PyCode_NewEmpty.firstlineno, '
           'the flag whose branch acquires the GIL, the statement `goto_error;`; helper functions followed). '
           'C45-NOGIL: every nogil flag computed from a gil_owned value (keyword nogil= of put_trace_*, the flag in __Pyx_TraceLine) is its negation. '
           'C45-WINDOW: __Pyx_TraceLine is emitted only under funcstate.can_trace and only for markers whose recorded trace flag (second component stored by mark_pos from its own '
           'parameter) is set; in each function emitting the start event no body code / tracing marker is emitted while can_trace is set before the start event or after the final '
           'return event; the start event of a generator body lies behind the insertion point of the resume switch. '
           'C45-BRANCH: in every macro/helper of Profile.c the nogil branch and the GIL branch make the same calls apart from GIL acquisition; the legacy macros reach their delivering '
           'call exactly when __Pyx_use_tracing is set; the start event is reachable when the skip flag is 0; the trace and the profile callback of one helper get the same PyTrace_ kind. '
           'C45-COUNT: events used by macros that plain functions execute lie below CyFunc_count, CyGen_count equals the table size, the function state array is declared with the '
           'function count, every PyMonitoring_EnterScope passes the count of its array. '
           'C45-BRACKET: in the pre-sys.monitoring implementation every function / macro of Profile.c that raises and lowers the tracing counter (tstate->tracing, through '
           '__Pyx_EnterTracing / __Pyx_LeaveTracing or any wrapper, effects summarised per name by a fixpoint) or invokes a c_tracefunc / c_profilefunc callback leaves the counter '
           'unchanged at every exit of every path (return statements, end of body, macro error exits; every #if variant of the body), callbacks run only while it is raised, it is not '
           'lowered before it is raised, and the raising and lowering macro of each version variant write the same fields (the lowering one not the same constant).')
NOT_DECIDED = ('nesting of events across calls at run time; that the return events of explicit `return` statements and the default return never both execute (relies on '
               'is_terminator being right); which statements call mark_pos at all; whether can_trace is reset before put_trace_exit when no marker follows (latent); GIL handling inside '
               'the macros beyond branch symmetry; frame / code object set-up of __Pyx_TraceSetupAndCall; which monitoring event a statement kind must produce (RAISE vs RERAISE); exception events (RAISE/RERAISE/EXCEPTION_HANDLED) are only checked for their guard and slot/event '
               'agreement, not for pairing.')
ASSUMPTIONS = ['the error segment of a generated function is what is emitted between put_label(<w>.error_label) and the end of the enclosing `if` (or the return label when emitted '
               'unconditionally); success code jumps over it', 'a CCodeWriter.put_trace_* method that is never called emits nothing']
DECIDES += (' C45-CLOSEGATE (round 8): a closing macro (return / unwind) without any delivering call in a configuration block whose start macro delivers is reported exactly when some '
            'emission path of that implementation (event sequences of C45-PAIR split by the emitted `#if CYTHON_USE_SYS_MONITORING` lines; statement nodes count for both) closes its '
            'activation with that kind of event; closing definitions in nested #if blocks (per Python version) are evaluated against the start macros of the enclosing configuration. '
            'C45-M2 evaluates version conditions (PY_VERSION_HEX compared with a constant) with one representative on each side of every threshold.')
EXEMPT = {
    ('C45-PAIR', 'ModuleNode.ModuleNode.generate_module_init_func:code:error:no-exit'):
        'failed module import: the error path of the module init function reports PY_UNWIND but skips __Pyx_PyMonitoring_ExitScope; PyMonitoring_ExitScope() is a no-op in CPython '
        '3.13/3.14 and the only effect is one leaked code object / frame per failed import - no event is missing or duplicated',
    ('C45-PAIR', 'Nodes.GeneratorBodyDefNode.generate_function_definitions:resume_code:success:no-exit'):
        'the `default:` branch of the resume switch is unreachable: __Pyx_Coroutine_SendEx rejects resume_label == -1 before calling the body and every other label has a case',
}

# Single-edit variants tried on a scratch copy: (file, edit, rule/construct that reported it).  All 22 breaking edits produced a
# new violation naming the construct (in addition to the two genuine findings below); the behaviour-preserving ones added nothing.
MUTATIONS = [
    ('Cython/Compiler/Nodes.py', 'ReraiseStatNode: drop the `if code.is_tracing():` around put_trace_exception', 'C45-GUARD Nodes.ReraiseStatNode.generate_execution_code:put_trace_exception#1'),
    ('Cython/Compiler/Nodes.py', 'ExceptClauseNode: `if tracing:` -> `if needs_exception:` around "__Pyx_TraceExceptionDone();"', 'C45-GUARD ...:__Pyx_TraceExceptionDone#1'),
    ('Cython/Compiler/Nodes.py', 'FuncDefNode: delete put_trace_unwind under "#if CYTHON_USE_SYS_MONITORING"', 'C45-PAIR ...:code:error:no-unwind'),
    ('Cython/Compiler/Nodes.py', 'FuncDefNode: "#if CYTHON_USE_SYS_MONITORING" -> "#if !CYTHON_USE_SYS_MONITORING"', 'C45-PAIR ...:code:error:return-under-monitoring'),
    ('Cython/Compiler/Nodes.py', 'GeneratorBodyDefNode: delete `if tracing: code.put_trace_unwind(self.pos)`', 'C45-PAIR ...:code:error:no-unwind'),
    ('Cython/Compiler/Nodes.py', 'FuncDefNode: delete code.put_trace_exit(...)', 'C45-PAIR ...:code:success:no-exit + error:no-exit'),
    ('Cython/Compiler/Nodes.py', 'GeneratorBodyDefNode: `tracing and not self.body.is_terminator` -> `tracing and self.body.is_terminator`', 'C45-PAIR ...:code:success:no-return'),
    ('Cython/Compiler/ModuleNode.py', 'module init: delete code.put_trace_return("Py_None", ...)', 'C45-PAIR ModuleNode...:code:success:no-return'),
    ('Cython/Compiler/ExprNodes.py', 'YieldExprNode: emit put_trace_resume before put_label(resume_label)', 'C45-PAIR ...generate_yield_code:yield:resume-before-label'),
    ('Cython/Compiler/ExprNodes.py', 'YieldExprNode: delete the put_trace_resume block', 'C45-PAIR ...generate_yield_code:yield:count'),
    ('Cython/Compiler/Nodes.py', 'FuncDefNode: delete the default `if tracing: code.put_trace_return(...)`', 'C45-PAIR ...:code:success:no-return'),
    ('Cython/Compiler/Nodes.py', 'FuncDefNode: add put_trace_unwind in the #else branch next to put_trace_return("NULL")', 'C45-PAIR ...:code:error:double-unwind'),
    ('Cython/Compiler/Code.py', 'put_trace_unwind: drop the nogil argument from the f-string', 'C45-M2 __Pyx_TraceExceptionUnwind:arity'),
    ('Cython/Utility/Profile.c', 'no-op block: __Pyx_TraceExceptionUnwind(offset, nogil) -> (offset)', 'C45-M2 __Pyx_TraceExceptionUnwind:arity'),
    ('Cython/Utility/Profile.c', 'no-op block: delete #define __Pyx_TraceExceptionHandled(offset)', 'C45-M2 __Pyx_TraceExceptionHandled:undefined'),
    ('Cython/Compiler/Code.py', 'put_trace_return: delete `extra_arg = f", {return_type.to_py_function}"`', 'C45-M2 __Pyx_TraceReturnCValue:arity'),
    ('Cython/Utility/Profile.c', '`#if !CYTHON_TRACE` (TraceLine fallback) -> `#if !CYTHON_PROFILE`', 'C45-M2 __Pyx_TraceLine:redefined + :undefined'),
    ('Cython/Utility/Profile.c', 'swap PY_RESUME / PY_YIELD in the event index enum only', 'C45-EVT evt:table:PY_YIELD + evt:table:PY_RESUME'),
    ('Cython/Utility/Profile.c', '__Pyx_TraceExceptionUnwind: fire through slot PY_RETURN', 'C45-EVT evt:__Pyx_TraceExceptionUnwind:PY_UNWIND'),
    ('Cython/Utility/Profile.c', '__Pyx_TraceReturnValue: guard __Pyx_IsTracing(PY_UNWIND)', 'C45-EVT evt:__Pyx_TraceReturnValue:PY_RETURN:guard'),
    ('Cython/Utility/Profile.c', '__Pyx__TraceResumeGen: fire through slot PY_START', 'C45-EVT evt:__Pyx__TraceResumeGen:PY_RESUME'),
    ('Cython/Utility/Profile.c', '__Pyx__TraceException: FireReraiseEvent -> FireRaiseEvent', 'C45-EVT evt:__Pyx_TraceException:RAISE'),
    ('Cython/Compiler/Nodes.py', 'FIX of finding 1: remove `not self.in_parallel and` in ReturnStatNode', 'C45-RET goes silent'),
    ('Cython/Utility/Profile.c', 'FIX of finding 2: __Pyx_TraceYield fires through slot PY_YIELD', 'C45-EVT goes silent'),
]
MUTATIONS += [
    ('Cython/Compiler/Nodes.py', 'seed C45a: `if self.in_generator and value is None: pass / elif <old test>:` around put_trace_return', 'C45-RETCOND ...:no-event-when:self.in_generator & value is None'),
    ('Cython/Compiler/Nodes.py', 'ReturnStatNode: `not self.in_parallel and code.funcstate.gil_owned and (...)`', 'C45-RETCOND ...:no-event-when:not (code.funcstate.gil_owned)'),
    ('Cython/Compiler/Nodes.py', 'ReturnStatNode: `not self.in_parallel and self.value is not None and (...)`', 'C45-RETCOND ...:no-event-when:not (self.value is not None)'),
    ('Cython/Compiler/Nodes.py', 'ReturnStatNode: `if self.return_type.is_void: code.put_goto(code.return_label); return` before the event', 'C45-RETCOND ...:no-event-when:self.return_type.is_void'),
    ('Cython/Compiler/Nodes.py', "ReturnStatNode: event only under directives['profile']", 'C45-RETCOND ...:no-event-when:always (configuration linetrace)'),
]
# Fourth round: 26 breaking edits and 12 behaviour-preserving rewrites are kept as replayable patches under /verif/mutants/C45/<name>/ (see each meta.json).
# Sixth round (session I2, seed C45h): C45-BRACKET (sa/rules/s4C45.py).  9 breaking edits of the tracing guard (Leave on the success branch only / dropped / early return /
# second Enter in one #if variant / Enter behind a callback / Enter and Leave exchanged / Leave macro of one version variant without the decrement, storing the entering
# constant, or forwarding to the entering API) and 5 behaviour-preserving rewrites (Leave in both branches, goto-cleanup, wrapper helpers, callbacks in a helper, macros renamed)
# are kept under /verif/mutants/C45/h-* and p6-*.
# Eighth round (session K3, seed C45l): C45-CLOSEGATE also decides a closing macro without any delivering call (it used to end in ANALYSIS-ERROR): reported when an
# emission path of that implementation (sys.monitoring / legacy, by the emitted #if lines) closes its activation with it, passed over when none expands it; closing
# definitions in nested #if blocks are evaluated against the start macros of the enclosing configuration.  Mutants: /verif/mutants/C45/l8-* (breaking), p8-* (rewrites).
SILENT_EDITS = [   # behaviour-preserving, no new violation
    'ReturnStatNode: `tracing_on = profile or linetrace; if not (self.in_parallel or not tracing_on):` (De Morgan + local)  [C45-RETCOND]',
    'ReturnStatNode: `par = self.in_parallel; if par: pass / elif code.is_tracing():`  [C45-RETCOND]',
    'ReraiseStatNode: `code.is_tracing()` -> `directives["profile"] or directives["linetrace"]`',
    'swap two #define lines of the no-op block; swap PY_RESUME/PY_YIELD consistently in enum AND event type table',
    'GeneratorBodyDefNode: `is_term = self.body.is_terminator; if tracing and not is_term:`',
    'put_trace_unwind: f-string -> %-format',
    '`if tracing: X` -> `if not tracing: pass / else: X`',
    'YieldExprNode: `tracing = code.is_tracing(); if tracing:`',
    'rename the local `tracing` in all of Nodes.py',
]
# Genuine defects on the unchanged tree that these rules report (confirmed by running compiled modules, see builder report):
#  1. C45-RET  Nodes.ReturnStatNode.generate_execution_code: `return` inside prange / `with parallel()` emits no return event
#     (profile=True, sys.setprofile sees ('call', f) without ('return', f)).
#  2. C45-EVT  Profile.c __Pyx_TraceYield fires PY_YIELD through the PY_RETURN monitoring state (CPython >= 3.13: a tool that
#     listens to PY_YIELD but not PY_RETURN receives no yield events from Cython generators).


def run(ctx):
    from ..rules import dD3, s8C45
    return [pC45.rule_guard(ctx), pC45.rule_pair(ctx), sC45.rule_return_conditions(ctx), pC45.rule_macros(ctx), pC45.rule_events(ctx),
            sC45.rule_args(ctx), sC45.rule_nogil(ctx), sC45.rule_window(ctx), sC45.rule_branch(ctx), sC45.rule_count(ctx), s4C45.rule_bracket(ctx),
            # round 6 (rules/dD3.py): SKIPSTART armed after the repair 74e3ab4c6; CLOSEGATE and DEFER report the known findings K17 / K18
            # round 8 (rules/s8C45.py): C45-CLOSEGATE = dD3.rule_closegate + the no-op closing macro decided against the emission paths of both implementations
            s8C45.rule_closegate(ctx), dD3.rule_defer(ctx), dD3.rule_skipstart(ctx)]
