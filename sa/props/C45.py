"""C45 — profiling and tracing events are balanced and well-nested (structural clauses of event emission)."""
from ..rules import pC45

ID = 'C45'
TECHNIQUE = ('path-sensitive forward dataflow over the code-generating methods (three-valued evaluation of the tracing / is_terminator tests, event sequences split into '
             'success, error and common-tail segments of the generated C function and by the emitted #if/#else lines); configuration-matrix evaluation of the '
             'preprocessor conditions around the Profile.c macros; table agreement of guard event, state slot and fired event in the sys.monitoring block')
DECIDES = ('C45-GUARD: every put_trace_* call and every raw __Pyx_Trace*/__Pyx_PyMonitoring_*/__Pyx_TurnOffSysMonitoring* emission in Cython/Compiler is dominated by a test '
           'that implies profile or linetrace (is_tracing(), directives[...] or a local alias of them). '
           'C45-PAIR: in every function that emits put_trace_start (FuncDefNode and GeneratorBodyDefNode.generate_function_definitions, ModuleNode.generate_module_init_func), '
           'for both C configurations selected by emitted `#if CYTHON_USE_SYS_MONITORING` lines: the success path has exactly one start, exactly one return event unless the '
           'path is conditioned on body.is_terminator, no unwind, and one put_trace_exit after them; the error path (from put_label(error_label)) has exactly one '
           'unwind/return event, which is the unwind event under sys.monitoring, followed by put_trace_exit; in YieldExprNode the yield event precedes the emitted C return and '
           'the resume event follows the resume label, one of each. '
           'C45-RET: a node that jumps to the return label and reports the return event itself (ReturnStatNode) does so on every path on which tracing may be enabled. '
           'C45-M2: every trace macro the compiler emits (names and arities extracted path-sensitively from CCodeWriter.put_trace_* that are called, and from raw emissions) has '
           'exactly one definition in each of the 8 configurations of CYTHON_PROFILE x CYTHON_TRACE x CYTHON_USE_SYS_MONITORING, with the emitted arity (aliases followed). '
           'C45-EVT: __Pyx_Monitoring_Event_Index and __Pyx_MonitoringEventTypes are aligned position by position; in every sys.monitoring macro/helper the event named by '
           'PyMonitoring_Fire<Event>Event equals the index of the state slot it is fired through and the event tested by __Pyx_IsTracing.')
NOT_DECIDED = ('nesting of events across calls at run time; that the return events of explicit `return` statements and the default return never both execute (relies on '
               'is_terminator being right); which lines get line events (can_trace windows, mark_pos); GIL handling inside the macros; the legacy-tracing helper functions '
               '(__Pyx_TraceSetupAndCall, __Pyx_call_return_trace_func); exception events (RAISE/RERAISE/EXCEPTION_HANDLED) are only checked for their guard and slot/event '
               'agreement, not for pairing.')
ASSUMPTIONS = ['the error segment of a generated function is what is emitted between put_label(<w>.error_label) and the end of the enclosing `if` (or the return label when emitted '
               'unconditionally); success code jumps over it', 'a CCodeWriter.put_trace_* method that is never called emits nothing']
EXEMPT = {
    ('C45-PAIR', 'ModuleNode.ModuleNode.generate_module_init_func:code:error:no-exit'):
        'failed module import: the error path of the module init function reports PY_UNWIND but skips __Pyx_PyMonitoring_ExitScope; PyMonitoring_ExitScope() is a no-op in CPython '
        '3.13/3.14 and the only effect is one leaked code object / frame per failed import - no event is missing or duplicated',
    ('C45-PAIR', 'Nodes.GeneratorBodyDefNode.generate_function_definitions:resume_code:success:no-exit'):
        'the `default:` branch of the resume switch is unreachable: __Pyx_Coroutine_SendEx rejects resume_label == -1 before calling the body and every other label has a case',
}

# single-edit variants tried on a scratch copy (file, edit, rule that reported it) -- see final builder report
MUTATIONS = []


def run(ctx):
    return [pC45.rule_guard(ctx), pC45.rule_pair(ctx), pC45.rule_return_stat(ctx), pC45.rule_macros(ctx), pC45.rule_events(ctx)]
