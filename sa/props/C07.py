"""C07 — power operator follows the documented cpow rules (result-type decision table, dead widening test, IntPow/PowerOf2 interface)."""
import ast, csv, io, re

from ..core import Rule, AnalysisError, node_src
from ..engine.pyindex import walk_no_nested, is_self_attr
from ..engine import absint
from ..rules import pC07
from ..rules.pC07 import Eval, Obj, Const, Unsupported

ID = 'C07'
TECHNIQUE = ('decision-table extraction: PowNode.compute_c_result_type (with the repository\'s NumBinopNode.compute_c_result_type, c_types_okay, '
             'has_constant_result and PyrexTypes.widest_numeric_type) is evaluated over its COMPLETE finite abstract domain '
             '(cpow x operand type kinds x exponent constant class x base sign class) and compared with docs/src/userguide/cpow_table.csv; '
             'path-sensitive contradiction analysis (L8) under the sentinel invariant of has_constant_result; template-key / emitted-call agreement; '
             'clang AST of the instantiated IntPow helper; truth table of the range guards around `ONE << n` over the complete boundary partition of n on ILP32/LP64/LLP64 '
             '(C conversion rules applied by the checker\'s own evaluator); interpretation of IntPow with an algebraic witness base (3 has order 2**62 modulo 2**64) and of __Pyx__PyNumber_PowerOf2 on a model PyLong '
             '(rules/pC03.py); scoped-read / polarity / must-precede analysis of the cpow directive')
DECIDES = ('(a) C07-L8: no value test on X.constant_result in PowNode is evaluated where `not X.has_constant_result()` holds (such a test is dead, so the '
           'widening it controls can never happen); '
           '(b) C07-TAB: for each of the ten cells of the documented cpow table every scenario of that cell gets the documented result kind '
           '(C double / integer / floating point / real-or-complex; a base of unknown sign with an exponent of unknown integrality must get the '
           'complex-capable type); '
           '(c) C07-INTPOW: PowNode instantiates CMath.c::IntPow with every key the template reads, under the very name it later calls, calls it with '
           '(base, exponent) in the order of the C parameters, passes a non-zero `signed` for signed types, and the signed instance tests e<0 before its '
           'shift loop (which would not terminate for a negative exponent); '
           '(d) C07-POWSW: every `case k` of the small-exponent switch in IntPow returns the monomial b**k; '
           '(e) C07-POW2: PowNode.py_operation_function selects the 1<<N helper __Pyx_PyNumber_(InPlace)PowerOf2 only for a base whose constant value is the *int* 2 '
           '(not 2.0, not 2+0j), and the selected helper exists in the section it loads with the arity BinopNode emits for `**`; '
           '(f) C07-SHIFT: every power of two built as `ONE << n` in Optimize.c / CMath.c (the 1<<N fast path of __Pyx__PyNumber_PowerOf2) is reached only for shift counts that the enclosing '
           'range guards keep within the value bits of the type of ONE (bits-2 for a signed, bits-1 for an unsigned literal) on ILP32, LP64 and LLP64 (rules/sC07.py); '
           '(g) C07-POWLOOP: IntPow returns b**e - the unsigned 64-bit instance is evaluated by the checker\'s C interpreter for the witness base 3 (multiplicative order 2**62 modulo 2**64, so the value identifies '
           'the exponent of the monomial computed) and every exponent 0..255 plus 2**k, 2**k +- 1 up to 2**40; the signed instance for small operands, 0 for negative exponents; '
           '(h) C07-POW2MODEL: __Pyx__PyNumber_PowerOf2 evaluated on a model PyLong (LP64 / LLP64 / ILP32, with and without PyLong internals) returns 2 ** exp as CPython computes it for negative, zero, '
           'every shift-width arm, beyond-Py_ssize_t and non-int exponents, never NULL without an exception; '
           '(i) C07-CPOW: is_cpow is assigned from the scoped directive directives[\'cpow\'] (parameter scope, key known to Options, not the defaults, right polarity, reachable while is_cpow is None) '
           'and infer_type / analyse_types call the assigning method before delegating upwards on every path; '
           '(j) C07-TRISTATE (rules/s4C07.py): an explicit cpow setting is final - every store to is_cpow other than the directive read (PowNode.coerce_to\'s fall-back to C semantics, any store from another module) '
           'is reachable only while is_cpow is None, decided by evaluating the store\'s path condition over is_cpow in {None, False, True} x all valuations of the opaque tests (locals, one-line helper methods and the call sites '
           'of private helpers inlined); the directive read does not collapse an explicit False to None; the class default is None; and C07-TAB gives the unset state the documented default column (cpow==False).')
NOT_DECIDED = ('IntPow for exponents beyond the evaluated bit patterns (the loop treats every bit alike) and signed overflow inside it (the helper squares once more than needed); values computed by pow()/powf(); '
               'the accessor macros / C-API calls used by __Pyx__PyNumber_PowerOf2 (modelled by their contracts); '
               'that the operand types reaching compute_c_result_type are what the user wrote (coercions before PowNode); what PowNode.coerce_to\'s fallback to '
               'cpow behaviour does for an UNSET directive (only that it never touches an explicit setting is decided, C07-TRISTATE); complex operands (not in the documented table).  I5 via the generic emitted-call scanner was dropped: the callee of the '
               'emitted call is a run-time string (self.pow_func), the dedicated rule C07-INTPOW follows that attribute instead.')
ASSUMPTIONS = [
    'type stubs model CIntType/CFloatType: is_int/is_float/is_numeric flags, signed in {0,1}, rank = index in PyrexTypes.rank_to_type_name; every other is_* flag is 0 (class default of PyrexType)',
    'a constant exponent/base is one of the classes {negative, zero, positive} x {int, integral float, non-integral float}; the evaluator rejects (ANALYSIS-ERROR) any operation on '
    'constant_result other than isinstance, int(), ordering against literal 0 and int(x) == x, i.e. it checks that these classes are still the ones the code distinguishes',
    'frozen reading of the prose of docs/src/userguide/cpow_table.csv (CELL_KINDS / A_KINDS / B_KINDS below); unknown prose is an ANALYSIS-ERROR',
]
EXEMPT = {}

MUTATIONS = [
    # (file, edit, expected rule / observed).  All tried on a scratch copy in which finding 17 was repaired (so that exit codes are meaningful);
    # on the unchanged tree C07-L8 and C07-TAB fire for finding 17.
    ('Cython/Compiler/ExprNodes.py', 'unchanged tree: `if not self.operand2.has_constant_result()` in the cpow branch (finding 17)', 'C07-L8 + C07-TAB cell (C integer ** negative constant, cpow=True): caught'),
    ('Cython/Compiler/ExprNodes.py', 'finding 17 repaired (drop the `not`) -> silent; repair reverted -> both rules fire again', 'C07-L8, C07-TAB: caught'),
    ('Cython/Compiler/ExprNodes.py', 'cpow=False branch: `needs_widening = type2.is_int and type2.signed` -> `needs_widening = False`', 'C07-TAB row 3 cpow=False: caught'),
    ('Cython/Compiler/ExprNodes.py', '`elif op1_is_definitely_positive or type2_is_int:` -> `elif True:` (never soft complex)', 'C07-TAB row 5 cpow=False: caught'),
    ('Cython/Compiler/ExprNodes.py', 'else-branch widening test `< 0` -> `> 0`', 'C07-TAB rows 1,2 cpow=False: caught'),
    ('Cython/Compiler/ExprNodes.py', 'op1_is_definitely_positive: `type1.signed == 0` -> `type1.signed == 1`', 'C07-TAB row 5 cpow=False: caught'),
    ('Cython/Compiler/ExprNodes.py', '`if self.is_cpow:` -> `if not self.is_cpow:`', 'C07-TAB 4 cells: caught'),
    ('docs/src/userguide/cpow_table.csv', 'row 2: "Return type is integer" -> "Return type is C double" in the cpow==False column', 'C07-TAB: caught'),
    ('Cython/Compiler/ExprNodes.py', 'specialize(... signed=...) keyword renamed to is_signed', 'C07-INTPOW keys: caught'),
    ('Cython/Compiler/ExprNodes.py', '`signed=self.type.signed and 1 or 0` -> `signed=0 if self.type.signed else 1`', 'C07-INTPOW signed: caught'),
    ('Cython/Compiler/ExprNodes.py', '`signed=self.type.signed and 1 or 0` -> `signed=self.type.signed == 1` (substitutes True/False into #if)', 'C07-INTPOW signed: caught'),
    ('Cython/Compiler/ExprNodes.py', '`signed=self.type.signed and 1 or 0` -> `... and 0 or 1` (always 1: harmless, e<0 is merely dead for unsigned types)', 'silent, correctly'),
    ('Cython/Compiler/ExprNodes.py', 'calculate_result_code: typecast(self.operand1) <-> typecast(self.operand2)', 'C07-INTPOW order: caught'),
    ('Cython/Compiler/ExprNodes.py', 'specialize(func_name=self.pow_name) while the call uses self.pow_func', 'C07-INTPOW pow_func: caught'),
    ('Cython/Compiler/ExprNodes.py', 'is_int branch assigns self.pow_func = "pow" and instantiates IntPow under another attribute value', 'MISSED (the value of pow_func is not tracked, only the attribute identity)'),
    ('Cython/Utility/CMath.c', 'IntPow: parameters (b, e) -> (e, b)', 'C07-INTPOW order: caught'),
    ('Cython/Utility/CMath.c', 'IntPow: drop `if (unlikely(e<0)) return 0;`', 'C07-INTPOW negative guard: caught'),
    ('Cython/Utility/CMath.c', 'IntPow: `#if %(signed)s` -> `#if !%(signed)s`', 'C07-INTPOW negative guard: caught'),
    ('Cython/Utility/CMath.c', 'IntPow: remove the `t *= b;` of case 3', 'C07-POWSW case 3: caught'),
    ('Cython/Utility/CMath.c', 'IntPow: `case 0: return 1;` -> `return 0;`', 'C07-POWSW case 0: caught'),
    ('Cython/Compiler/ExprNodes.py', 'py_operation_function: drop `isinstance(self.operand1.constant_result, int) and`', 'C07-POW2 base=2.0 / 2+0j: caught'),
    ('Cython/Compiler/ExprNodes.py', 'py_operation_function: `== 2` -> `== 3`', 'C07-POW2 base=3: caught'),
    ('Cython/Utility/Optimize.c', 'macro __Pyx_PyNumber_PowerOf2(a, b, c) -> (a, b)', 'C07-POW2 arity: caught'),
    ('Cython/Compiler/ExprNodes.py', "return '__Pyx_PyNumber_PowerOf2' -> '__Pyx_PyNumber_Power2'", 'C07-POW2 name: caught'),
    ('Cython/Compiler/ExprNodes.py', 'PowNode.compute_c_result_type renamed / ExprNode.has_constant_result rewritten as `is not None`', 'ANALYSIS-ERROR (anchor / invariant)'),
    ('Cython/Utility/Optimize.c', 'seed C07a: `(size_t)shiftby <= sizeof(long) * 8 - 2` -> `(size_t)shiftby < sizeof(long) * 8` around `1L << shiftby`', 'C07-SHIFT: caught'),
    ('Cython/Utility/Optimize.c', 'first arm `- 2` -> `- 1`; first arm bounded by sizeof(PY_LONG_LONG) instead of sizeof(long)', 'C07-SHIFT: caught'),
    ('Cython/Utility/Optimize.c', 'second arm `<= sizeof(unsigned PY_LONG_LONG) * 8 - 1` -> `<= ... * 8`', 'C07-SHIFT: caught'),
    ('Cython/Utility/Optimize.c', '`1L << shiftby` -> `1 << shiftby` (int literal under the long bound); second arm shifts `((PY_LONG_LONG)1)` (signed)', 'C07-SHIFT: caught'),
    ('Cython/Utility/Optimize.c', 'first guard as `shiftby < (Py_ssize_t) (sizeof(long) * CHAR_BIT) - 1`; variable renamed + guard as `!(sizeof(long) * 8 - 2 < (size_t)n_bits)`; '
                                  'else-if chain turned into early return + `if ((size_t)shiftby < sizeof(unsigned PY_LONG_LONG) * 8)`', None),
    ('mutants/C07/*', '14 + 5 brainstormed breaking edits (square-and-multiply loop: squaring dropped, bit select, shift by 2, missing init, loop bound; PowerOf2: IsNeg arm dropped, 2**0 == 0, shifting the object 2, '
                      'signed converter for 2**63, error polarity, accessor arms exchanged; cpow read negated / from the defaults / not called / unreachable, ...) and 11 behaviour-preserving rewrites; see meta.json of each',
     'C07-POWLOOP / C07-POW2MODEL / C07-CPOW'),
    ('Cython/Compiler/ExprNodes.py', 'seed C07e: coerce_to guard `self.is_cpow is None` -> `not self.is_cpow`; 13 further edits (mutants/C07/h-*, h2-*: conjunct dropped, `is not True`, `in (None, False)`, and/or slip, '
                                     'early return only for a truthy value, helper method returning `not self.is_cpow`, extracted re-analysis whose caller guards with `not`, store from Optimize.py, writer `... or None`, '
                                     'class default False, compute_c_result_type taking the cpow branch for None)', 'C07-TRISTATE / C07-TAB (unset column)'),
    ('Cython/Compiler/ExprNodes.py', '7 rewrites (mutants/C07/hp-*, hp2-*): unset test through a local / a one-line helper method / an early return / an enclosing if / De Morgan, re-analysis extracted into a private method, '
                                     '`if self.is_cpow is True:` in compute_c_result_type', None),
    # behaviour preserving (all silent)
    ('Cython/Compiler/ExprNodes.py', 'rename local needs_widening -> widen in compute_c_result_type', None),
    ('Cython/Compiler/ExprNodes.py', 'compute type2_is_int before op1_is_definitely_positive; swap the operands of both `or`s', None),
    ('Cython/Compiler/ExprNodes.py', 'repair of finding 17 written as `exponent = self.operand2; if not exponent.has_constant_result(): pass; elif isinstance(...) and ... < 0: needs_widening = True`', None),
    ('Cython/Compiler/ExprNodes.py', 'py_operation_function: swap the `== 2` and isinstance conjuncts', None),
    ('Cython/Utility/CMath.c', 'IntPow: parameters renamed b,e -> base,exp; `case 2: return t * base; case 1: return base;`; `if (0 > exp) { return 0; }`', None),
    ('docs/src/userguide/cpow_table.csv', 'reorder two rows of the table', None),
]

# ---------------------------------------------------------------------------------------------------- documented table (frozen reading)
# leading clause of a result cell -> result kind
CELL_KINDS = {
    'return type is c double': 'double',
    'return type is integer': 'int',
    'return type is floating point': 'float',
    'either a c real or complex number at cost of some speed': 'real_or_complex',
}
A_KINDS = {'c integer': ('int',), 'c floating point': ('float',), 'c floating point (or c integer)': ('float', 'int')}
B_KINDS = {
    'negative integer compile-time constant': 'negconst',
    'c integer (known to be >= 0 at compile time)': 'nonneg',
    'c integer (may be negative)': 'mayneg',
    'c integer': 'anyint',
    'c floating point': 'float',
}
DOC_TABLE = 'docs/src/userguide/cpow_table.csv'


def _norm(s):
    return ' '.join(s.replace('`', '').lower().split())


def _lead(s):
    s = _norm(s)
    m = re.match(r'[^(,]*', s)
    return m.group(0).strip()


def doc_cells(ctx):
    """-> list of (row label, a kinds, b class, {True: kind, False: kind})."""
    rows = list(csv.reader(io.StringIO(ctx.read(DOC_TABLE))))
    if len(rows) < 2:
        raise AnalysisError('%s has no rows' % DOC_TABLE)
    head = [_norm(h) for h in rows[0]]
    try:
        ia = [i for i, h in enumerate(head) if h == 'type of a'][0]
        ib = [i for i, h in enumerate(head) if h == 'type of b'][0]
        it = [i for i, h in enumerate(head) if h.replace(' ', '') == 'cpow==true'][0]
        if_ = [i for i, h in enumerate(head) if h.replace(' ', '') == 'cpow==false'][0]
    except IndexError:
        raise AnalysisError('%s: header %r not understood' % (DOC_TABLE, rows[0]))
    out = []
    for row in rows[1:]:
        if not any(c.strip() for c in row):
            continue
        a, b = _norm(row[ia]), _norm(row[ib])
        if a not in A_KINDS or b not in B_KINDS:
            raise AnalysisError('%s: operand description %r / %r is not in the frozen reading' % (DOC_TABLE, row[ia], row[ib]))
        kinds = {}
        for flag, i in ((True, it), (False, if_)):
            lead = _lead(row[i])
            if lead not in CELL_KINDS:
                raise AnalysisError('%s: result cell %r is not in the frozen reading' % (DOC_TABLE, row[i]))
            kinds[flag] = CELL_KINDS[lead]
        out.append(('%s ** %s' % (row[ia].strip(), row[ib].strip()), A_KINDS[a], B_KINDS[b], kinds))
    return out


# ---------------------------------------------------------------------------------------------------- scenario domain
class Domain:
    def __init__(self, ctx):
        ix = ctx.index
        self.ix = ix
        pt = ix.mod('PyrexTypes')
        ranks = None
        v = pt.bindings.get('rank_to_type_name')
        if isinstance(v, ast.AST):
            try:
                ranks = list(ast.literal_eval(v))
            except Exception:
                ranks = None
        if not ranks or not {'int', 'long', 'float', 'double'} <= set(ranks):
            raise AnalysisError('PyrexTypes.rank_to_type_name not found')
        need = ['c_int_type', 'c_uint_type', 'c_long_type', 'c_float_type', 'c_double_type', 'c_bint_type', 'soft_complex_type', 'widest_numeric_type']
        for n in need:
            if n not in pt.bindings:
                raise AnalysisError('PyrexTypes.%s vanished' % n)

        def T(label, kind, **kw):
            o = Obj(label, flag_default=False, is_numeric=True, is_typedef=0, **kw)
            o.meta['kind'] = kind
            return o
        self.c_int = T('int', 'int', is_int=True, signed=1, rank=ranks.index('int'))
        self.c_uint = T('unsigned int', 'int', is_int=True, signed=0, rank=ranks.index('int'))
        self.c_long = T('long', 'int', is_int=True, signed=1, rank=ranks.index('long'))
        self.c_float = T('float', 'float', is_float=True, signed=1, rank=ranks.index('float'))
        self.c_double = T('double', 'float', is_float=True, signed=1, rank=ranks.index('double'))
        self.c_bint = T('bint', 'int', is_int=True, signed=1, rank=-1)
        self.soft = T('soft complex', 'softcomplex', is_complex=True, signed=1, rank=ranks.index('double'), real_type=self.c_double)
        self.overrides = {('PyrexTypes', 'c_int_type'): self.c_int, ('PyrexTypes', 'c_uint_type'): self.c_uint, ('PyrexTypes', 'c_long_type'): self.c_long,
                          ('PyrexTypes', 'c_float_type'): self.c_float, ('PyrexTypes', 'c_double_type'): self.c_double,
                          ('PyrexTypes', 'c_bint_type'): self.c_bint, ('PyrexTypes', 'soft_complex_type'): self.soft}
        self.sentinels = pC07.sentinel_invariant(ctx)
        self.expr_cls = ix.cls('ExprNodes', 'ExprNode')
        self._evs = {}

    def evaluator(self, tag='default', **kw):
        if tag not in self._evs:
            ev = Eval(self.ix, overrides=self.overrides, **kw)
            ev.nonnumeric_syms = set(self.sentinels)
            self._evs[tag] = ev
        ev = self._evs[tag]
        ev.steps = 0
        return ev

    def operand(self, ev, label, const):
        m = self.ix.mod('ExprNodes')
        if const is None or isinstance(const, str):
            v = ev.sym(m, const or self.sentinels[-1][1])
        else:
            v = Const(const)
        return Obj(label, cls=self.expr_cls, flag_default=False, constant_result=v)


# exponent / base constant classes: representative -> label.  None = not a compile-time constant (both sentinels are tried for the exponent).
NEG_INT, NONNEG_INTS = -2, (0, 3)


def scenarios_for(dom, a_kinds, b_class):
    """All scenarios (type1, type2, base const, exponent const) that belong to one row of the documented table."""
    t1s = []
    for k in a_kinds:
        t1s += [dom.c_int, dom.c_uint, dom.c_long] if k == 'int' else [dom.c_float, dom.c_double]
    s0, s1 = dom.sentinels[0][1], dom.sentinels[-1][1]
    if b_class == 'negconst':
        exps = [(dom.c_long, NEG_INT), (dom.c_int, NEG_INT)]
    elif b_class == 'nonneg':
        exps = [(dom.c_long, v) for v in NONNEG_INTS] + [(dom.c_uint, s0), (dom.c_uint, s1)]
    elif b_class == 'mayneg':
        exps = [(dom.c_int, s0), (dom.c_int, s1), (dom.c_long, s1)]
    elif b_class == 'anyint':
        exps = [(dom.c_long, NEG_INT)] + [(dom.c_long, v) for v in NONNEG_INTS] + [(dom.c_uint, s1), (dom.c_int, s0), (dom.c_int, s1)]
    elif b_class == 'float':
        exps = [(t, v) for t in (dom.c_double, dom.c_float) for v in (s0, s1, 0.5, -0.5, 2.0, -2.0, 0.0)]
    else:
        raise AnalysisError('exponent class %s' % b_class)
    for t1 in t1s:
        if t1.meta['kind'] == 'int':
            bases = [s1, 0, 2] + ([-2] if t1.attrs['signed'] else [])
        else:
            bases = [s1, 0.0, 2.5, -2.5, 2, -2]
        for bc in bases:
            for t2, ec in exps:
                yield (t1, t2, bc, ec)


def _known_nonneg_base(t1, bc):
    return (not isinstance(bc, str) and bc >= 0) or (t1.meta['kind'] == 'int' and t1.attrs['signed'] == 0)


def _known_integral_exp(t2, ec):
    return t2.meta['kind'] == 'int' or (not isinstance(ec, str) and int(ec) == ec)


def evaluate(dom, pow_cls, fn_override, cpow, t1, t2, bc, ec):
    """Result stub of compute_c_result_type in one scenario (fn_override: FunctionDef used instead of the class's method — positive control)."""
    ev = dom.evaluator()
    op1 = dom.operand(ev, 'operand1', bc)
    op2 = dom.operand(ev, 'operand2', ec)
    selfobj = Obj('PowNode', cls=pow_cls, flag_default=False, is_cpow=cpow, operand1=op1, operand2=op2, operator='**')
    if fn_override is not None:
        f = pC07.Method(pC07.RepoFn(pow_cls.module, fn_override, pow_cls), selfobj)
    else:
        f = ev.getattr(selfobj, 'compute_c_result_type', None)
    return ev.call(f, [t1, t2])


def _kind(dom, res):
    if res is None:
        return 'None (type error)'
    if isinstance(res, Obj) and 'kind' in res.meta:
        if res is dom.c_double:
            return 'double'
        return res.meta['kind']
    return repr(res)


def _fmt(t1, t2, bc, ec):
    def c(v):
        return 'not constant' if isinstance(v, str) else 'constant %r' % (v,)
    return '%s (%s) ** %s (%s)' % (t1.label, c(bc), t2.label, c(ec))


def check_cells(dom, cells, pow_cls, fn_override=None):
    """-> list of (cell key, row label, cpow, problem text, n scenarios)."""
    out = []
    for label, a_kinds, b_class, kinds in cells:
        for cpow in (True, False, None):
            # None = directive not given: documented as `cpow (True / False), default=False`, so the cpow==False column applies
            want = kinds[bool(cpow)]
            bad = []
            n = 0
            for t1, t2, bc, ec in scenarios_for(dom, a_kinds, b_class):
                n += 1
                try:
                    res = evaluate(dom, pow_cls, fn_override, cpow, t1, t2, bc, ec)
                except Unsupported as e:
                    raise AnalysisError('compute_c_result_type cannot be evaluated for %s, cpow=%s: %s' % (_fmt(t1, t2, bc, ec), cpow, e))
                got = _kind(dom, res)
                if want == 'double':
                    ok = got == 'double'
                elif want == 'int':
                    ok = got == 'int'
                elif want == 'float':
                    ok = got in ('float', 'double')
                else:
                    ok = got in ('float', 'double', 'softcomplex')
                    if ok and not _known_nonneg_base(t1, bc) and not _known_integral_exp(t2, ec) and got != 'softcomplex':
                        ok = False
                        got += ' (cannot hold the complex result of a possibly negative base with a possibly non-integral exponent)'
                if not ok:
                    bad.append('%s -> %s' % (_fmt(t1, t2, bc, ec), got))
            out.append(('%s|cpow=%s' % (_norm(label), 'unset' if cpow is None else cpow), label, cpow, want, bad, n))
    return out


def rule_TAB(ctx, dom, pow_cls):
    r = Rule('C07-TAB', 'every scenario of every cell of the documented cpow table gets the documented result kind from PowNode.compute_c_result_type (cpow True, False and unset = documented default False)', floor=12)
    cells = doc_cells(ctx)
    if len(cells) < 4:
        raise AnalysisError('%s: only %d rows' % (DOC_TABLE, len(cells)))
    own = ctx.index.find_method(pow_cls, 'compute_c_result_type')
    if not own or own[0] is not pow_cls:
        raise AnalysisError('PowNode.compute_c_result_type vanished')
    for key, label, cpow, want, bad, n in check_cells(dom, cells, pow_cls):
        r.inst(key, sample='%s, cpow=%s: documented %s (%d scenarios)' % (label, cpow, want, n))
        if bad:
            r.violate(key, 'Cython/Compiler/ExprNodes.py', own[1].lineno,
                      'documented cpow table, row "%s", column cpow==%s says "%s" but PowNode.compute_c_result_type gives: %s%s'
                      % (label, 'False (the documented default, directive not given: is_cpow is None)' if cpow is None else cpow, {'double': 'C double', 'int': 'integer', 'float': 'floating point', 'real_or_complex': 'C real or complex'}[want],
                         '; '.join(bad[:4]), ' ... (%d scenarios)' % len(bad) if len(bad) > 4 else ''),
                      scenarios=bad)
    # positive control: a variant that never widens must be caught in the documented C-double cells
    pc = ast.parse("def compute_c_result_type(self, type1, type2):\n    return super().compute_c_result_type(type1, type2)\n").body[0]
    res = check_cells(dom, cells, pow_cls, fn_override=pc)
    r.positive_control(any(bad and want == 'double' for _, _, _, want, bad, _ in res), 'compute_c_result_type that never widens to double')
    return r


# ---------------------------------------------------------------------------------------------------- IntPow interface
def _kw(call, name):
    for k in call.keywords:
        if k.arg == name:
            return k.value
    return None


def _roles(fd):
    """parameter names of the clang FunctionDecl and the role each plays: 'exponent' = tested by switch/loop and shifted, 'base' = multiplied."""
    params = [c.get('name') for c in fd.get('inner', []) if c.get('kind') == 'ParmVarDecl']
    body = [c for c in fd.get('inner', []) if c.get('kind') == 'CompoundStmt']
    if len(params) != 2 or not body:
        raise AnalysisError('IntPow no longer has two parameters and a body')
    ctl = set()
    for n in absint.c_walk(body[0]):
        if n.get('kind') in ('SwitchStmt', 'WhileStmt', 'ForStmt', 'DoStmt'):
            inner = [c for c in n.get('inner', []) if isinstance(c, dict) and c.get('kind')]
            cond = inner[0] if n.get('kind') != 'DoStmt' else inner[-1]
            if n.get('kind') == 'ForStmt':
                cond = inner[2] if len(inner) > 2 else inner[0]
            for x in absint.c_walk(cond):
                nm = absint.c_name(x) if x.get('kind') == 'DeclRefExpr' else None
                if nm in params:
                    ctl.add(nm)
    return params, ctl, body[0]


def _neg_guard_before_loop(body, exp):
    """True if a top-level `if (exp < 0) return ...;` precedes the first loop of the function body."""
    for st in body.get('inner', []):
        k = st.get('kind')
        if k in ('WhileStmt', 'ForStmt', 'DoStmt'):
            return False
        if k == 'IfStmt':
            inner = st.get('inner', [])
            cond = absint.c_strip(inner[0])
            while cond.get('kind') == 'CallExpr' or (cond.get('kind') == 'UnaryOperator' and cond.get('opcode') == '!' and False):
                break
            if cond.get('kind') == 'BinaryOperator' and cond.get('opcode') in ('<', '>', '<=', '>='):
                l, rr = [absint.c_strip(x) for x in cond['inner']]
                op = cond['opcode']

                def zero(n):
                    return n.get('kind') == 'IntegerLiteral' and n.get('value') == '0'

                def one(n, neg=False):
                    if neg:
                        return n.get('kind') == 'UnaryOperator' and n.get('opcode') == '-' and absint.c_strip(n['inner'][0]).get('value') == '1'
                    return n.get('kind') == 'IntegerLiteral' and n.get('value') == '1'
                is_neg = (op == '<' and absint.c_name(l) == exp and zero(rr)) or (op == '>' and zero(l) and absint.c_name(rr) == exp) or \
                         (op == '<=' and absint.c_name(l) == exp and one(rr, neg=True)) or (op == '>=' and one(l, neg=True) and absint.c_name(rr) == exp)
                then = inner[1] if len(inner) > 1 else {}
                returns = then.get('kind') == 'ReturnStmt' or (then.get('kind') == 'CompoundStmt' and then.get('inner') and then['inner'][-1].get('kind') == 'ReturnStmt')
                if is_neg and returns:
                    return True
    return False


def _eval_signed_expr(expr, signed_value):
    """Value of the `signed=` keyword expression for self.type.signed == signed_value (pure and/or/ifexp/constant expression)."""
    def ev(e):
        if isinstance(e, ast.Constant):
            return e.value
        if isinstance(e, ast.Attribute) and e.attr == 'signed' and isinstance(e.value, ast.Attribute) and e.value.attr == 'type' and \
                isinstance(e.value.value, ast.Name) and e.value.value.id == 'self':
            return signed_value
        if isinstance(e, ast.BoolOp):
            v = None
            for x in e.values:
                v = ev(x)
                if isinstance(e.op, ast.And) and not v:
                    return v
                if isinstance(e.op, ast.Or) and v:
                    return v
            return v
        if isinstance(e, ast.IfExp):
            return ev(e.body) if ev(e.test) else ev(e.orelse)
        if isinstance(e, ast.UnaryOp) and isinstance(e.op, ast.Not):
            return not ev(e.operand)
        if isinstance(e, ast.Call) and isinstance(e.func, ast.Name) and e.func.id in ('int', 'bool') and len(e.args) == 1:
            return {'int': int, 'bool': bool}[e.func.id](ev(e.args[0]))
        if isinstance(e, ast.Compare) and len(e.ops) == 1 and isinstance(e.ops[0], (ast.Eq, ast.NotEq, ast.Gt, ast.GtE, ast.Lt, ast.LtE)):
            a, b = ev(e.left), ev(e.comparators[0])
            return {ast.Eq: a == b, ast.NotEq: a != b, ast.Gt: a > b, ast.GtE: a >= b, ast.Lt: a < b, ast.LtE: a <= b}[type(e.ops[0])]
        raise AnalysisError('`signed=` expression %s is not a pure function of self.type.signed' % node_src(e))
    return ev(expr)


def _c_truth(v):
    """truth of the text substituted into `#if %(signed)s`."""
    s = str(v).strip()
    if re.fullmatch(r'[A-Za-z_]\w*', s):
        return False          # an identifier that is not a macro evaluates to 0 in #if (str(True) == 'True' is such an identifier)
    try:
        return int(s, 0) != 0
    except ValueError:
        raise AnalysisError('`signed` substitutes %r, which is not an integer constant' % s)


def rule_INTPOW(ctx, pow_cls):
    r = Rule('C07-INTPOW', 'PowNode <-> CMath.c::IntPow: template keys, helper name, argument order, `signed` polarity, negative-exponent guard before the shift loop', floor=6)
    rel = pow_cls.module.rel
    an = pow_cls.methods.get('analyse_c_operation')
    cr = pow_cls.methods.get('calculate_result_code')
    if an is None or cr is None:
        raise AnalysisError('PowNode.analyse_c_operation / calculate_result_code vanished')
    # the specialize(...) call on load_cached("IntPow", "CMath.c")
    spec = None
    for n in walk_no_nested(an):
        if isinstance(n, ast.Call) and isinstance(n.func, ast.Attribute) and n.func.attr == 'specialize' and isinstance(n.func.value, ast.Call):
            lc = n.func.value
            consts = [a.value for a in lc.args if isinstance(a, ast.Constant)]
            if consts[:2] == ['IntPow', 'CMath.c']:
                spec = n
    if spec is None:
        raise AnalysisError('PowNode.analyse_c_operation no longer specializes CMath.c::IntPow')
    sec = ctx.cat.files.get('CMath.c', {}).get('IntPow')
    if not sec or 'impl' not in sec or 'proto' not in sec:
        raise AnalysisError('CMath.c::IntPow(.proto) vanished')
    # (1) keys
    given = {k.arg for k in spec.keywords if k.arg}
    for part in ('proto', 'impl'):
        need = pC07.template_keys(sec[part].raw)
        if part == 'impl' and len(need) < 2:
            raise AnalysisError('IntPow template has no placeholders')
        for k in sorted(need):
            key = 'IntPow.%s:%%(%s)s' % (part, k)
            r.inst(key, sample='%s read by the template, given: %s' % (key, sorted(given)))
            if k not in given:
                r.violate(key, rel, spec.lineno, 'CMath.c::IntPow.%s reads %%(%s)s but PowNode.analyse_c_operation specializes it with only %s: '
                          'KeyError while compiling any C integer power' % (part, k, sorted(given)))
    # (2) helper name: the name given to the template is the attribute the emitted call uses
    fname = _kw(spec, 'func_name')
    tmpl = None
    for n in walk_no_nested(cr):
        if isinstance(n, ast.BinOp) and isinstance(n.op, ast.Mod) and isinstance(n.left, ast.Constant) and isinstance(n.left.value, str) and \
                isinstance(n.right, ast.Tuple):
            tmpl = n
    if tmpl is None:
        raise AnalysisError('PowNode.calculate_result_code no longer builds the call from a %-template')
    text = tmpl.left.value
    m = re.fullmatch(r'\s*%s\s*\((.*)\)\s*', text)
    if not m or len(re.findall(r'%s', text)) != len(tmpl.right.elts):
        raise AnalysisError('call template %r of PowNode.calculate_result_code not understood' % text)
    callee = tmpl.right.elts[0]
    argexprs = tmpl.right.elts[1:]
    key = 'PowNode:pow_func'
    r.inst(key, sample='template %r called through %s; template named by %s' % (text, node_src(callee), node_src(fname) if fname is not None else None))
    if fname is not None and not (is_self_attr(callee) and is_self_attr(fname) and callee.attr == fname.attr):
        r.violate(key, rel, spec.lineno, 'IntPow is instantiated under the name %s but calculate_result_code calls %s: the generated C calls an undefined function'
                  % (node_src(fname), node_src(callee)))
    # (3) arity and order
    fd1, impl = pC07.intpow_ast(ctx, 1)
    params, ctl, body1 = _roles(fd1)
    if len(ctl) != 1:
        raise AnalysisError('IntPow: cannot tell the exponent parameter (loop/switch controlled by %s)' % sorted(ctl))
    exp = next(iter(ctl))
    nargs = len([a for a in m.group(1).split(',') if a.strip()])
    key = 'PowNode.calculate_result_code:arity'
    r.inst(key, sample='%d arguments emitted, IntPow(%s)' % (nargs, ', '.join(params)))
    if nargs != len(params):
        r.violate(key, rel, tmpl.lineno, 'emitted call passes %d argument(s), IntPow takes %d' % (nargs, len(params)))

    def operand_of(e):
        names = {x.attr for x in ast.walk(e) if is_self_attr(x) and x.attr in ('operand1', 'operand2')}
        return next(iter(names)) if len(names) == 1 else None
    ops = [operand_of(a) for a in argexprs]
    key = 'PowNode.calculate_result_code:order'
    r.inst(key, sample='emitted (%s); C parameters (%s), exponent = %s' % (', '.join(map(str, ops)), ', '.join(params), exp))
    if None in ops or len(ops) != 2:
        raise AnalysisError('arguments of the emitted pow call are not built from exactly one operand each: %s' % [node_src(a) for a in argexprs])
    if ops[params.index(exp)] != 'operand2' or ops[1 - params.index(exp)] != 'operand1':
        r.violate(key, rel, tmpl.lineno, 'the emitted call passes (%s) but IntPow(%s) uses parameter `%s` as the exponent (switch / shift loop): a ** b computes b ** a'
                  % (', '.join(ops), ', '.join(params), exp))
    # (4) `signed` polarity on the Python side
    sg = _kw(spec, 'signed')
    if sg is not None:
        for sv, what in ((1, 'signed'), (2, 'explicitly signed')):
            key = 'PowNode:signed=%d' % sv
            val = _eval_signed_expr(sg, sv)
            r.inst(key, sample='type.signed == %d -> #if %s' % (sv, val))
            if not _c_truth(val):
                r.violate(key, rel, sg.lineno, 'for a %s C integer type (type.signed == %d) `signed=%s` substitutes %r into `#if %%(signed)s`: the e<0 test is compiled out and '
                          'the shift loop does not terminate for a negative run-time exponent' % (what, sv, node_src(sg), val))
    # (5) C side: the signed instance tests e<0 before the loop
    key = 'IntPow:negative-exponent-guard'
    has_loop = any(st.get('kind') in ('WhileStmt', 'ForStmt', 'DoStmt') for st in body1.get('inner', []))
    r.inst(key, sample='signed instance: `if (%s < 0) return` before the loop: %s' % (exp, _neg_guard_before_loop(body1, exp)))
    if has_loop and not _neg_guard_before_loop(body1, exp):
        r.violate(key, 'Cython/Utility/CMath.c', impl.line, 'the IntPow instance for a signed type (#if %%(signed)s with 1) does not return on `%s < 0` before its loop: '
                  '`%s >>= 1` never reaches 0 for a negative exponent, the program hangs (cpow=True, int ** negative run-time int)' % (exp, exp))
    pcsrc = 'static inline long sa_pc(long b, long e) { long t = 1; while (e) { t *= b; e >>= 1; } return t; }'
    pcfd = absint.clang_function_ast(pcsrc, 'sa_pc', prelude='')
    r.positive_control(not _neg_guard_before_loop(_roles(pcfd)[2], 'e') and _roles(pcfd)[1] == {'e'}, 'loop without negative-exponent guard')
    return r, (fd1, params, exp, impl)


# ---------------------------------------------------------------------------------------------------- small-exponent switch
class _NotMonomial(Exception):
    pass


def _mono(n, env):
    """(coefficient, degree in base) of a C expression built from the base parameter, the accumulator(s) and integer literals."""
    n = absint.c_strip(n)
    k = n.get('kind')
    if k == 'IntegerLiteral':
        return (int(n['value']), 0)
    if k == 'DeclRefExpr':
        nm = absint.c_name(n)
        if nm in env:
            return env[nm]
        raise _NotMonomial(nm)
    if k == 'BinaryOperator' and n.get('opcode') == '*':
        a, b = _mono(n['inner'][0], env), _mono(n['inner'][1], env)
        return (a[0] * b[0], a[1] + b[1])
    raise _NotMonomial(k)


def switch_cases(body, base, exp):
    """-> {case value: (coef, degree) | text of what is not modelled} by symbolic execution of the `switch (exp)` with fallthrough."""
    env = {base: (1, 1)}
    sw = None
    for st in body.get('inner', []):
        if st.get('kind') == 'DeclStmt':
            for d in st.get('inner', []):
                if d.get('kind') == 'VarDecl' and d.get('inner'):
                    try:
                        env[d['name']] = _mono(d['inner'][-1], env)
                    except _NotMonomial:
                        pass
        elif st.get('kind') == 'SwitchStmt':
            sw = st
            break
        elif st.get('kind') not in ('NullStmt',):
            break
    if sw is None:
        return None
    inner = [c for c in sw.get('inner', []) if isinstance(c, dict) and c.get('kind')]
    if absint.c_name(inner[0]) != exp:
        return None
    comp = inner[-1]
    if comp.get('kind') != 'CompoundStmt':
        return None
    # flatten `case k: stmt` nesting into a label/statement sequence
    seq = []

    def flat(st):
        if st.get('kind') == 'CaseStmt':
            ins = [c for c in st.get('inner', []) if isinstance(c, dict) and c.get('kind')]
            lab = absint.c_strip(ins[0])
            seq.append(('case', int(lab['value']) if lab.get('kind') == 'IntegerLiteral' else None))
            flat(ins[-1])
        elif st.get('kind') == 'DefaultStmt':
            seq.append(('default', None))
            flat(st['inner'][-1])
        elif st.get('kind') == 'CompoundStmt':
            for c in st.get('inner', []):
                flat(c)
        else:
            seq.append(('stmt', st))
    for st in comp.get('inner', []):
        flat(st)
    out = {}
    for i, (k, v) in enumerate(seq):
        if k != 'case':
            continue
        if v is None:
            out['?'] = 'non-literal case label'
            continue
        e = dict(env)
        res = 'falls out of the switch'
        for k2, st in seq[i + 1:]:
            if k2 != 'stmt':
                continue
            kind = st.get('kind')
            try:
                if kind == 'NullStmt' or kind == 'AttributedStmt':
                    continue
                if kind == 'CompoundAssignOperator' and st.get('opcode') == '*=':
                    tgt = absint.c_name(st['inner'][0])
                    if tgt is None or tgt == base and False:
                        raise _NotMonomial('target')
                    a, b = _mono(st['inner'][0], e), _mono(st['inner'][1], e)
                    e[tgt] = (a[0] * b[0], a[1] + b[1])
                    continue
                if kind == 'BinaryOperator' and st.get('opcode') == '=':
                    tgt = absint.c_name(st['inner'][0])
                    if tgt is None:
                        raise _NotMonomial('target')
                    e[tgt] = _mono(st['inner'][1], e)
                    continue
                if kind == 'ReturnStmt':
                    res = _mono(st['inner'][0], e)
                    break
                if kind == 'BreakStmt':
                    res = 'break'
                    break
                res = 'statement %s is not modelled' % kind
                break
            except _NotMonomial as ex:
                res = 'expression with %s is not a monomial in %s' % (ex, base)
                break
        out[v] = res
    return out


def rule_POWSW(ctx, intpow):
    r = Rule('C07-POWSW', 'every `case k` of the small-exponent switch of CMath.c::IntPow returns exactly b**k (symbolic execution with fallthrough over monomials)', floor=2)
    fd1, params, exp, impl = intpow
    base = [p for p in params if p != exp][0]
    body = [c for c in fd1.get('inner', []) if c.get('kind') == 'CompoundStmt'][0]
    cases = switch_cases(body, base, exp)
    if cases is None:
        raise AnalysisError('IntPow no longer starts with a switch on the exponent; the small-exponent clause has no anchor')
    for k, res in sorted(cases.items(), key=lambda kv: str(kv[0])):
        key = 'IntPow:case %s' % k
        r.inst(key, sample='case %s returns %s' % (k, ('%d*%s^%d' % (res[0], base, res[1])) if isinstance(res, tuple) else res))
        if isinstance(res, str):
            if res in ('break', 'falls out of the switch'):
                continue      # handled by the general loop: nothing to compare
            raise AnalysisError('IntPow case %s: %s' % (k, res))
        if res != (1, k):
            r.violate(key, 'Cython/Utility/CMath.c', impl.line, 'IntPow returns %d*%s**%d for exponent %s (expected %s**%s): small integer powers are wrong'
                      % (res[0], base, res[1], k, base, k))
    pcsrc = 'static inline long sa_pc(long b, long e) { long t = b; switch (e) { case 3: t *= b; case 2: return t; case 0: return 1; } return 0; }'
    pcfd = absint.clang_function_ast(pcsrc, 'sa_pc', prelude='')
    pcb = [c for c in pcfd.get('inner', []) if c.get('kind') == 'CompoundStmt'][0]
    pcc = switch_cases(pcb, 'b', 'e') or {}
    r.positive_control(pcc.get(3) == (1, 2) and pcc.get(2) == (1, 1) and pcc.get(0) == (1, 0), 'switch whose case 3 returns b**2')
    return r


# ---------------------------------------------------------------------------------------------------- PowerOf2 fast path
class _Sentinel:
    def __init__(self, name):
        self.name = name

    def __repr__(self):
        return '<%s>' % self.name


def rule_POW2(ctx, dom, pow_cls):
    r = Rule('C07-POW2', 'PowNode.py_operation_function selects a *PowerOf2 helper (1 << N) only when the base is the int constant 2; '
                         'the helper exists in the loaded section with the arity BinopNode emits', floor=8)
    ix = ctx.index
    fn = pow_cls.methods.get('py_operation_function')
    if fn is None:
        raise AnalysisError('PowNode.py_operation_function vanished')
    rel = pow_cls.module.rel
    loaded = []

    def scen(fnode, const, is_pyobject, pyint, inplace):
        ev = dom.evaluator('pow2', super_hook=lambda name, args: 'SUPER')
        m = ix.mod('ExprNodes')
        cv = ev.sym(m, const.name) if isinstance(const, _Sentinel) else Const(const, eq_literal=True)
        op1 = Obj('operand1', cls=dom.expr_cls, flag_default=False, constant_result=cv)
        op2 = Obj('operand2', cls=dom.expr_cls, flag_default=False, type=Obj('type2', flag_default=False, may_be_pyint_type=pyint))
        code = Obj('code', globalstate=Obj('globalstate', use_utility_code=lambda u: loaded.append(u)))
        ev.overrides[('ExprNodes', 'UtilityCode')] = Obj('UtilityCode', load_cached=lambda *a: tuple(a), load=lambda *a: tuple(a))
        selfobj = Obj('PowNode', cls=pow_cls, flag_default=False, type=Obj('type', flag_default=False, is_pyobject=is_pyobject),
                      operand1=op1, operand2=op2, inplace=inplace, operator='**')
        try:
            return ev.call(pC07.Method(pC07.RepoFn(pow_cls.module, fnode, pow_cls), selfobj), [code])
        except Unsupported as e:
            raise AnalysisError('PowNode.py_operation_function cannot be evaluated (const=%r, pyobject=%s): %s' % (const, is_pyobject, e))

    consts = [2, 2.0, complex(2), 3, 0, True, 'two', _Sentinel(dom.sentinels[0][1]), _Sentinel(dom.sentinels[-1][1])]

    def sweep(fnode):
        bad, names, n = [], set(), 0
        for const in consts:
            for is_py in (True, False):
                for pyint in (True, False):
                    for inplace in (True, False):
                        n += 1
                        res = scen(fnode, const, is_py, pyint, inplace)
                        fast = isinstance(res, str) and res != 'SUPER'
                        if fast:
                            names.add(res)
                        exact_two = (type(const) is int and const == 2)
                        if fast and not exact_two:
                            bad.append((const, is_py, res))
        return bad, names, n
    bad, names, n = sweep(fn)
    for const in consts:
        key = 'PowNode.py_operation_function:base=%r' % (const,)
        mine = [b for b in bad if b[0] is const or (type(b[0]) is type(const) and b[0] == const)]
        r.inst(key, sample='base constant %r -> %s' % (const, 'fast path misused' if mine else 'ok'))
        if mine:
            c, is_py, res = mine[0]
            why = 'is not the int 2 (1 << N is an int; CPython gives %s)' % ('a float' if isinstance(c, float) else 'a complex' if isinstance(c, complex) else 'another value')
            r.violate(key, rel, fn.lineno, 'PowNode.py_operation_function returns %s for a base whose constant_result is %r (type.is_pyobject=%s): the base %s'
                      % (res, c, is_py, why))
    if not names:
        raise AnalysisError('PowNode.py_operation_function never selects a PowerOf2 helper: anchor vanished')
    # helper names exist in the section loaded, with arity 2 + the extra Py_None BinopNode passes for '**'
    secs = {u[:2] for u in loaded if isinstance(u, tuple) and len(u) >= 2}
    if not secs:
        raise AnalysisError('PowNode.py_operation_function loads no utility code for the fast path')
    # arity BinopNode.generate_result_code emits: "%s(%s, %s%s)" with extra_args ", Py_None" for '**'
    binop = ix.cls('ExprNodes', 'BinopNode')
    gen = ix.find_method(binop, 'generate_result_code')
    extra = None
    if gen:
        for nn in walk_no_nested(gen[1]):
            if isinstance(nn, ast.Assign) and isinstance(nn.targets[0], ast.Name) and nn.targets[0].id == 'extra_args' and isinstance(nn.value, ast.IfExp):
                t = nn.value.test
                if isinstance(t, ast.Compare) and isinstance(t.comparators[0], ast.Constant) and t.comparators[0].value == '**' and \
                        isinstance(t.ops[0], ast.Eq) and isinstance(nn.value.body, ast.Constant):
                    extra = nn.value.body.value.count(',')
    for name in sorted(names):
        key = 'PowNode.py_operation_function:%s' % name
        ds = ctx.cat.decls.get(name, [])
        insec = [d for d in ds if any(d.file == f and getattr(d.section, 'name', d.section) == s for s, f in secs)]
        r.inst(key, sample='%s defined in %s' % (name, sorted('%s::%s' % (d.file, getattr(d.section, 'name', d.section)) for d in ds)))
        if not insec:
            r.violate(key, rel, fn.lineno, 'py_operation_function returns %s but the utility code it loads (%s) does not define it: the generated C does not compile'
                      % (name, ', '.join('%s::%s' % (f, s) for s, f in sorted(secs))))
        elif extra is not None:
            ar = {d.nparams for d in insec}
            if ar != {2 + extra}:
                r.violate(key + ':arity', rel, fn.lineno, '%s takes %s parameter(s) but BinopNode.generate_result_code emits %d arguments for `**`' % (name, sorted(ar), 2 + extra))
    if extra is None:
        r.info('BinopNode.generate_result_code: extra_args idiom not found; arity of the PowerOf2 helpers not compared')
    pc = ast.parse("def py_operation_function(self, code):\n    if self.type.is_pyobject and self.operand1.constant_result == 2:\n"
                   "        return '__Pyx_PyNumber_PowerOf2'\n    return super().py_operation_function(code)\n").body[0]
    r.positive_control(any(isinstance(b[0], float) for b in sweep(pc)[0]), 'fast path taken for the float constant 2.0')
    return r


def run(ctx):
    ix = ctx.index
    pow_cls = ix.cls('ExprNodes', 'PowNode')
    dom = Domain(ctx)
    rules = [pC07.rule_L8(ctx, [pow_cls], rid='C07-L8', floor=6), rule_TAB(ctx, dom, pow_cls)]
    ri, intpow = rule_INTPOW(ctx, pow_cls)
    rules.append(ri)
    rules.append(rule_POWSW(ctx, intpow))
    rules.append(rule_POW2(ctx, dom, pow_cls))
    from ..rules import sC07
    rules.append(sC07.rule_shift(ctx))
    rules.append(sC07.rule_powloop(ctx))
    rules.append(sC07.rule_pow2model(ctx))
    rules.append(sC07.rule_cpow(ctx))
    from ..rules import s4C07
    rules.append(s4C07.rule_tristate(ctx))
    return rules
