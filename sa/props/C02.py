"""C02 — object arithmetic with constant operands: the Python side that selects a fast path (Optimize.optimise_numeric_binop,
the `_handle_simple_method_*___<dunder>__` handlers, CmpNode.find_special_bool_compare_function) agrees with the Tempita
templates PyLongBinop / PyFloatBinop / PyLongCompare of Cython/Utility/Optimize.c."""
import ast, re

from ..core import Rule, AnalysisError, node_src
from ..engine import tables
from ..engine.cutil import Catalogue, split_args, match_paren, strip_c_comments
from ..engine.pyindex import walk_no_nested
from ..rules import pC02 as P
from ..rules import sC02
from ..rules.iface import str_template, PLACEHOLDER

ID = 'C02'
TECHNIQUE = ('template/interface agreement: free-variable and compared-literal analysis of the Tempita sections; the decision function '
             'optimise_numeric_binop is enumerated over its COMPLETE finite domain (operator x is_float x return kind, unknown tests fork '
             'both ways) with a whitelisted expression evaluator, and the selected template is expanded with the same evaluator for every '
             'domain point; path conditions + truth tables for the constant-range guards; reference tables from the running interpreter '
             '(PyNumber_*/PyObject_RichCompare dispatch observed through ctypes.pythonapi, CPython headers); clang AST for declared copies; '
             'ZDIV: guard extraction + parameter tracing through forwarding calls in the expanded templates, flag expression evaluated on the node class\'s '
             'default attribute state corrected by a writer analysis (guards on self.type.is_pyobject); '
             'FAST: abstract interpretation of every expanded fast-path function (own C subset parser, goto / preprocessor alternatives included) over the complete sign domain '
             'of the object operand and of the constant, abstract values constant / object value / digit magnitude / `L op R`; reference tables: Python operator -> C operator, '
             'the interpreter\'s own int arithmetic for the zero identities; ORDER: path enumeration of the decision function with the two operand parameters as distinguishable '
             'objects; JOIN: constant folding of the pure string builder pylong_join + structural shift analysis; MANT: bounds vs sys.float_info.mant_dig')
DECIDES = ('(P1) the context keys passed by optimise_numeric_binop are exactly the variables the three template sections read; '
           '(P2) every string literal a template compares op/order/c_op with lies in that variable\'s value domain; '
           '(P3) for every reachable point of operator x order x return kind x int/float constant the C name computed in Python is a function '
           'the expanded template defines (proto and impl), with as many parameters as arguments are passed (2 operands + extra_args), a '
           'double/long constant parameter matching num_type and an object/int return matching ret_type; only (template, op) pairs of the '
           'template\'s own c_op table are reachable; a constant zero divisor never reaches a division fast path; '
           '(TAB) every _handle_*_method_<type>___<dunder>__ handler passes the operator whose C-API function dispatches to that special '
           'method, and every operator symbol of Visitor.find_special_method_for_binary_operator reaches a handler whose operator has the '
           'symbol\'s special method; (RANGE) the integer constants admitted (|c| <= cut-off) fit a 32-bit C long and the multiplication '
           'head-room the template reserves, shift handlers only pass right-hand constant counts within 0..63; '
           '(SIB1) the inlined floor-division / modulo adjustments are equal to the fall-through value of CMath.c DivInt / ModInt (early `if (...) return c;` special cases aside); '
           '(ZDIV) for every reachable CObj point of an operator for which Python raises ZeroDivisionError on a zero right operand (/ // %): the expanded template '
           'contains a ZeroDivisionError raise; the entry-function parameter its guard depends on (traced through the forwarding calls) receives from '
           'optimise_numeric_binop a value that is TRUE for the operator\'s node class (ExprNodes.binop_node_classes) in the attribute state an object-typed '
           'operation can have (class defaults; writers guarded by `not self.type.is_pyobject` excluded); '
           '(FAST) for every reachable point and every expanded function (__Pyx_Unpacked_*, __Pyx_Float_*, entry, PyFloatBinop, PyLongCompare), on every path for object sign '
           'zero / positive / negative: an arithmetic result that is returned (or tested, for == / !=) is `left <C operator of the Python operator> right` with the constant '
           'and the object\'s value on the sides the order says (non-commutative operators), a magnitude read from the digits carries the object\'s sign, the value returned by '
           'the "operand is zero" shortcut equals L op R with X = 0 (c, 0, -c, ZeroDivisionError or no shortcut), a saturated right shift yields -1 / 0 by the sign of the left '
           'operand, the floor adjustment after `%` adds the divisor exactly when the remainder is non-zero and its sign differs from the DIVISOR\'s, a ZeroDivisionError is '
           'only raised where the divisor was tested for zero, predicates/accessors are applied to the object operand (op2 for CObj, op1 for ObjC) and the entry function '
           'type-tests that operand; PyLongCompare returns "equal" exactly for equal signs and (both zero or no digit difference) and for identical objects, its unrolled '
           'digit comparison for k+1 digits requires size == k+1 and compares digit i with bits [i*SHIFT,(i+1)*SHIFT); `inplace ? A : B` pairs PyNumber_InPlace<Op> with '
           'PyNumber_<Op>; (ORDER) on every path of optimise_numeric_binop the template of the reported order unpacks the operand that is NOT the constant; '
           '(JOIN) pylong_join(1..4) shifts digit i by i*PyLong_SHIFT, each digit once, joined by |; (MANT) every power-of-two / digit-count bound guarding an int -> double '
           'fast path is <= 53 bits; (INPL) the in-place flag passed equals the node\'s `inplace` attribute (false for comparisons).')
NOT_DECIDED = ('ZDIV does not decide that EVERY path to the C division passes a zero test (only that the raise exists and its flag is passed as true), nor the '
               'explicit cdiv()/cmod() and C++-operand states.  FAST works in the sign domain: it does not decide value ranges - overflow of + - * << inside the C long / long long '
               'branch and the guards that detect it (`a == x >> b`, the size/PyLong_SHIFT tests; see C36-OVF / C07-SHIFT), float rounding, the two\'s complement identity of the '
               'single-digit `&` shortcut (brainstormed mutants long-lshift-check and long-and-mask are left unreported); nor the '
               'nb_<slot> fallbacks chosen by the template, the generic NotImplemented/subclass protocol of the CPython fallbacks, and whether '
               'the coercions around the call preserve the result type.  The I3 clause of DESIGN.md is decided in the exact form "passed '
               'arguments vs expanded prototype"; the declared CFuncType is only compared for the constant parameter and the return kind.')
DECIDES += (' (IDENT, rules/fzero.py) every `return __Pyx_NewRef(opK)` shortcut of PyNumberBinop (the helper a float / int TYPED operand such as the constant in `0.0 * x` goes '
            'through) returns an operand only where `op1 <op> op2` is exactly that operand, same type and same sign of zero, on the complete class partition {<0, 0, >0} x '
            '{-inf, <0, -0.0, +0.0, >0, +inf, nan}; (FAST/modadj) a conditional floor adjustment of the float remainder is decided under its path conditions, every sign combination that '
            'needs the divisor added reaches one, and for float divisors the domain contains +-inf (a flag multiplied with the divisor gives 0 * inf = NaN).')
NOT_DECIDED += (' IDENT decides the identity shortcuts only, not the arithmetic on the non-shortcut paths of PyNumberBinop (plain C double / PyLong slot calls), nor its subclass fallbacks.')
DECIDES += (' (CMPSEL, rules/s8C02.py, round 8) PyLongCompare: for every admitted constant magnitude 1 .. cut-off (extracted from optimise_numeric_binop), PyLong_SHIFT 15 / 30 x sizeof(long) 4 / 8, '
            'with the preprocessor conditions evaluated and the magnitudes partitioned by every threshold the selecting conditions distinguish, exactly one unrolled digit comparison is selected and it '
            'requires the digit count of that magnitude; a selecting shift by >= the width of unsigned long is reported.')
NOT_DECIDED += (' CMPSEL refuses (ANALYSIS-ERROR) selecting conditions on uintval other than `uintval >> n` / comparisons with a constant.')
ASSUMPTIONS = ['C long has at least 32 bits and long long at least 64 bits (C11 5.2.4.2.1); PyLong_SHIFT is 15 or 30 (CPython longintrepr.h)',
               'the special method reached by PyNumber_<Op>/PyObject_RichCompare in the interpreter running the check is the one the target CPython uses',
               'ZDIV: the node handed to optimise_numeric_binop by the operator handlers is the binop node itself, and its result type is a Python object '
               '(the handlers are only dispatched for object / builtin-typed operands), so writers guarded by `not self.type.is_pyobject` have not run']
EXEMPT = {
    ('C02-P2', "PyLongBinop.impl:op:'LShift':op=='LShift'orop=='Rshift'"):
        "DESIGN.md section 7: the misspelt 'LShift' only disables `if (!negative_shift_works && lla < 0) goto fallback` in the long long branch; "
        "negative_shift_works is 1 on every GCC/Clang/MSVC x86/ARM target, where the statement is a no-op",
}
MUTATIONS = [   # (file, single edit, rule that reported it) -- all run on a scratch copy, every variant was reported with exit 1
    ('Cython/Compiler/Optimize.py', "_handle_simple_method_object___sub__: 'Subtract' -> 'Add'", 'C02-TAB'),
    ('Cython/Compiler/Optimize.py', "alias _handle_simple_method_int___and__ = ..._object___or__", 'C02-TAB'),
    ('Cython/Compiler/Optimize.py', "optimise_numeric_binop: abs(numval.constant_result) > 2**30 -> 2**31", 'C02-RANGE'),
    ('Cython/Compiler/Optimize.py', "optimise_numeric_binop: func_cname '__Pyx_Py%s_%s%s%s' -> '__Pyx_Py%s%s_%s%s'", 'C02-P3 name'),
    ('Cython/Compiler/Optimize.py', "optimise_numeric_binop: add 'Multiply' to the is_float operator whitelist", 'C02-P3 unreachable-op'),
    ('Cython/Compiler/Optimize.py', "optimise_numeric_binop: remove the `elif operator == 'Divide': return None` branch", 'C02-P3 unreachable-op'),
    ('Cython/Compiler/Optimize.py', "optimise_numeric_binop: `if is_float or operator not in ('Eq', 'Ne')` -> `if is_float`", 'C02-P3 arity'),
    ('Cython/Compiler/Optimize.py', "optimise_numeric_binop: remove 'Remainder' from the zero-divisor bail-out tuple", 'C02-P3 zero-divisor'),
    ('Cython/Compiler/Optimize.py', "optimise_numeric_binop: context=dict(op=..., order=...) without ret_type / with an extra key", 'C02-P1'),
    ('Cython/Compiler/Optimize.py', "_handle_simple_method_object___lshift__: 63 -> 64", 'C02-SHIFT count'),
    ('Cython/Compiler/Optimize.py', "_handle_simple_method_object___rshift__: drop the isinstance(args[1], IntNode) guard", 'C02-SHIFT rhs-int'),
    ('Cython/Compiler/Optimize.py', "_optimise_num_binop: args = list(args) + extra_args[:2]", 'C02-PASS'),
    ('Cython/Utility/Optimize.c', "PyLongBinop: second {{if op == 'Lshift'}} -> 'LShift' (a new misspelling next to the exempted one)", 'C02-P2'),
    ('Cython/Utility/Optimize.c', "PyLongBinop: c_op in '+-|^>><<' -> '+-|^><<'", 'C02-P2'),
    ('Cython/Utility/Optimize.c', "PyLongBinop: +30 head-room -> +10 (+20 is still safe and stays silent)", 'C02-RANGE'),
    ('Cython/Utility/Optimize.c', "PyLongBinop: q -= ((r != 0) & ((r ^ b) < 0)) -> ((r ^ a) < 0)", 'C02-SIB'),
    ('Cython/Utility/Optimize.c', "PyFloatBinop.proto: parameter `int zerodivision_check` removed", 'C02-P3 arity'),
    ('Cython/Utility/Optimize.c', "PyLongCompare: function name {{op}}{{order}} -> {{order}}{{op}}", 'C02-P3 name'),
    ('Cython/Compiler/Visitor.py', "find_special_method_for_binary_operator: '-' -> '__add__'", 'C02-OPS'),
    ('Cython/Compiler/ExprNodes.py', 'find_special_bool_compare_function: "Eq" if self.operator == "==" else "Ne" -> swapped', 'C02-OPS'),
    ('Cython/Compiler/Optimize.py', "seed C02b: zerodivision_check = arg_order == 'CObj' and bool(node.zerodivision_check if isinstance(node, DivNode) else False)", 'C02-ZDIV flag'),
    ('Cython/Compiler/Optimize.py', "optimise_numeric_binop: `not node.cdivision` -> `node.cdivision`", 'C02-ZDIV flag'),
    ('Cython/Compiler/Optimize.py', "optimise_numeric_binop: zerodivision_check = arg_order == 'ObjC' and (...)", 'C02-ZDIV flag'),
    ('Cython/Compiler/Optimize.py', "optimise_numeric_binop: isinstance(node, ExprNodes.DivNode) -> isinstance(node, ExprNodes.ModNode) (c / x loses the check)", 'C02-ZDIV flag'),
    ('Cython/Compiler/Optimize.py', "optimise_numeric_binop: the `inplace` extra argument is no longer appended (flag lands on the wrong parameter)", 'C02-ZDIV flag (+C02-P3 arity)'),
    ('Cython/Utility/Optimize.c', "PyFloatBinop: _needs_check=(order == 'CObj' and c_op in '%')", 'C02-ZDIV raise'),
    ('Cython/Utility/Optimize.c', "PyFloatBinop: `if (unlikely(!zerodivision_check && ...` (negated flag)", 'C02-ZDIV raise'),
    ('Cython/Utility/Optimize.c', "PyLongBinop: __Pyx_Unpacked_...(op1, op2, intval, inplace, inplace) (flag not forwarded)", 'C02-ZDIV flag'),
    ('behaviour-preserving (all silent)', "ZDIV: flag computed by an if/else with a renamed local; De Morgan form `not (arg_order != 'CObj' or (node.cdivision if ... else True))`; "
                                          "C parameter zerodivision_check renamed in PyFloatBinop proto+impl", 'silent'),
    # fourth round: every mutant below is stored with its patch and outcome under mutants/C02/<name>/ (replayed by the thorough tier)
    ('Cython/Utility/Optimize.c', "long-cop-or-xor, float-cop-sub-plus (c_op rows), long-operand-binding, float-binding (a/b bound the other way round), long-sign-flip, "
                                  "long-ispos-isneg, long-ll-sign-dropped, float-neg-digits (sign of the unpacked digits), long-zero-{sub-objc,mul-identity,neg-const} "
                                  "(zero shortcuts), long-rshift-neg, float-mod-sign, float-zerodiv-operand, long-fallback-inplace, cmp-{zero-sense,sign-neg,digit-count,"
                                  "identity-ne,float-operands-ne}", 'C02-FAST'),
    ('Cython/Compiler/Optimize.py', "py-order-swapped: arg_order 'CObj' reported for a constant second operand", 'C02-ORDER'),
    ('Cython/Utility/__init__.py', "long-join-order: pylong_join iterates the digits in ascending order", 'C02-JOIN'),
    ('Cython/Utility/Optimize.c', "long-truediv-53, float-53-guard: 1 << 53 -> 1 << 62", 'C02-MANT'),
    ('Cython/Compiler/Optimize.py', "py-inplace-flag: inplace = isinstance(node, NumBinopNode) (was an ANALYSIS-ERROR of the decision-variable detection, fixed)", 'C02-INPL'),
    ('not reported (declined)', "long-and-mask, long-lshift-check: value-range / bit-level arithmetic, see NOT_DECIDED", 'none'),
    ('behaviour-preserving (all silent)', "ok-cop-rows-reordered, ok-sign-rewrite (conditional expression, !IsNeg), ok-zero-branches-reordered, ok-py-order-rewrite (conditional "
                                          "expressions + a second isinstance()-defined local: made enumerate_decider give up before this round - fixed), ok-cmp-rewrite, "
                                          "ok-float-neg-rewrite, ok-explicit-goto", 'silent'),
    ('Cython/Utility/Optimize.c', "round 8 (seed C02k): cmpsel-{pp-offbyone,shift-plus-one,gt-base,ascending,two-blocks-only,size-shifted,pp-guard-removed}; silent: ok-cmpsel-{ge-base,three-blocks,pp-bits}", 'C02-CMPSEL'),
    ('behaviour-preserving (all silent)', "rename local numval -> constant_node; cut-off rewritten `not (abs(c) <= 1 << 30)`; rows of the c_op dict reordered; "
                                          "DivInt copy with renamed locals and `q = q - ...`; head-room +30 -> +20; shift guards merged into one positive `if ... and 0 < c < 64`; "
                                          "two handler methods reordered with an extra local", 'silent'),
]

SECTIONS = ('PyLongBinop', 'PyFloatBinop', 'PyLongCompare')
UFILE = 'Optimize.c'
REL_OPT = 'Cython/Compiler/Optimize.py'
REL_C = 'Cython/Utility/Optimize.c'
DECIDER = 'optimise_numeric_binop'
HANDLER_RE = re.compile(r'^_handle_(?:simple|general|any)_method_([A-Za-z0-9]+)_(__\w+__)$')


# ----------------------------------------------------------------------------------------------------------------- extraction
def _call_name(c):
    f = c.func
    if isinstance(f, ast.Name):
        return f.id
    if isinstance(f, ast.Attribute):
        return f.attr
    return None


def _params(fn):
    ps = [a.arg for a in fn.args.args]
    return ps[1:] if ps and ps[0] in ('self', 'cls') else ps


def find_forwarders(cls):
    """methods of the handler class that pass their first parameter unchanged as first argument to the decision function
    (directly or through another forwarder) -> {name}"""
    fw = {DECIDER}
    changed = True
    while changed:
        changed = False
        for name, fn in cls.methods.items():
            if name in fw:
                continue
            ps = _params(fn)
            if not ps:
                continue
            for c in walk_no_nested(fn):
                if isinstance(c, ast.Call) and _call_name(c) in fw and c.args and isinstance(c.args[0], ast.Name) and c.args[0].id == ps[0]:
                    if any(isinstance(t, ast.Name) and t.id == ps[0] and isinstance(t.ctx, ast.Store) for t in walk_no_nested(fn)):
                        raise AnalysisError('%s re-assigns its operator parameter' % name)
                    fw.add(name)
                    changed = True
                    break
    return fw


def handler_table(cls, fw):
    """{handler name: (type name, dunder, {operators passed}, FunctionDef)} and {alias: target}"""
    out = {}
    for name, fn in cls.methods.items():
        m = HANDLER_RE.match(name)
        if not m:
            continue
        ops = set()
        for c in walk_no_nested(fn):
            if isinstance(c, ast.Call) and _call_name(c) in fw and c.args:
                a = c.args[0]
                if isinstance(a, ast.Constant) and isinstance(a.value, str):
                    ops.add(a.value)
                else:
                    raise AnalysisError('%s passes a non-constant operator %s' % (name, node_src(a)))
        if ops:
            out[name] = (m.group(1), m.group(2), ops, fn)
    aliases = {}
    for a, b in cls.aliases.items():
        if b in out and HANDLER_RE.match(a):
            aliases[a] = b
    return out, aliases


def external_operator_sites(ix):
    """calls of the decision function outside its own module's forwarders: [(module, qualname, fn, call)]"""
    out = []
    for m in ix.modules.values():
        if not m.name.startswith('Cython.Compiler'):
            continue
        if DECIDER not in m.src:
            continue
        for qn, owner, fn in ix.functions_of(m):
            for c in walk_no_nested(fn):
                if isinstance(c, ast.Call) and _call_name(c) == DECIDER:
                    out.append((m, qn, fn, c))
    return out


def finite_values(fn, call, expr):
    """Values of expr at `call`: constants, or a conditional over an expression whose domain the dominating guards give
    (`X in (a, b)`).  -> {value: {guard expression text: value of the guard expression}}"""
    if isinstance(expr, ast.Constant):
        return {expr.value: {}}
    conds = [pc for t, pc in P.path_conditions(fn, lambda n: n is call)]
    if not conds:
        raise AnalysisError('call site of %s not found again' % DECIDER)
    doms = {}
    for test, truth in conds[0]:
        if truth and isinstance(test, ast.Compare) and len(test.ops) == 1 and isinstance(test.ops[0], ast.In) \
                and isinstance(test.comparators[0], (ast.Tuple, ast.List, ast.Set)):
            try:
                doms[ast.unparse(test.left)] = list(P.Ev().ev(test.comparators[0]))
            except P.Unknown:
                pass
    out = {}
    for key, values in doms.items():
        ok = True
        res = {}
        for v in values:
            try:
                res[P.Ev(subst={key: v}).ev(expr)] = {key: v}
            except P.Unknown:
                ok = False
        if ok and res:
            out.update(res)
    if not out:
        raise AnalysisError('operator argument %s of %s is not a finite table' % (node_src(expr), DECIDER))
    return out


class Point:
    """One completed path of the decision function."""
    __slots__ = ('op', 'is_float', 'ret_obj', 'order', 'cname', 'section', 'file', 'context', 'n_extra', 'num_type', 'atoms', 'load_line')

    def key(self):
        return '%s(op=%s,order=%s,ret=%s)' % (self.section, self.op, self.order, 'object' if self.ret_obj else 'bint')


def enumerate_decider(fn, ops):
    ps = [a.arg for a in fn.args.args]
    if len(ps) < 5:
        raise AnalysisError('%s no longer takes (operator, node, ret_type, arg0, arg1)' % DECIDER)
    p_op, p_ret = ps[0], ps[2]
    # boolean decision variables: locals defined by an isinstance() test at the top level of the function
    # The float/int decision variable: the local defined by an isinstance() test against the float-constant node class alone.  Other isinstance()-defined
    # locals (operand-order flags, in-place flags) are ordinary unknown tests: they fork.
    def _tests_float_node(call):
        if len(call.args) != 2:
            return False
        t = call.args[1]
        name = t.attr if isinstance(t, ast.Attribute) else (t.id if isinstance(t, ast.Name) else None)
        return name == 'FloatNode'
    bools = [s.targets[0].id for s in fn.body if isinstance(s, ast.Assign) and len(s.targets) == 1 and isinstance(s.targets[0], ast.Name)
             and isinstance(s.value, ast.Call) and isinstance(s.value.func, ast.Name) and s.value.func.id == 'isinstance' and _tests_float_node(s.value)]
    if len(bools) != 1:
        raise AnalysisError('%s: expected exactly one local defined by isinstance(<constant>, FloatNode) (the int/float decision), found %r' % (DECIDER, bools))
    fvar = bools[0]

    def on_stmt(s, ev, events):
        if isinstance(s, ast.Expr) and isinstance(s.value, ast.Call) and isinstance(s.value.func, ast.Attribute) \
                and s.value.func.attr in ('append', 'extend', 'insert') and isinstance(s.value.func.value, ast.Name):
            if s.value.func.attr != 'append':
                raise AnalysisError('%s builds its extra arguments with .%s()' % (DECIDER, s.value.func.attr))
            events.append(('append', s.value.func.value.id))
        elif isinstance(s, ast.Assign) and isinstance(s.value, ast.Call) and _call_name(s.value) in ('load_cached', 'load'):
            c = s.value
            try:
                sec, ufile = ev.ev(c.args[0]), ev.ev(c.args[1])
            except P.Unknown as e:
                raise AnalysisError('%s: utility section name is not a finite table: %s' % (DECIDER, e))
            ctxd = None
            for k in c.keywords:
                if k.arg == 'context':
                    if isinstance(k.value, ast.Call) and isinstance(k.value.func, ast.Name) and k.value.func.id == 'dict':
                        ctxd = {kk.arg: kk.value for kk in k.value.keywords}
                    elif isinstance(k.value, ast.Dict):
                        ctxd = {kk.value: vv for kk, vv in zip(k.value.keys, k.value.values)}
            if ctxd is None:
                raise AnalysisError('%s: context= of the template is not a literal dict' % DECIDER)
            vals = {}
            for k, v in ctxd.items():
                try:
                    vals[k] = ev.ev(v)
                except P.Unknown:
                    vals[k] = P.UNKNOWN     # an expansion that reads it fails closed (ANALYSIS-ERROR)
            for t in s.targets:
                if isinstance(t, ast.Name):
                    events.append(('load', t.id, sec, ufile, vals, s.lineno))

    points, bailed = [], 0
    for op in sorted(ops):
        for is_float in (False, True):
            for ret_obj in (True, False):
                env0 = {p: P.UNKNOWN for p in ps}
                env0[p_op] = op
                env0[p_ret] = P.Obj(is_pyobject=ret_obj)
                env0[fvar] = is_float
                env0['__fixed__'] = (fvar,)
                for res in P.enumerate_paths(fn, env0, on_stmt):
                    r = res.returned
                    if r is None or r[0] != 'return':
                        raise AnalysisError('%s has a path without return' % DECIDER)
                    val = r[1]
                    if val is None or (isinstance(val, ast.Constant) and val.value is None):
                        bailed += 1
                        continue
                    if not (isinstance(val, ast.Tuple) and len(val.elts) == 4 and all(isinstance(e, ast.Name) for e in val.elts)):
                        raise AnalysisError('%s no longer returns (cname, utility_code, extra_args, num_type)' % DECIDER)
                    n_c, n_u, n_x, n_t = [e.id for e in val.elts]
                    pt = Point()
                    pt.op, pt.is_float, pt.ret_obj, pt.atoms = op, is_float, ret_obj, dict(res.atoms)
                    pt.cname = res.env.get(n_c)
                    pt.num_type = res.env.get(n_t)
                    loads = [e for e in res.events if e[0] == 'load' and e[1] == n_u]
                    if len(loads) != 1 or not isinstance(pt.cname, str):
                        raise AnalysisError('%s: C name / utility code are not decided by (operator, is_float, ret_type) on some path' % DECIDER)
                    _, _, pt.section, pt.file, pt.context, pt.load_line = loads[0]
                    pt.n_extra = sum(1 for e in res.events if e == ('append', n_x))
                    pt.order = pt.context.get('order')
                    points.append(pt)
    return points, bailed, fvar


def expanded_decls(text, cname):
    """Declarations (prototype / definition / macro) of cname in expanded C text -> [(kind, head, [params])]"""
    t = strip_c_comments(text)
    out = []
    for m in Catalogue.FUNC_HEAD.finditer(t):
        if m.group(2) != cname:
            continue
        lp = m.end() - 1
        rp = match_paren(t, lp)
        if rp < 0:
            continue
        tail = re.match(r'\s*(;|\{)', t[rp + 1:rp + 80])
        if not tail:
            continue
        out.append(('func' if tail.group(1) == '{' else 'proto', ' '.join(m.group(1).split()), split_args(' '.join(t[lp + 1:rp].split()))))
    for m in Catalogue.MACRO.finditer(t):
        if m.group(1) == cname and m.group(2):
            rp = match_paren(t, m.end() - 1)
            if rp > 0:
                out.append(('macro', '#define', split_args(t[m.end():rp])))
    return out


def capi_dunder(ctx, op, inplace=False):
    """Special method the C-API function meant by template operator `op` dispatches to (None: the name means nothing)."""
    cmpm = P.richcmp_macros()
    if 'Py_' + op.upper() in cmpm:
        return P.dunder_of_capi('PyObject_RichCompare', cmpm['Py_' + op.upper()])
    name = 'PyNumber_%s%s' % ('InPlace' if inplace else '', op)
    if name in tables.cpython_api():
        return P.dunder_of_capi(name)
    for d in ctx.cat.decls.get('__Pyx_' + name, []):
        fwd = ctx.cat.forwarding(d)
        if fwd and fwd[0] in tables.cpython_api():
            return P.dunder_of_capi(fwd[0])
    return None


# ----------------------------------------------------------------------------------------------------------------- rules
def run(ctx):
    ix, cat = ctx.index, ctx.cat
    rules = []
    opt = ix.mod('Optimize')
    fn = opt.functions.get(DECIDER)
    if fn is None:
        raise AnalysisError('Optimize.%s vanished' % DECIDER)
    cls = ix.cls('Optimize', 'OptimizeBuiltinCalls')
    fw = find_forwarders(cls)
    handlers, aliases = handler_table(cls, fw)
    if len(handlers) < 10:
        raise AnalysisError('only %d numeric operator handlers found in OptimizeBuiltinCalls' % len(handlers))
    ops = set()
    for h in handlers.values():
        ops |= h[2]
    ext_sites = []       # (module, qualname, {op: guard valuation})
    for m, qn, f2, call in external_operator_sites(ix):
        if m is opt and qn.split('.')[-1] in fw:
            continue
        vals = finite_values(f2, call, call.args[0])
        ext_sites.append((m, qn, call, vals))
        ops |= set(vals)
    if not ext_sites:
        raise AnalysisError('no caller of %s outside the method handlers (CmpNode.find_special_bool_compare_function expected)' % DECIDER)

    def sec_line(sec, typ):
        d = cat.files.get(UFILE, {}).get(sec, {}).get(typ)
        return d.line if d is not None else 0

    trees = {}
    for s in SECTIONS:
        d = cat.files.get(UFILE, {}).get(s)
        if not d or 'impl' not in d or 'proto' not in d:
            raise AnalysisError('section %s (proto+impl) missing from Cython/Utility/%s' % (s, UFILE))
        for typ in ('proto', 'impl'):
            trees[(s, typ)] = P.tpl_tree(d[typ].raw)
    cop = {}
    for s in SECTIONS:
        dct, key = P.tpl_assigned_dict(trees[(s, 'impl')], 'c_op')
        if not dct or key != 'op':
            raise AnalysisError('%s: the c_op dispatch table `c_op = {...}[op]` was not found' % s)
        cop[s] = dct

    points, bailed, fvar = enumerate_decider(fn, ops)
    if not points:
        raise AnalysisError('%s: no path selects a fast path' % DECIDER)
    for p in points:
        if p.file != UFILE or p.section not in SECTIONS:
            raise AnalysisError('%s selects an unexpected utility section %s::%s' % (DECIDER, p.file, p.section))

    # ------------------------------------------------------------------------------------------ P1
    r1 = Rule('C02-P1', 'context keys passed to PyLongBinop/PyFloatBinop/PyLongCompare are exactly the variables the sections read', floor=6)
    ctx_keys = {}
    for p in points:
        ctx_keys.setdefault(p.section, set()).update(p.context)

    def p1_check(rule, sec, keys, tr):
        rp, _ = P.tpl_variables(tr[(sec, 'proto')])
        ri, _ = P.tpl_variables(tr[(sec, 'impl')])
        for typ, reads in (('proto', rp), ('impl', ri)):
            rule.inst('%s.%s' % (sec, typ), sample='%s.%s reads %s; context %s' % (sec, typ, sorted(reads), sorted(keys)))
            for v in sorted(reads - keys):
                rule.violate('%s.%s:reads:%s' % (sec, typ, v), REL_C, sec_line(sec, typ),
                             'template section %s.%s reads variable %r which %s does not put into context=dict(%s): NameError while compiling any `x op constant`'
                             % (sec, typ, v, DECIDER, ', '.join(sorted(keys))))
        for v in sorted(keys - rp - ri):
            rule.violate('%s:unread:%s' % (sec, v), REL_OPT, fn.lineno,
                         'context key %r passed by %s is read by neither %s.proto nor %s: instantiations that differ only in %r emit the same C function twice'
                         % (v, DECIDER, sec, sec, v))
    for s in SECTIONS:
        if s not in ctx_keys:
            raise AnalysisError('section %s is never selected by %s' % (s, DECIDER))
        p1_check(r1, s, ctx_keys[s], trees)
    pc = Rule('x', 'x')
    p1_check(pc, 'T', {'op', 'order'}, {('T', 'proto'): P.tpl_tree('f_{{op}}{{order}}'), ('T', 'impl'): P.tpl_tree("{{if ret_type.is_pyobject}}x{{endif}}")})
    r1.positive_control(any(':reads:ret_type' in f.construct for f in pc.findings), 'template reading a key that is not in the context')
    rules.append(r1)

    # ------------------------------------------------------------------------------------------ P2
    r2 = Rule('C02-P2', 'every string literal a template compares op / order / c_op with lies in the value domain of that variable (no dead or misspelt branch)', floor=83)
    reach_ops = {s: {p.op for p in points if p.section == s} for s in SECTIONS}
    orders = {p.order for p in points}

    def p2_check(rule, sec, typ, tree, dom_op, dom_order, dom_cop):
        doms = {'op': dom_op, 'order': dom_order, 'c_op': dom_cop}
        for var in ('op', 'order', 'c_op'):
            for lit, kind, src in P.tpl_compared_literals(tree, var):
                key = '%s.%s:%s:%r:%s' % (sec, typ, var, lit, re.sub(r'\s+', '', src))
                rule.inst(key, sample='%s.%s: %s' % (sec, typ, src))
                if kind == 'eq':
                    bad = lit not in doms[var]
                else:
                    bad = not P.segmentable(lit, doms[var])
                if bad:
                    rule.violate(key, REL_C, sec_line(sec, typ),
                                 'template %s.%s tests `%s` but %r is not %s value of %s (domain %s): the branch is dead, the code it guards is never generated'
                                 % (sec, typ, src, lit, 'a' if kind == 'eq' else 'a concatenation of', var, sorted(doms[var])))
    for s in SECTIONS:
        for typ in ('proto', 'impl'):
            p2_check(r2, s, typ, trees[(s, typ)], reach_ops[s] | set(cop[s]), orders, set(cop[s].values()))
    pc = Rule('x', 'x')
    p2_check(pc, 'PyLongBinop', 'impl', P.tpl_tree("{{if op == 'LShift' or c_op in '+-<'}}x{{endif}}"), {'Lshift'}, {'ObjC'}, {'+', '-', '<<'})
    r2.positive_control(len(pc.findings) == 2, "misspelt operator name and unsegmentable c_op string")
    rules.append(r2)

    # ------------------------------------------------------------------------------------------ P3 / arity / reachability / zero divisor
    r3 = Rule('C02-P3', 'for every reachable (operator, order, return kind, int/float) the C name built by optimise_numeric_binop is defined by the expanded '
                        'template (proto + impl) with as many parameters as arguments passed, matching constant/return kinds; op is a key of the template\'s c_op table; '
                        'constant zero divisors bail out', floor=68)
    ps = [a.arg for a in fn.args.args]
    right = ps[4]
    expansions = {}

    def expand(p, typ):
        k = (p.section, typ, p.op, p.order, p.ret_obj)
        if k not in expansions:
            env = {}
            for ck, cv in p.context.items():
                env[ck] = cv
            expansions[k] = P.tpl_expand(trees[(p.section, typ)], env)
        return expansions[k]

    def p3_check(rule, p, proto_text, impl_text, cop_keys):
        key = p.key()
        if key not in rule.nontrivial:
            rule.inst(key, sample='%s -> %s, %d extra args' % (key, p.cname, p.n_extra))
        passed = 2 + p.n_extra
        for typ, text in (('proto', proto_text), ('impl', impl_text)):
            decls = expanded_decls(text, p.cname)
            if typ == 'impl':
                decls = [d for d in decls if d[0] == 'func']
            if not decls:
                others = sorted({m.group(0) for m in re.finditer(r'\b__Pyx_Py(?:Long|Float)_\w+', strip_c_comments(text))})
                rule.violate(key + ':name:' + typ, REL_OPT, p.load_line,
                             '%s calls %s but %s.%s instantiated with (op=%s, order=%s, ret_type %s) defines %s: the generated C does not link'
                             % (DECIDER, p.cname, p.section, typ, p.op, p.order, 'object' if p.ret_obj else 'bint', others[:4] or 'no such function'))
                continue
            for kind, head, params in decls:
                if len(params) != passed:
                    rule.violate(key + ':arity:' + typ, REL_OPT, p.load_line,
                                 '%s is called with %d arguments (2 operands + %d extra_args) but its %s in %s.%s takes %d (%s)'
                                 % (p.cname, passed, p.n_extra, {'func': 'definition', 'proto': 'prototype', 'macro': 'macro'}[kind], p.section, typ, len(params), ', '.join(params)))
                    continue
                if kind == 'macro':
                    continue
                want_double = isinstance(p.num_type, P.Sym) and p.num_type.name.endswith('c_double_type')
                if not isinstance(p.num_type, P.Sym):
                    raise AnalysisError('%s: num_type is not decided by is_float' % DECIDER)
                is_double = bool(re.search(r'\bdouble\b', params[2]))
                if want_double != is_double:
                    rule.violate(key + ':cval:' + typ, REL_OPT, p.load_line,
                                 '%s: the constant is passed as %s but parameter 3 of the C function is `%s`' % (p.cname, p.num_type, params[2]))
                ret_is_obj = 'PyObject' in head
                if ret_is_obj != p.ret_obj:
                    rule.violate(key + ':ret:' + typ, REL_OPT, p.load_line,
                                 '%s: ret_type is %s but the C function returns `%s`' % (p.cname, 'a Python object' if p.ret_obj else 'a C truth value', head))

    p1_broken = {f.construct.split('.')[0] for f in r1.findings if ':reads:' in f.construct}
    for p in points:
        if p.section in p1_broken:
            r3.inst(p.key(), nontrivial=False)
            continue
        if p.op not in cop[p.section]:
            if p.key() not in r3.nontrivial:
                r3.inst(p.key())
            r3.violate(p.key() + ':unreachable-op', REL_OPT, p.load_line,
                       '%s instantiates %s with op=%r (int/float constant: %s) but the template\'s c_op table has no such key (%s): KeyError while compiling'
                       % (DECIDER, p.section, p.op, 'float' if p.is_float else 'int', sorted(cop[p.section])))
            continue
        p3_check(r3, p, expand(p, 'proto'), expand(p, 'impl'), cop[p.section])
        if cop[p.section][p.op] in ('/', '%') and p.order == 'ObjC':
            zero = [k for k, v in p.atoms.items() if re.fullmatch(r'%s\.constant_result\s*==\s*0' % re.escape(right), k) and v is False]
            if not zero:
                r3.violate(p.key() + ':zero-divisor', REL_OPT, fn.lineno,
                           '%s reaches the %s fast path for op=%s with a constant right operand without having excluded `%s.constant_result == 0`: '
                           'the template only tests for zero when the object is the divisor (order CObj), so `x %s 0` divides by zero in C'
                           % (DECIDER, p.section, p.op, right, cop[p.section][p.op]))
    r3.info('%d paths of %s reach a fast path, %d bail out (return None)' % (len(points), DECIDER, bailed))
    pcp = Point()
    pcp.op, pcp.is_float, pcp.ret_obj, pcp.order, pcp.cname, pcp.section, pcp.n_extra, pcp.num_type, pcp.load_line, pcp.atoms = \
        'Add', False, True, 'ObjC', '__Pyx_PyLong_AddObjC', 'PyLongBinop', 2, P.Sym('PyrexTypes.c_long_type'), 0, {}
    pc = Rule('x', 'x')
    p3_check(pc, pcp, 'static PyObject* __Pyx_PyLong_AddObjC(PyObject *op1, PyObject *op2, long intval, int inplace, int zerodivision_check);',
             'static PyObject* __Pyx_PyLong_AddCObj(PyObject *op1, PyObject *op2, long intval, int inplace, int zerodivision_check) { return 0; }', None)
    r3.positive_control({f.construct.split(':', 1)[1].split(':', 1)[1] for f in pc.findings} == {'arity:proto', 'name:impl'} or
                        {f.construct.rsplit(':', 2)[-2] + ':' + f.construct.rsplit(':', 2)[-1] for f in pc.findings} == {'arity:proto', 'name:impl'},
                        'wrong arity in the prototype, other name in the definition')
    seen, uniq = set(), []
    for f in r3.findings:
        if f.construct not in seen:
            seen.add(f.construct)
            uniq.append(f)
    r3.findings = uniq
    rules.append(r3)

    # ------------------------------------------------------------------------------------------ PASS: consumers pass 2 operands + extra_args
    r4 = Rule('C02-PASS', 'both consumers of optimise_numeric_binop call the C function with exactly (operand1, operand2, *extra_args)', floor=2)
    consumers = 0
    for name in sorted(fw - {DECIDER}):
        f2 = cls.methods[name]
        for c in walk_no_nested(f2):
            if isinstance(c, ast.Call) and _call_name(c) == DECIDER:
                consumers += 1
                key = 'Optimize.OptimizeBuiltinCalls.%s' % name
                r4.inst(key, sample=key + ' -> _substitute_method_call(..., args + extra_args)')
                problems = consumer_method_problems(f2, c)
                for pr in problems:
                    r4.violate(key + ':' + pr[0], REL_OPT, f2.lineno, '%s: %s' % (key, pr[1]))
    for m, qn, call, vals in ext_sites:
        consumers += 1
        key = '%s.%s' % (m.short, qn)
        r4.inst(key, sample=key + ' -> special_bool_cmp_function(op1, op2, extra args)')
        owner = None
        for qn2, own, f3 in ix.functions_of(m):
            if qn2 == qn:
                owner = own
        for pr in consumer_cmp_problems(ix, owner, call, m, qn):
            r4.violate(key + ':' + pr[0], m.rel, call.lineno, '%s: %s' % (key, pr[1]))
    rules.append(r4)

    # ------------------------------------------------------------------------------------------ TAB / OPS
    r5 = Rule('C02-TAB', 'each _handle_*_method_<type>___<dunder>__ numeric handler passes an operator whose C-API function (PyNumber_<op> / PyObject_RichCompare(Py_<OP>)) '
                         'dispatches to that special method; the in-place and comparison names the templates build exist', floor=30)

    def tab_problem(dunder, op):
        api = capi_dunder(ctx, op)
        if api is None:
            return 'operator name %r has no C-API meaning: neither Py_%s, PyNumber_%s nor a __Pyx_PyNumber_%s macro exists' % (op, op.upper(), op, op)
        real = hasattr(int, dunder) or hasattr(float, dunder)
        if real and api != dunder:
            return 'handler for %s passes operator %r, which is CPython\'s %s: `x.%s(c)` and the operator dispatched to this handler compute the wrong operation' % (dunder, op, api, dunder)
        if 'Py_' + op.upper() not in P.richcmp_macros():
            ip = capi_dunder(ctx, op, inplace=True)
            if ip is None:
                return 'the templates call PyNumber_InPlace%s for inplace operations but no such C-API function or __Pyx_ macro exists' % op
            if ip != '__i' + api[2:]:
                return 'PyNumber_InPlace%s dispatches to %s, not to the in-place form of %s' % (op, ip, api)
        return None
    for name in sorted(set(handlers) | set(aliases)):
        tname, dunder, hops, hfn = handlers[aliases.get(name, name)]
        dunder = HANDLER_RE.match(name).group(2)
        for op in sorted(hops):
            key = 'Optimize.OptimizeBuiltinCalls.%s:%s' % (name, op)
            r5.inst(key, sample='%s passes %r' % (name, op))
            pr = tab_problem(dunder, op)
            if pr:
                r5.violate(key, REL_OPT, hfn.lineno, '%s: %s' % (name, pr))
    r5.positive_control(tab_problem('__sub__', 'Add') is not None and tab_problem('__sub__', 'Subtract') is None and tab_problem('__eq__', 'Ne') is not None,
                        '__sub__ handler passing Add')
    rules.append(r5)

    r6 = Rule('C02-OPS', 'every operator symbol that reaches a numeric handler (Visitor.find_special_method_for_binary_operator, CmpNode) is implemented by an operator '
                         'name with the special method Python uses for that symbol', floor=13)
    vis = ix.mod('Visitor')
    tab = tables.module_assign(vis.tree, 'find_special_method_for_binary_operator')
    if isinstance(tab, ast.Attribute) and isinstance(tab.value, ast.Dict):
        tab = tab.value
    if not isinstance(tab, ast.Dict):
        raise AnalysisError('Visitor.find_special_method_for_binary_operator is no longer a dict literal (.get)')
    by_dunder = {}
    for name in set(handlers) | set(aliases):
        by_dunder.setdefault(HANDLER_RE.match(name).group(2), set()).update(handlers[aliases.get(name, name)][2])

    def ops_problem(sym, op):
        want = P.dunder_of_symbol(sym)
        api = capi_dunder(ctx, op)
        if want is None:
            return 'operator symbol %r is not a Python binary operator' % sym
        if api != want:
            return 'Python evaluates `x %s c` through %s but the operator name %r passed for it means %s' % (sym, want, op, api)
        return None
    for k, v in zip(tab.keys, tab.values):
        sym, dunder = tables.literal(k), tables.literal(v)
        if not isinstance(sym, str) or dunder not in by_dunder:
            continue
        for op in sorted(by_dunder[dunder]):
            key = 'Visitor.find_special_method_for_binary_operator[%r]->%s:%s' % (sym, dunder, op)
            r6.inst(key, sample='%r -> %s -> %s' % (sym, dunder, op))
            pr = ops_problem(sym, op)
            if pr:
                r6.violate(key, vis.rel, k.lineno, 'operator table entry %r -> %s: %s' % (sym, dunder, pr))
    for m, qn, call, vals in ext_sites:
        for op, guard in sorted(vals.items()):
            syms = [v for v in guard.values() if isinstance(v, str)]
            if len(syms) != 1:
                raise AnalysisError('%s.%s: cannot tell which operator symbol selects %r' % (m.short, qn, op))
            key = '%s.%s:%r->%s' % (m.short, qn, syms[0], op)
            r6.inst(key, sample=key)
            pr = ops_problem(syms[0], op)
            if pr:
                r6.violate(key, m.rel, call.lineno, '%s.%s: %s' % (m.short, qn, pr))
    r6.positive_control(ops_problem('-', 'Add') is not None and ops_problem('/', 'Divide') is None and ops_problem('!=', 'Eq') is not None, "'-' implemented by Add")
    rules.append(r6)

    # ------------------------------------------------------------------------------------------ RANGE
    rules.append(rule_range(ctx, fn, fvar, points, trees, cop))
    # ------------------------------------------------------------------------------------------ SHIFT
    rules.append(rule_shift(ctx, cls, handlers, fw))
    # ------------------------------------------------------------------------------------------ SIB
    from ..rules import sC03
    rules.append(sC03.sib_with_helpers(ctx, 'C02-SIB')[0])
    # ------------------------------------------------------------------------------------------ ZDIV (rules/sC02.py)
    rules.append(sC02.rule_zdiv(ctx, fn, fvar, points, trees, cop, capi_dunder))
    rules.append(sC02.rule_fast(ctx, points, trees))
    # round 8: the digit comparison SELECTED for every admitted constant has that constant's digit count (seed C02k)
    from ..rules import s8C02
    _target = lambda n: isinstance(n, ast.Call) and _call_name(n) in ('load_cached', 'load')
    rules.append(s8C02.rule_cmpsel(ctx, points, trees, lambda op: admitted_maximum(fn, fvar, _target, op, [2 ** 31, 2 ** 63])[0]))
    rules.append(sC02.rule_order(ctx, fn, fvar, points, trees))
    rules.append(sC02.rule_join(ctx))
    rules.append(sC02.rule_mant(ctx, points, trees))
    rules.append(sC02.rule_inplace_flag(ctx, fn, fvar, points))
    from ..rules import fzero
    rules.append(fzero.rule_ident(ctx, 'C02-IDENT', floor=40))
    return rules


# ----------------------------------------------------------------------------------------------------------------- consumers
def consumer_method_problems(f2, call):
    """_optimise_num_binop: result unpacked as (cname, utility, extra, num_type); args = list(args) + extra under len(args) == 2."""
    problems = []
    res_name = None
    for s in walk_no_nested(f2):
        if isinstance(s, ast.Assign) and s.value is call and isinstance(s.targets[0], ast.Name):
            res_name = s.targets[0].id
    unpack = None
    for s in walk_no_nested(f2):
        if isinstance(s, ast.Assign) and isinstance(s.value, ast.Name) and s.value.id == res_name and isinstance(s.targets[0], ast.Tuple):
            unpack = [e.id if isinstance(e, ast.Name) else None for e in s.targets[0].elts]
    if not unpack or len(unpack) != 4:
        raise AnalysisError('%s: result of %s is not unpacked into four names' % (f2.name, DECIDER))
    cname_v, _, extra_v, _ = unpack
    ps = _params(f2)
    sub = [c for c in walk_no_nested(f2) if isinstance(c, ast.Call) and _call_name(c) == '_substitute_method_call']
    if len(sub) != 1:
        raise AnalysisError('%s: expected one _substitute_method_call' % f2.name)
    sub = sub[0]
    if not any(isinstance(a, ast.Name) and a.id == cname_v for a in sub.args):
        problems.append(('cname', 'the C name returned by %s is not the function passed to _substitute_method_call' % DECIDER))
    arg_names = [a.id for a in sub.args if isinstance(a, ast.Name)]
    concat = None
    for s in walk_no_nested(f2):
        if isinstance(s, ast.Assign) and isinstance(s.targets[0], ast.Name) and s.targets[0].id in arg_names and isinstance(s.value, ast.BinOp) \
                and isinstance(s.value.op, ast.Add):
            l, r = s.value.left, s.value.right
            lname = l.args[0].id if isinstance(l, ast.Call) and isinstance(l.func, ast.Name) and l.func.id in ('list', 'tuple') and l.args and isinstance(l.args[0], ast.Name) \
                else (l.id if isinstance(l, ast.Name) else None)
            if isinstance(r, ast.Name) and r.id == extra_v and lname is not None:
                concat = (s, lname)
    if concat is None:
        problems.append(('args', 'the argument list passed to _substitute_method_call is not `operands + extra_args`'))
        return problems
    operands = concat[1]
    conds = [pc for t, pc in P.path_conditions(f2, lambda n: n is concat[0].value)]
    if not conds:
        raise AnalysisError('%s: the argument concatenation is unreachable' % f2.name)
    typed = {'len(%s)' % operands: [0, 1, 2, 3]}
    ok_lengths = set()
    for subst, av, vals in P.truth_table([t for t, _ in conds[0]], typed):
        if P.conj_holds(conds[0], vals):
            ok_lengths.add(subst['len(%s)' % operands])
    if ok_lengths != {2}:
        problems.append(('operands', 'the call is built for operand lists of length %s, the C functions take exactly two operands' % sorted(ok_lengths)))
    return problems


def consumer_cmp_problems(ix, owner, call, m, qn):
    """CmpNode: (function, utility, extra_args, _) stored on self; generate_operation_code emits fn(op1, op2, <extra args joined>)."""
    problems = []
    if owner is None:
        raise AnalysisError('%s.%s is not a method' % (m.short, qn))
    fnode = None
    for qn2, own, f3 in ix.functions_of(m):
        if qn2 == qn:
            fnode = f3
    target = None
    for s in walk_no_nested(fnode):
        if isinstance(s, ast.Assign) and isinstance(s.targets[0], ast.Tuple) and isinstance(s.value, ast.Name):
            target = s.targets[0]
    if target is None or len(target.elts) != 4:
        raise AnalysisError('%s.%s: result of %s is not unpacked into four targets' % (m.short, qn, DECIDER))
    attrs = [e.attr if isinstance(e, ast.Attribute) else None for e in target.elts]
    fattr, xattr = attrs[0], attrs[2]
    if not fattr or not xattr:
        raise AnalysisError('%s.%s: C name / extra args are not stored on self' % (m.short, qn))
    found = False
    for c in [owner] + ix.subclasses(owner):
        for name, f4 in c.methods.items():
            for n in walk_no_nested(f4):
                if isinstance(n, ast.BinOp) and isinstance(n.op, ast.Mod) and isinstance(n.right, ast.Tuple) and \
                        any(isinstance(e, ast.Attribute) and e.attr == fattr for e in n.right.elts):
                    t = str_template(n)
                    if t is None:
                        continue
                    text, ph = t
                    idx = [i for i, e in enumerate(ph) if isinstance(e, ast.Attribute) and e.attr == fattr]
                    if not idx:
                        continue
                    found = True
                    # locate the call whose callee is that placeholder
                    pos = -1
                    for _ in range(idx[0] + 1):
                        pos = text.index(PLACEHOLDER, pos + 1)
                    if text[pos + 1:pos + 2] != '(':
                        problems.append(('emit', '%s.%s does not emit the special compare function as a call' % (c.qual, name)))
                        continue
                    rp = match_paren(text, pos + 1)
                    args = split_args(text[pos + 2:rp])
                    base = text[:pos + 2].count(PLACEHOLDER)
                    last = ph[base + len(args) - 1] if len(args) >= 1 and args[-1] == PLACEHOLDER else None
                    joined = last is not None and xattr in ast.unparse(last)
                    if last is not None and isinstance(last, ast.IfExp):
                        env = {}
                        for s in walk_no_nested(f4):
                            if isinstance(s, ast.Assign) and isinstance(s.targets[0], ast.Name):
                                env[s.targets[0].id] = s.value
                        body = last.body
                        if isinstance(body, ast.Name) and body.id in env:
                            body = env[body.id]
                        joined = xattr in ast.unparse(body) and 'join' in ast.unparse(body) and xattr in ast.unparse(last.test)
                    if len(args) != 3 or not joined:
                        problems.append(('emit', '%s.%s emits %s(%s): expected (operand1, operand2, ", ".join(extra args))' % (c.qual, name, fattr, ', '.join(args))))
    if not found:
        raise AnalysisError('no emission of self.%s found in the %s family' % (fattr, owner.qual))
    return problems


# ----------------------------------------------------------------------------------------------------------------- RANGE
HEADROOM_RE = re.compile(r'size\s*==\s*(\d+)\s*&&\s*8\s*\*\s*sizeof\s*\(\s*([\w ]+?)\s*\)\s*-\s*1\s*>\s*(\d+)\s*\*\s*PyLong_SHIFT\s*(?:\+\s*(\d+))?')
LONG_MIN_BITS = 32        # C11 5.2.4.2.1: LONG_MAX >= 2**31 - 1
LLONG_MIN_BITS = 64       # C11 5.2.4.2.1: LLONG_MAX >= 2**63 - 1


def pylong_shifts():
    import os
    p = os.path.join(tables.cpython_include(), 'cpython', 'longintrepr.h')
    try:
        txt = open(p, encoding='utf-8', errors='replace').read()
    except OSError:
        raise AnalysisError('CPython header cpython/longintrepr.h not found')
    vals = {int(v) for v in re.findall(r'^[ \t]*#[ \t]*define[ \t]+PyLong_SHIFT[ \t]+(\d+)', txt, re.M)}
    if not vals:
        raise AnalysisError('PyLong_SHIFT not found in longintrepr.h')
    return sorted(vals)


def admitted_maximum(fn, fvar, target_pred, op, extra_samples):
    """Largest |constant| for which the guards of fn let an int constant with operator `op` reach the target; also the
    text of the constant expression."""
    pcs = [pc for t, pc in P.path_conditions(fn, target_pred)]
    if not pcs:
        raise AnalysisError('%s: fast-path selection statement not found' % fn.name)
    best = None
    var = None
    for conds in pcs:
        tests = [t for t, _ in conds]
        crs = sorted({ast.unparse(n) for t in tests for n in ast.walk(t) if isinstance(n, ast.Attribute) and n.attr == 'constant_result'})
        consts = P.int_constants(tests)
        samples = P.boundary_samples(consts, extra_samples)
        ps = [a.arg for a in fn.args.args]
        typed = {ps[0]: [op], fvar: [False]}
        for c in crs:
            typed[c] = samples
        m = 0
        mine = [c for c in crs if not c.startswith(ps[4] + '.') and not c.startswith(ps[3] + '.')]
        for subst, av, vals in P.truth_table(tests, typed, focus=(conds, mine)):
            if P.conj_holds(conds, vals):
                for c in mine:
                    m = max(m, abs(subst[c]))
                    var = c
        if var is None:
            # no guard mentions the constant at all
            m = max(abs(x) for x in samples)
        best = m if best is None else max(best, m)
    return best, var, max(abs(x) for x in samples)


def rule_range(ctx, fn, fvar, points, trees, cop):
    r = Rule('C02-RANGE', 'integer constants admitted by optimise_numeric_binop fit a 32-bit C long, and |c| times any unpacked PyLong admitted by the '
                          'multiplication head-room test of PyLongBinop fits a 64-bit long long (PyLong_SHIFT 15 and 30)', floor=17)
    mul_ops = [op for op, c in cop['PyLongBinop'].items() if c == '*']
    if not mul_ops:
        raise AnalysisError('PyLongBinop has no multiplication operator')
    target = lambda n: isinstance(n, ast.Call) and _call_name(n) in ('load_cached', 'load')
    shifts = pylong_shifts()
    big = 2 ** (LLONG_MIN_BITS + 2)

    def checks(rule, m_adm, var, capped, expanded, op):
        key = 'cutoff:%s' % op
        rule.inst(key, sample='op=%s: |%s| <= %s admitted' % (op, var, m_adm if capped else 'unbounded'))
        if not capped or m_adm > 2 ** (LONG_MIN_BITS - 1) - 1:
            rule.violate(key + ':long', REL_OPT, fn.lineno,
                         '%s admits integer constants up to %s for op=%s, but the constant is passed as a C `long` (>= 32 bits only): on LLP64 targets '
                         '(Windows) 2**31 and above do not fit and the fast path computes with a truncated constant'
                         % (DECIDER, ('2**%d%+d' % (m_adm.bit_length() - 1, m_adm - 2 ** (m_adm.bit_length() - 1))) if capped else 'any size', op))
        found = 0
        for mm in HEADROOM_RE.finditer(strip_c_comments(expanded)):
            n, ctype, n2, h = int(mm.group(1)), mm.group(2), int(mm.group(3)), int(mm.group(4) or 0)
            found += 1
            key2 = 'headroom:%s:size%d:%s' % (op, n, ctype.replace(' ', '_'))
            rule.inst(key2, sample='%s: size == %d admitted when 8*sizeof(%s)-1 > %d*PyLong_SHIFT+%d' % (op, n, ctype, n2, h))
            widths = (4, 8) if ctype.strip() == 'long' else (8,)
            for sh in shifts:
                for w in widths:
                    if 8 * w - 1 > n2 * sh + h:
                        worst = (2 ** (n * sh) - 1) * (m_adm if capped else big)
                        if worst > 2 ** (LLONG_MIN_BITS - 1) - 1:
                            rule.violate(key2, REL_C, 0,
                                         'PyLongBinop(%s): a %d-digit PyLong (PyLong_SHIFT %d, sizeof(%s) %d) passes the head-room test `8*sizeof(%s)-1 > %d*PyLong_SHIFT+%d` '
                                         'but multiplied by an admitted constant of magnitude %s it needs %d bits: signed overflow in the long long multiplication'
                                         % (op, n, sh, ctype, w, ctype, n2, h, m_adm if capped else 'unbounded', worst.bit_length() + 1))
                            break
                else:
                    continue
                break
        key3 = 'single-digit:%s' % op
        rule.inst(key3, sample='%s: one digit times constant' % op)
        worst = (2 ** max(shifts) - 1) * (m_adm if capped else big)
        if worst > 2 ** (LLONG_MIN_BITS - 1) - 1:
            rule.violate(key3, REL_OPT, fn.lineno, 'a one-digit PyLong (no head-room test) times an admitted constant of magnitude %s overflows a 64-bit long long' % (m_adm if capped else 'unbounded'))
        return found
    total = 0
    for op in sorted(mul_ops):
        m_adm, var, top = admitted_maximum(fn, fvar, target, op, [2 ** 31, 2 ** 63])
        capped = m_adm < top
        pts = [p for p in points if p.op == op and p.section == 'PyLongBinop' and p.order == 'ObjC' and p.ret_obj]
        if not pts:
            raise AnalysisError('multiplication never reaches PyLongBinop')
        text = P.tpl_expand(trees[('PyLongBinop', 'impl')], dict(op=op, order='ObjC', ret_type=P.Obj(is_pyobject=True)))
        total += checks(r, m_adm, var, capped, text, op)
    if total < 4:
        raise AnalysisError('PyLongBinop(Multiply): only %d head-room tests of the form `size == N && 8*sizeof(T)-1 > N*PyLong_SHIFT+H` found' % total)
    # all other integer operators: the constant must fit a C long
    for op in sorted({p.op for p in points if not p.is_float} - set(mul_ops)):
        m_adm, var, top = admitted_maximum(fn, fvar, target, op, [2 ** 31, 2 ** 63])
        key = 'cutoff:%s' % op
        r.inst(key, sample='op=%s: |%s| <= %s' % (op, var, m_adm))
        if m_adm > 2 ** (LONG_MIN_BITS - 1) - 1:
            r.violate(key + ':long', REL_OPT, fn.lineno,
                      '%s admits integer constants of magnitude %s for op=%s, but the constant is passed as a C `long` (>= 32 bits only): '
                      'on LLP64 targets the fast path computes with a truncated constant' % (DECIDER, m_adm if m_adm < top else 'unbounded', op))
    pc = Rule('x', 'x')
    checks(pc, 2 ** 31, 'c', True, 'if (size == 2 && 8 * sizeof(long) - 1 > 2 * PyLong_SHIFT+2) {', 'Multiply')
    r.positive_control(any(':long' in f.construct for f in pc.findings) and any(f.construct.startswith('headroom:') for f in pc.findings), 'cut-off 2**31 with head-room 2')
    return r


# ----------------------------------------------------------------------------------------------------------------- SHIFT
def rule_shift(ctx, cls, handlers, fw):
    r = Rule('C02-SHIFT', 'handlers passing a shift operator only do so for an integer constant count on the right-hand side within 0..63 (left shift; >= 0 for right shift)', floor=2)
    shift_ops = None

    def problems(hfn, op, left_shift):
        out = []
        calls = [c for c in walk_no_nested(hfn) if isinstance(c, ast.Call) and _call_name(c) in fw and c.args and isinstance(c.args[0], ast.Constant) and c.args[0].value == op]
        ps = _params(hfn)
        args = ps[2] if len(ps) > 2 else 'args'
        for c in calls:
            pcs = [pc for t, pc in P.path_conditions(hfn, lambda n: n is c)]
            if not pcs:
                continue        # unreachable call
            conds = pcs[0]
            tests = [t for t, _ in conds]
            cr = '%s[1].constant_result' % args
            samples = P.boundary_samples(P.int_constants(tests), [0, 63, 64])
            inst_atoms = [ast.unparse(l) for l in P.formula_leaves(tests)
                          if isinstance(l, ast.Call) and isinstance(l.func, ast.Name) and l.func.id == 'isinstance' and ast.unparse(l.args[0]) == '%s[1]' % args]
            hcr = '%s[1].has_constant_result()' % args
            typed = {cr: samples, 'len(%s)' % args: [1, 2, 3], hcr: [False, True]}
            adm = []
            for subst, av, vals in P.truth_table(tests, typed):
                if P.conj_holds(conds, vals):
                    adm.append((subst, av))
            if not adm:
                continue
            if not inst_atoms or any(not all(av.get(a) for a in inst_atoms) for _, av in adm) or \
                    not any('IntNode' in a for a in inst_atoms):
                out.append(('rhs-int', 'reaches the %s fast path without having established isinstance(%s[1], IntNode): with the constant on the left '
                                       '(`c %s x`) the unbounded run-time operand becomes the shift count' % (op, args, '<<' if left_shift else '>>')))
            if any(not s[hcr] for s, _ in adm):
                out.append(('const', 'reaches the %s fast path without has_constant_result() on the count' % op))
            vals_adm = sorted({s[cr] for s, _ in adm})
            lo, hi = min(vals_adm), max(vals_adm)
            if lo < 0:
                out.append(('negative', 'admits negative shift counts (%d): undefined behaviour in C, ValueError in Python' % lo))
            if left_shift and hi > LLONG_MIN_BITS - 1:
                out.append(('count', 'admits left-shift counts up to %s: `lla << llb` with a count >= 64 is undefined for a 64-bit long long (C11 6.5.7p3)'
                            % (hi if hi < max(samples) else 'unbounded')))
        return out
    n = 0
    for name, (tname, dunder, hops, hfn) in sorted(handlers.items()):
        for op in sorted(hops):
            api = P.dunder_of_capi('PyNumber_' + op) if ('PyNumber_' + op) in tables.cpython_api() else None
            if api not in ('__lshift__', '__rshift__'):
                continue
            n += 1
            key = 'Optimize.OptimizeBuiltinCalls.%s:%s' % (name, op)
            r.inst(key, sample='%s guards %s' % (name, op))
            for k, msg in problems(hfn, op, api == '__lshift__'):
                r.violate(key + ':' + k, REL_OPT, hfn.lineno, '%s %s' % (name, msg))
    pcf = ast.parse("def h(self, node, function, args, is_unbound_method):\n"
                    "    if len(args) != 2:\n        return node\n"
                    "    if not args[1].has_constant_result() or not (1 <= args[1].constant_result <= 64):\n        return node\n"
                    "    return self._optimise_num_binop('Lshift', node, function, args, is_unbound_method)\n").body[0]
    got = {k for k, _ in problems(pcf, 'Lshift', True)}
    r.positive_control(got == {'rhs-int', 'count'}, 'missing isinstance guard and count 64')
    return r
