"""C28 — extension-type operators: slot tables vs CPython struct layout and the data model, the generated
rich-comparison function evaluated on a total order, the binary-operator slot template and its instantiation."""
import ast, itertools, re

from ..core import Rule, AnalysisError, node_src
from ..engine import tables
from ..engine.cutil import split_args
from ..rules import pC28 as H
from ..rules.pC28 import MiniPy, NS, OPQ, Env, Closure, Raised, Stopped, Unsupported, NOT_HANDLED

ID = 'C28'
TECHNIQUE = ('table comparison against the installed CPython headers and the frozen data-model table; evaluation of the compiler\'s '
             'generator functions (generate_richcmp_function, generate_binop_function, BinopSlot.__init__) by a small AST evaluator on mock '
             'scopes, followed by evaluation of the emitted C switch on the three outcomes of a total order; path exploration of the three '
             'instantiations of the BinopSlot template (mini Tempita expansion, #if arms enumerated, type-test flags forked over {0,1}, call results tracked as tested / untested against NotImplemented); '
             'the total_ordering root read off functools itself; predicate agreement between the emitter and the slot-table side of each synthesised slot function')
DECIDES = ('(ORD) every slot table of TypeSlots.SlotTable lists its rows in the member order of the CPython struct it initialises '
           '(PyNumberMethods, PySequenceMethods, PyMappingMethods, PyAsyncMethods, PyBufferProcs, PyTypeObject from the first table row on), each '
           'SuiteSlot pairs the table with the struct its tp_as_* member points to, BinopSlot rows only occur in the number suite; '
           '(DUN) every slot row names the special method(s) the data model assigns to that slot, incl. the reflected name computed by BinopSlot.__init__, '
           'the Py2 fallback names, and richcmp_special_methods = the six rich comparison methods; '
           '(SIG) the Signature of every row has the C parameter/return types of the function-pointer typedef of its struct member; '
           '(TO) for every subset of the six comparison methods, with and without total_ordering (TOTAL_ORDERING has all 12 rows), the C switch emitted by '
           'generate_richcmp_function returns, for each op and each outcome a<b, a==b, a>b, the truth value of that comparison (direct methods, '
           '__ne__ from __eq__, the derived orderings), passes NotImplemented through, calls methods with (o1, o2) in order, and handles every op that the '
           'equivalent Python class handles; '
           '(TPL) every variable the BinopSlot template reads is supplied by generate_binop_function, slot_type and the arity of the generated function are those of '
           'the header typedef of the slot, call_left/call_right call the left/reflected method with (left, right)/(right, left) and the base-type helper with (left, right); '
           '(DISP) on every path of the generated slot function, for overloads (1,1), (1,0), (0,1): call_left and call_right are each evaluated at most once, a user method only '
           'under a flag computed from a type test of its self operand, and the function does not give up with NotImplemented while a set flag\'s call has not been tried; '
           'the result of a call is returned without a NotImplemented test only when the other call has been tried or the operands have the same type; every flag expression type-checks '
           'one operand only and contains a test that admits subclass instances (per #if arm); {{func_name}}_maybe_call_slot passes its (left, right) on in order; '
           '(TO, call order) under total_ordering every derived comparison asks first the user method functools.total_ordering would use (root read off the standard library); '
           '(TPL) also over entries that are not special methods (treated as undefined); '
           '(GEN) ModuleNode emits tp_richcompare / the nb_* slot function under the same defines_any_special name set under which RichcmpSlot / SyntheticSlot.slot_code name it in the slot; '
           'get_special_method_signature gives the six comparison methods a binary special signature.')
NOT_DECIDED = ('which of call_left/call_right runs first inside the BinopSlot template for subclass operands; the run-time outcome for same-exact-type operands beyond the structural rule C28-SAME (registered after the repair e7f0c120c); '
               'which of __eq__/__ne__ is consulted by a derived ordering; slot inheritance and the type-spec path (CYTHON_USE_TYPE_SPECS) beyond slot names; '
               'in-place operator fallback (done by CPython itself); comparison methods of extern base types (`!=` derived from __eq__ although the extern parent defines __ne__).')
ASSUMPTIONS = ['the installed CPython headers (sysconfig include dir) describe the struct layout the generated C is compiled against',
               'user comparison methods are consistent with one total order (the quantifier of the truth-table clause)']

MUTATIONS = [
    # (file, edit, rule that reported it) — each tried on a scratch copy; all reported with the edited construct in the message
    ('Cython/Compiler/TypeSlots.py', 'swap the rows nb_and / nb_xor of PyNumberMethods', 'C28-ORD'),
    ('Cython/Compiler/TypeSlots.py', 'delete EmptySlot("sq_slice") from PySequenceMethods', 'C28-ORD'),
    ('Cython/Compiler/TypeSlots.py', 'SuiteSlot(self.PyMappingMethods, .., "tp_as_sequence") / SuiteSlot(self.PySequenceMethods, .., "tp_as_mapping") (tables swapped)', 'C28-ORD'),
    ('Cython/Compiler/TypeSlots.py', 'delete the first row ConstructorSlot("tp_dealloc", ...)', 'C28-ORD'),
    ('Cython/Compiler/TypeSlots.py', 'move tp_iter after tp_iternext', 'C28-ORD'),
    ('Cython/Compiler/TypeSlots.py', 'BinopSlot(bf, "nb_subtract", "__sub__") -> "__mul__"', 'C28-DUN'),
    ('Cython/Compiler/TypeSlots.py', "right_method = '__r' + left_method[2:]  ->  '__r' + left_method[3:]", 'C28-DUN'),
    ('Cython/Compiler/TypeSlots.py', 'richcmp_special_methods: drop "__ge__"', 'C28-DUN + C28-TO'),
    ('Cython/Compiler/TypeSlots.py', '"__ixor__" -> "__ixr__"; fallback="__long__" -> "__nonzero__"', 'C28-DUN'),
    ('Cython/Compiler/TypeSlots.py', 'MethodSlot(unaryfunc, "nb_negative", ...) -> MethodSlot(binaryfunc, ...)', 'C28-SIG'),
    ('Cython/Compiler/TypeSlots.py', 'lenfunc = Signature("T", "z") -> Signature("T", "i")', 'C28-SIG'),
    ('Cython/Compiler/TypeSlots.py', 'ptf = powternaryfunc if old_binops else ... -> binaryfunc if old_binops else ...', 'C28-SIG'),
    ('Cython/Compiler/ModuleNode.py', "TOTAL_ORDERING[('__lt__', '__gt__')]: (True, '&&', True) -> (True, '&&', False)", 'C28-TO'),
    ('Cython/Compiler/ModuleNode.py', "TOTAL_ORDERING[('__le__', '__gt__')]: (True, '', None) -> (False, '', None);  [('__gt__', '__ge__')]: '||' -> '&&'", 'C28-TO'),
    ('Cython/Compiler/ModuleNode.py', "TOTAL_ORDERING: delete the row ('__ge__', '__lt__')", 'C28-TO'),
    ('Cython/Compiler/ModuleNode.py', "generate_richcmp_function: ('!!' if invert_comp else '!') -> ('!' if invert_comp else '!!'); same for the '||' prefix", 'C28-TO'),
    ('Cython/Compiler/ModuleNode.py', 'generate_richcmp_function: remove `invert_equals = not invert_equals` in the __ne__ fallback', 'C28-TO'),
    ('Cython/Compiler/ModuleNode.py', 'generate_richcmp_function: NE-from-EQ block "ret = (b) ? Py_False : Py_True" -> "? Py_True : Py_False"', 'C28-TO'),
    ('Cython/Compiler/ModuleNode.py', 'generate_richcmp_function: "return %s(o1, o2);" -> "(o2, o1)"', 'C28-TO'),
    ('Cython/Compiler/ModuleNode.py', 'generate_richcmp_function: one-stage branch `if invert_comp` -> `if not invert_comp`; `ret = __Pyx_NewRef(Py_False)` -> Py_True', 'C28-TO'),
    ('Cython/Compiler/ModuleNode.py', "generate_richcmp_function: cmp_type = ...upper() -> ...upper()[::-1] (case Py_TL) / L<->G swapped labels", 'C28-TO'),
    ('Cython/Compiler/ModuleNode.py', "generate_richcmp_function: `cmp_type in ('NE', 'EQ')` -> ('NE', 'EQ', 'LE') (derived __le__ never generated)", 'C28-TO'),
    ('Cython/Compiler/ModuleNode.py', 'generate_binop_function: "right, left" if reverse else "left, right" -> branches swapped', 'C28-TPL'),
    ('Cython/Compiler/ModuleNode.py', 'generate_binop_function: context key "overloads_right" renamed to "overload_right"', 'C28-TPL'),
    ('Cython/Compiler/ModuleNode.py', "generate_binop_function: slot_type = 'ternaryfunc' -> 'binaryfunc' in the pow branch; extra_arg = ', extra_arg' -> ''", 'C28-TPL'),
    ('Cython/Compiler/ModuleNode.py', 'generate_binop_function: "call_right": call_slot_method(slot.left_slot.method_name, reverse=True); overloads_left computed from right_slot', 'C28-TPL'),
    ('Cython/Compiler/ModuleNode.py', 'generate_binop_function: base-type helper called with (..., right, left)', 'C28-TPL'),
    ('Cython/Utility/ExtensionTypes.c', 'BinopSlot: {{extra_arg_decl}} removed from the slot function head; {{overloads_left}} misspelt; head parameters (right, left)', 'C28-TPL'),
    ('Cython/Utility/ExtensionTypes.c', 'seed C28b: `maybe_self_is_right = 0;` after the failed reflected-first call removed', 'C28-DISP call_right:once'),
    ('Cython/Utility/ExtensionTypes.c', 'BinopSlot: final `if (maybe_self_is_right)` -> `if (maybe_self_is_left)`', 'C28-DISP self + tried'),
    ('Cython/Utility/ExtensionTypes.c', 'BinopSlot: the `{{if overloads_left}} maybe_self_is_right = ...{{endif}}` block deleted', 'C28-DISP tried (call_right unreachable)'),
    ('Cython/Utility/ExtensionTypes.c', 'BinopSlot: call_left block duplicated', 'C28-DISP call_left:once'),
    ('Cython/Utility/ExtensionTypes.c', 'BinopSlot: reflected-first branch guarded by maybe_self_is_left', 'C28-DISP call_right:self'),
    ('Cython/Utility/ExtensionTypes.c', 'BinopSlot: maybe_self_is_right computed from PyType_IsSubtype(Py_TYPE(left), ...)', 'C28-DISP call_right:self'),
    ('Cython/Utility/ExtensionTypes.c', 'BinopSlot: `return res;` right after call_left (no NotImplemented test)', 'C28-DISP call_left:result-untested (fourth round)'),
    # fourth round (the full list with patches is in /verif/mutants/C28/)
    ('Cython/Compiler/ModuleNode.py', 'seed C28d: total_ordering source = first of richcmp_special_methods order; min(comp_names)', 'C28-TO richcmp:source'),
    ('Cython/Utility/ExtensionTypes.c', 'maybe_call_slot calls slot(right, left); late flag uses Py_TYPE(right) == type; own-slot shortcut of the right flag tests Py_TYPE(left)', 'C28-DISP maybe_call_slot:args / flags:no-subtype-test / flags:mixed-operands'),
    ('Cython/Compiler/ModuleNode.py', 'slot function generated only for defines_any_special([left method]); TypeSlots: RichcmpSlot.slot_code tests [\'__eq__\'] only; get_special_method_signature without the richcmp branch', 'C28-GEN (3 variants)'),
    ('Cython/Compiler/ModuleNode.py', 'get_slot_method_cname ignores entry.is_special', 'C28-TPL (non-special entry)'),
    ('Cython/Compiler/ModuleNode.py', '`!=` derived from __eq__ also with an extern parent', 'MISSED (run-time methods of the extern base)'),
    # behaviour-preserving edits that stay silent
    ('Cython/Utility/ExtensionTypes.c', 'BinopSlot: flags and res renamed; reset replaced by finishing inside the branch (`res = call_left; return res;`); final if inverted with early return; `res == Py_NotImplemented` with else-return', 'silent'),
    ('Cython/Utility/ExtensionTypes.c', 'BinopSlot: the FINDING_1 patch (`same_type` local, `&& !same_type`, `|| same_type`)', 'silent'),
    ('Cython/Compiler/ModuleNode.py', 'rename locals comp_entry/invert_comp/ordering_source/cmp_type in generate_richcmp_function', 'silent'),
    ('Cython/Compiler/ModuleNode.py', 'reorder rows of TOTAL_ORDERING; `if invert_equals is not None` -> `in (True, False)`; "order_res ? Py_False : Py_True" -> "(!order_res) ? Py_True : Py_False"', 'silent'),
    ('Cython/Compiler/ModuleNode.py', 'case label emitted with an f-string; "PyObject *ret;" + "ret = f(..)" merged into one declaration with initialiser', 'silent'),
    ('Cython/Compiler/TypeSlots.py', 'EmptySlot("sq_slice") -> EmptySlot("was_sq_slice"); right_method built with an f-string; Signature definitions reordered; a row written with keyword arguments', 'silent'),
    ('Cython/Compiler/ModuleNode.py', 'generate_binop_function: context dict built in a local variable first, call_slot_method renamed', 'silent'),
    ('Cython/Utility/ExtensionTypes.c', 'BinopSlot: local C variable renamed', 'silent'),
]


# seventh round (seed C28j, sa/rules/s7C28.py; mutants/C28/richcmp-ident-*, richcmp-*-shortcut, keep-richcmp-*)
TECHNIQUE += ('; seventh round: the emitted tp_richcompare switch evaluated under method answers given by name only, for four operand configurations (distinct objects, the same object twice, '
              'other type, None) and compared between the configurations (operand opacity)')
DECIDES += (' (OPERANDS) for every subset of the six comparison methods, with and without total_ordering, every op and the answer profiles {a<b, a==b, a>b, all NotImplemented, all False, all True}: '
            'the generated tp_richcompare returns the same object after the same sequence of user-method calls whether the operands are two distinct instances, one object on both sides (`x != x` calls '
            '__eq__(x, x) like object.__ne__; no identity shortcut), an instance and an object of another type, or an instance and None.')
NOT_DECIDED = NOT_DECIDED + '; operand tests the C evaluator does not model (anything but ==, != between operands / None and Py_TYPE end in ANALYSIS-ERROR); identity or type shortcuts inside the BinopSlot template beyond C28-DISP / C28-SAME.'
MUTATIONS += [
    ('Cython/Compiler/ModuleNode.py', 'seed C28j: `if (o1 == o2) return False;` in the != derived from __eq__; the same shortcut in a direct `case Py_EQ`, in the derived <= / >= (True) and < / > (False), before the equality stage of a two-stage derived ordering, as a conditional expression around the __eq__ call', 'C28-OPERANDS richcmp:operands:same:<case kind>'),
    ('Cython/Compiler/ModuleNode.py', '`if (o2 == Py_None) return True;` in the derived !=; `if (Py_TYPE(o1) != Py_TYPE(o2)) return NotImplemented;` in front of a user __eq__/__ne__', 'C28-OPERANDS richcmp:operands:none:<case kind>'),
    ('Cython/Compiler/ModuleNode.py', 'NULL guard of the operands in front of the switch; the shortcut emitted as a C comment; the != block extracted into a local helper with early return', 'silent'),
]


# ======================================================================================= extraction of the slot tables
class Row:
    def __init__(self, **kw):
        self.__dict__.update(kw)


def _lit(n):
    return tables.literal(n) if n is not None else None


def bind_call(ix, cls, call):
    """Bind the arguments of a constructor call to the parameter names of cls.__init__ (found along the MRO)."""
    r = ix.find_method(cls, '__init__')
    if r is None:
        raise AnalysisError('%s has no __init__' % cls.qual)
    fn = r[1]
    params = [a.arg for a in fn.args.args][1:]
    bound = {}
    for p, a in zip(params, call.args):
        bound[p] = a
    for k in call.keywords:
        if k.arg:
            bound[k.arg] = k.value
    return bound, params


def extract_tables(ctx):
    ix = ctx.index
    m = ix.mod('Compiler.TypeSlots')
    st = ix.cls('Compiler.TypeSlots', 'SlotTable')
    init = st.methods.get('__init__')
    if init is None:
        raise AnalysisError('TypeSlots.SlotTable.__init__ vanished')
    sigs = {}
    for name, node in m.bindings.items():
        if isinstance(node, ast.Call) and isinstance(node.func, ast.Name) and node.func.id == 'Signature' and len(node.args) >= 2:
            a, r = _lit(node.args[0]), _lit(node.args[1])
            if isinstance(a, str) and isinstance(r, str):
                sigs[name] = (a, r)
    if len(sigs) < 30:
        raise AnalysisError('only %d module-level Signature(...) definitions found in TypeSlots' % len(sigs))
    alias = {}      # local name in __init__ -> {old_binops value -> signature name}
    for n in init.body:
        if isinstance(n, ast.Assign) and len(n.targets) == 1 and isinstance(n.targets[0], ast.Name):
            v = n.value
            if isinstance(v, ast.IfExp) and isinstance(v.body, ast.Name) and isinstance(v.orelse, ast.Name) and isinstance(v.test, ast.Name):
                alias[n.targets[0].id] = {True: v.body.id, False: v.orelse.id, 'test': v.test.id}
            elif isinstance(v, ast.Name) and v.id in sigs:
                alias[n.targets[0].id] = {True: v.id, False: v.id, 'test': None}
    tabs = {}
    for n in init.body:
        if isinstance(n, ast.Assign) and len(n.targets) == 1 and isinstance(n.targets[0], ast.Attribute) and \
                isinstance(n.targets[0].value, ast.Name) and n.targets[0].value.id == 'self' and isinstance(n.value, (ast.Tuple, ast.List)):
            rows = []
            for e in n.value.elts:
                if not (isinstance(e, ast.Call) and isinstance(e.func, ast.Name) and e.func.id in m.classes):
                    rows = None
                    break
                rows.append(parse_row(ix, m, e, sigs, alias))
            if rows:
                tabs[n.targets[0].attr] = rows
    return m, st, init, sigs, tabs


def parse_row(ix, m, call, sigs, alias):
    cls = m.classes[call.func.id]
    bound, params = bind_call(ix, cls, call)
    names = {k.name for k in ix.mro(cls)}
    kind = ('suite' if 'SuiteSlot' in names else 'empty' if 'EmptySlot' in names else 'binop' if 'BinopSlot' in names else
            'method' if 'MethodSlot' in names else 'synthetic' if 'SyntheticSlot' in names else 'other')
    slot_node = bound.get('slot_name', bound.get('name', call.args[0] if call.args and 'slot_name' not in params else None))
    slot = _lit(slot_node)
    if not isinstance(slot, str):
        raise AnalysisError('slot table row %s: slot name is not a string literal' % node_src(call, 60))
    sig = bound.get('signature')
    signames = None
    if isinstance(sig, ast.Name):
        if sig.id in alias:
            signames = {alias[sig.id][True], alias[sig.id][False]}
        elif sig.id in sigs:
            signames = {sig.id}
    dunders = None
    if kind == 'method':
        dunders = [_lit(bound.get('method_name'))]
    elif kind == 'binop':
        dunders = [_lit(bound.get('left_method'))]
    elif kind == 'synthetic':
        dunders = _lit(bound.get('user_methods'))
    elif 'method' in bound:
        dunders = [_lit(bound['method'])]
    sub = bound.get('sub_slots')
    return Row(cls=cls, kind=kind, slot=slot, call=call, line=call.lineno, sig_node=sig, signames=signames, dunders=dunders,
               fallback=_lit(bound.get('fallback')), ifdef=_lit(bound.get('ifdef')),
               sub_table=sub.attr if isinstance(sub, ast.Attribute) else None,
               slot_type=_lit(bound.get('slot_type')), cast_cname=_lit(bound.get('cast_cname')))


# ======================================================================================= ORD
def order_problems(rows, members, partial_tail=False):
    """rows: [Row]; members: [(name, type)] of the C struct.  -> [(key slot, message)]"""
    names = [n for n, _ in members]
    kept = [r for r in rows if r.ifdef is None or r.slot in names]
    probs = []
    for i, r in enumerate(kept):
        if r.kind != 'empty' and r.slot not in names:
            probs.append((r.slot, 'row %r is not a member of the C struct (members: ... %s ...)' % (r.slot, ', '.join(names[max(0, i - 1):i + 2]))))
    if probs:
        return probs
    if len(kept) != len(names):
        have = {r.slot for r in kept}
        missing = [n for n in names if n not in have]
        # EmptySlot rows may carry historical names; align by position to find where the table and the struct diverge
        for i in range(min(len(kept), len(names))):
            if kept[i].kind != 'empty' and kept[i].slot != names[i]:
                probs.append((names[i], 'the table has %d rows but the struct has %d members: at position %d the struct has member %r where the table has the row for %r '
                              '(a row was dropped or added; every later initialiser lands in the wrong member)' % (len(kept), len(names), i, names[i], kept[i].slot)))
                return probs
        probs.append((missing[0] if missing else kept[-1].slot, 'the table has %d rows but the struct has %d members (%s)' % (
            len(kept), len(names), ('no row for ' + ', '.join(missing[:4])) if missing else 'surplus rows at the end')))
        return probs
    for i, r in enumerate(kept):
        if r.kind != 'empty' and r.slot != names[i]:
            probs.append((r.slot, 'row %r is at position %d, where the C struct has member %r: the positional initialiser stores the function in the wrong slot' % (r.slot, i, names[i])))
        elif r.kind == 'empty' and r.ifdef is not None and r.slot != names[i]:
            probs.append((r.slot, 'conditional row %r is at position %d, where the C struct has member %r' % (r.slot, i, names[i])))
    return probs


def rule_ORD(ctx, ext):
    m, st, init, sigs, tabs = ext
    rel = m.rel
    r = Rule('C28-ORD', 'slot tables of TypeSlots.SlotTable follow the member order of the CPython structs they initialise; SuiteSlots pair table and struct', floor=105)
    structs = H.cpython_structs()
    if 'slot_table' not in tabs:
        raise AnalysisError('SlotTable.slot_table not found')
    main = tabs['slot_table']
    suites = [x for x in main if x.kind == 'suite']
    if len(suites) < 5:
        raise AnalysisError('only %d SuiteSlot rows in SlotTable.slot_table' % len(suites))
    tmembers = structs['PyTypeObject']
    tnames = [n for n, _ in tmembers]
    # main table: from its first row on
    first = main[0].slot
    if first not in tnames:
        r.violate('SlotTable.slot_table:' + first, rel, main[0].line, 'first row %r of the main slot table is not a member of PyTypeObject' % first)
    else:
        p = tnames.index(first)
        head = tnames[:p]
        r.inst('SlotTable.slot_table:start', sample='main table starts at %s (after %s)' % (first, head[-1] if head else '-'))
        if not head or head[-1] != 'tp_itemsize':
            r.violate('SlotTable.slot_table:start', rel, main[0].line,
                      'the main slot table starts with %r, but generate_typeobj_definition emits tp_name/tp_basicsize/tp_itemsize itself and then the table: '
                      'the first row must be the member after tp_itemsize (%r)' % (first, tnames[tnames.index('tp_itemsize') + 1] if 'tp_itemsize' in tnames else '?'))
        for row in main:
            r.inst('SlotTable.slot_table:' + row.slot, sample='slot_table: %s' % row.slot)
        for slot, msg in order_problems(main, tmembers[p:]):
            r.violate('SlotTable.slot_table:' + slot, rel, next((x.line for x in main if x.slot == slot), main[0].line), 'PyTypeObject: ' + msg)
    # suites
    ttype = dict(tmembers)
    for s in suites:
        key = 'SlotTable.suite:' + s.slot
        r.inst(key, sample='%s -> table %s as %s' % (s.slot, s.sub_table, s.cast_cname or s.slot_type))
        if s.sub_table not in tabs:
            raise AnalysisError('SuiteSlot %s: sub-slot table self.%s not found' % (s.slot, s.sub_table))
        mt = ttype.get(s.slot)
        if mt is None:
            continue    # reported by the order check
        sname = mt.replace('*', '').strip()
        if sname not in structs:
            raise AnalysisError('PyTypeObject.%s has type %r, whose struct definition was not parsed' % (s.slot, mt))
        if (s.cast_cname or s.slot_type) != sname:
            r.violate(key + ':type', rel, s.line, 'SuiteSlot %s declares its substructure as %r but PyTypeObject.%s points to a %s' % (s.slot, s.cast_cname or s.slot_type, s.slot, sname))
        rows = tabs[s.sub_table]
        for row in rows:
            r.inst('SlotTable.%s:%s' % (s.sub_table, row.slot), sample='%s: %s' % (s.sub_table, row.slot))
        for slot, msg in order_problems(rows, structs[sname]):
            r.violate('SlotTable.%s:%s' % (s.sub_table, slot), rel, next((x.line for x in rows if x.slot == slot), s.line),
                      '%s (suite %s, table self.%s): %s' % (sname, s.slot, s.sub_table, msg))
    # binop rows live in the number suite only (the template and the generator hard-wire tp_as_number / PyNumberMethods)
    num = [s for s in suites if s.slot == 'tp_as_number']
    for tname, rows in tabs.items():
        for row in rows:
            if row.kind == 'binop':
                key = 'SlotTable.%s:%s:binop-home' % (tname, row.slot)
                r.inst(key)
                if not num or tname != num[0].sub_table:
                    r.violate(key, rel, row.line, 'BinopSlot %s is in table self.%s, but binary-operator slot functions are only generated for (and looked up in) the tp_as_number suite' % (row.slot, tname))
    # positive control: swapping two rows of the number table must be noticed
    if num:
        rows = list(tabs[num[0].sub_table])
        idx = [i for i, x in enumerate(rows) if x.kind != 'empty']
        rows[idx[1]], rows[idx[2]] = rows[idx[2]], rows[idx[1]]
        r.positive_control(bool(order_problems(rows, structs['PyNumberMethods'])), 'two swapped rows of the number table')
    return r


# ======================================================================================= DUN
def typeslots_hook(ix, m, glob):
    """Evaluator hook: constructing a TypeSlots class runs its __init__ (along the MRO) on a mock instance."""
    def hook(interp, call, env):
        f = call.func
        target = None
        explicit_self = False
        if isinstance(f, ast.Name) and f.id in m.classes and env.get(f.id) is OPQ:
            target = m.classes[f.id]
        elif isinstance(f, ast.Attribute) and f.attr == '__init__' and isinstance(f.value, ast.Name) and f.value.id in m.classes:
            target, explicit_self = m.classes[f.value.id], True
        elif isinstance(f, ast.Attribute) and f.attr == '__init__' and isinstance(f.value, ast.Call) and isinstance(f.value.func, ast.Name) and f.value.func.id == 'super':
            raise Unsupported('super().__init__ in a slot class')
        if target is None:
            return NOT_HANDLED
        args = interp._seq(call.args, env)
        kwargs = {}
        for k in call.keywords:
            v = interp.eval(k.value, env)
            if k.arg is None:
                if isinstance(v, dict):
                    kwargs.update(v)
            else:
                kwargs[k.arg] = v
        r = ix.find_method(target, '__init__')
        if r is None:
            return NS(target.name)
        if explicit_self:
            interp.call_closure(Closure(r[1], Env(None, glob)), args, kwargs)
            return None
        obj = NS(target.name, _cls=target)
        interp.call_closure(Closure(r[1], Env(None, glob)), [obj] + list(args), kwargs)
        return obj
    return hook


def binop_methods(ctx, ext, left, slot='nb_x'):
    """Evaluate BinopSlot.__init__ for one left method name -> (user_methods, left_slot method, right_slot method)."""
    ix = ctx.index
    m = ext[0]
    bs = m.classes.get('BinopSlot')
    if bs is None or '__init__' not in bs.methods:
        raise AnalysisError('TypeSlots.BinopSlot.__init__ vanished')
    glob = ctx.memo(('C28-globals', m.rel), lambda: H.module_globals(ix, m))
    interp = MiniPy(glob, hook=typeslots_hook(ix, m, glob))
    obj = NS('BinopSlot')
    bound_params = [a.arg for a in bs.methods['__init__'].args.args][1:]
    vals = {'signature': NS('sig'), 'slot_name': slot, 'left_method': left, 'method_name_to_slot': {}}
    try:
        args = [obj] + [vals[p] for p in bound_params]
    except KeyError as e:
        raise AnalysisError('BinopSlot.__init__ has an unexpected parameter %s' % e)
    try:
        interp.call_closure(Closure(bs.methods['__init__'], Env(None, interp.globals)), args, {})
    except Stopped as s:
        raise AnalysisError('BinopSlot.__init__ could not be evaluated: %s' % s.why)
    except Unsupported as e:
        raise AnalysisError('BinopSlot.__init__ could not be evaluated: %s' % e)
    um = obj.__dict__.get('user_methods')
    ls, rs = obj.__dict__.get('left_slot'), obj.__dict__.get('right_slot')
    if not isinstance(um, list) or not isinstance(ls, NS) or not isinstance(rs, NS):
        raise AnalysisError('BinopSlot.__init__ no longer sets user_methods/left_slot/right_slot in a way the checker can follow')
    return um, ls.__dict__.get('method_name'), rs.__dict__.get('method_name'), obj


def dunder_problem(slot, dunders):
    ref = H.SLOT_DUNDERS.get(slot) or H.CYTHON_SLOT_DUNDERS.get(slot)
    ds = set(dunders)
    if ref is not None:
        if ds != ref:
            return 'slot %s is implemented by %s in the data model, the row names %s' % (slot, sorted(ref), sorted(ds))
        return None
    for s2, ref2 in list(H.SLOT_DUNDERS.items()) + list(H.CYTHON_SLOT_DUNDERS.items()):
        if ds & ref2 and not (slot[:2] in ('sq', 'mp') and s2[:2] in ('sq', 'mp')):
            return 'special method(s) %s belong to slot %s, not to %s' % (sorted(ds & ref2), s2, slot)
    return None


def rule_DUN(ctx, ext):
    m, st, init, sigs, tabs = ext
    rel = m.rel
    r = Rule('C28-DUN', 'every slot row names the special methods the data model assigns to the slot (incl. computed reflected names, Py2 fallbacks); richcmp_special_methods are the six rich comparisons', floor=60)
    for tname, rows in sorted(tabs.items()):
        for row in rows:
            if row.kind in ('empty', 'suite') or not row.dunders or not row.slot:
                continue
            key = 'SlotTable.%s:%s' % (tname, row.slot)
            dunders = list(row.dunders)
            if any(not isinstance(d, str) for d in dunders):
                raise AnalysisError('%s: special method name is not a literal' % key)
            if row.kind == 'binop':
                try:
                    um, lname, rname, _ = binop_methods(ctx, ext, dunders[0], row.slot)
                except Raised as e:
                    r.inst(key)
                    r.violate(key, rel, row.line, 'BinopSlot(%r, %r): constructing the slot fails: %s' % (row.slot, dunders[0], e.what))
                    continue
                dunders = list(um)
                if [lname, rname] != list(um):
                    r.violate(key + ':sub-slots', rel, row.line, 'BinopSlot %s: user_methods %r but left_slot/right_slot register %r/%r: the synthesised slot function and the method table disagree' % (row.slot, um, lname, rname))
            r.inst(key, sample='%s <-> %s' % (row.slot, ', '.join(dunders)))
            p = dunder_problem(row.slot, dunders)
            if p:
                r.violate(key, rel, row.line, p + ': operators on an extension type defining the documented method are not dispatched to it (or a different operator is)')
            elif H.SLOT_DUNDERS.get(row.slot) is None and H.CYTHON_SLOT_DUNDERS.get(row.slot) is None:
                r.info('slot %s (%s) is not in the reference table; not compared' % (row.slot, ', '.join(dunders)))
            if row.fallback is not None:
                r.inst(key + ':fallback', sample='%s fallback %s' % (row.slot, row.fallback))
                if H.LEGACY_FALLBACK.get(row.slot) != row.fallback:
                    r.violate(key + ':fallback', rel, row.line, 'slot %s accepts %r as a fallback name; the only legacy alias of this slot is %r' % (row.slot, row.fallback, H.LEGACY_FALLBACK.get(row.slot)))
    rc = H.module_literals(ctx.index, m).get('richcmp_special_methods')
    if not isinstance(rc, (list, tuple)):
        raise AnalysisError('TypeSlots.richcmp_special_methods is not a literal list')
    line = getattr(m.bindings.get('richcmp_special_methods'), 'lineno', 1)
    for d in sorted(set(rc) | set(H.RICHCMP)):
        key = 'TypeSlots.richcmp_special_methods:' + d
        r.inst(key, sample='%s <-> %s' % (d, H.RICHCMP.get(d)))
        if d not in H.RICHCMP:
            r.violate(key, rel, line, '%r is not a rich comparison method' % d)
        elif d not in rc:
            r.violate(key, rel, line, 'rich comparison method %r is missing from richcmp_special_methods: an extension type defining it gets no tp_richcompare case for %s (and the method is not declared as a special method)' % (d, H.RICHCMP[d]))
        elif list(rc).count(d) > 1:
            r.violate(key, rel, line, '%r listed twice (duplicate case label in the generated switch)' % d)
    ops = H.cpython_macros(set(H.RICHCMP.values()))
    if set(ops) != set(H.RICHCMP.values()) or len(set(ops.values())) != 6:
        raise AnalysisError('CPython headers do not define the six Py_LT..Py_GE constants distinctly: %r' % ops)
    r.positive_control(dunder_problem('nb_add', ['__sub__', '__rsub__']) is not None and dunder_problem('nb_add', ['__add__', '__radd__']) is None, 'nb_add <-> __sub__')
    return r


# ======================================================================================= SIG
def sig_problem(sig, td):
    """sig = (ret, [params]) from the Signature format; td = (ret, [params]) of the C typedef."""
    if sig[0] != td[0]:
        return 'returns %s, the C slot function returns %s' % (sig[0], td[0])
    if len(sig[1]) != len(td[1]):
        return 'takes %d C arguments (%s), the C slot function takes %d (%s)' % (len(sig[1]), ', '.join(sig[1]), len(td[1]), ', '.join(td[1]))
    for i, (a, b) in enumerate(zip(sig[1], td[1])):
        if a != b:
            return 'argument %d is %s, the C slot function has %s' % (i + 1, a, b)
    return None


def rule_SIG(ctx, ext):
    m, st, init, sigs, tabs = ext
    rel = m.rel
    r = Rule('C28-SIG', 'the Signature of a slot row has the C argument/return types of the function-pointer typedef of the struct member it fills', floor=56)
    structs = H.cpython_structs()
    tds = H.cpython_fn_typedefs()
    mtype = {}
    for sname, mem in structs.items():
        for n, t in mem:
            mtype[n] = t
    for tname, rows in sorted(tabs.items()):
        for row in rows:
            if row.kind not in ('method', 'binop') or not row.slot or row.slot not in mtype:
                continue
            if not row.signames:
                raise AnalysisError('slot row %s: signature %s does not resolve to a module-level Signature' % (row.slot, node_src(row.sig_node) if row.sig_node is not None else '-'))
            t = mtype[row.slot].strip()
            if t not in tds:
                r.info('member %s has type %r (no function typedef); not compared' % (row.slot, t))
                continue
            for sn in sorted(row.signames):
                key = 'SlotTable.%s:%s:%s' % (tname, row.slot, sn)
                sc = H.signature_c(*sigs[sn])
                r.inst(key, sample='%s: %s%r <-> %s %s(%s)' % (row.slot, sn, sigs[sn], tds[t][0], t, ', '.join(tds[t][1])))
                if sc is None:
                    r.violate(key, rel, row.line, 'Signature %s%r uses a format character outside the documented set' % (sn, sigs[sn]))
                    continue
                p = sig_problem(sc, tds[t])
                if p:
                    r.violate(key, rel, row.line, 'slot %s is a %s, but its row uses Signature %s%r which %s: the special method is wrapped/called with the wrong C signature' % (row.slot, t, sn, sigs[sn], p))
    r.positive_control(sig_problem(H.signature_c('T', 'O'), tds['binaryfunc']) is not None and sig_problem(H.signature_c('OO', 'O'), tds['binaryfunc']) is None, 'unary signature in a binaryfunc slot')
    return r


# ======================================================================================= TO — generated rich comparison
ORDER = ['__lt__', '__le__', '__gt__', '__ge__']
TRUTH = {   # comparison -> outcomes (of a relative to b) on which it holds
    '__lt__': {'lt'}, '__le__': {'lt', 'eq'}, '__gt__': {'gt'}, '__ge__': {'gt', 'eq'}, '__eq__': {'eq'}, '__ne__': {'lt', 'gt'},
}
MIRROR = {'lt': 'gt', 'gt': 'lt', 'eq': 'eq'}


class EmitRecorder:
    def __init__(self):
        self.lines, self.params, self.errors = [], None, []

    def code(self):
        rec = self

        def putln(s='', *a, **k):
            if not isinstance(s, str):
                raise Unsupported('putln() of a value the checker does not model: %r' % (s,))
            rec.lines.append(s)

        def start_slotfunc(*args, **kw):
            for a in list(args) + list(kw.values()):
                if isinstance(a, str) and ',' in a:
                    rec.params = [re.findall(r'\w+', p)[-1] for p in a.split(',')]
        return NS('code', putln=putln, put=putln, start_slotfunc=start_slotfunc, exit_cfunc_scope=lambda *a: None,
                  enter_cfunc_scope=lambda *a: None, name_in_module_state=lambda x: 'MSTATE(%s)' % (x,),
                  typeptr_cname_in_module_state=lambda t: 'MSTATE_T')


def cname_of(method):
    return 'user_' + method.strip('_')


def make_chain(defs_list, directives):
    """Mock type/scope chain: defs_list[0] = methods defined by the class itself, then its bases."""
    scopes, types = [], []
    for i, defs in enumerate(defs_list):
        entries = {d: NS('entry ' + d, func_cname=cname_of(d), is_special=True, name=d) for d in defs}
        scope = NS('scope%d' % i, directives=dict(directives), class_name='C%d' % i)
        scope.lookup_here = (lambda e: (lambda name: e.get(name)))(entries)
        scope.lookup = scope.lookup_here
        typ = NS('type%d' % i, scope=scope, entry=NS('tentry%d' % i, visibility='private'), base_type=None, typeptr_cname='T%d' % i, is_extension_type=True)
        scope.parent_type = typ
        scopes.append(scope)
        types.append(typ)
    for a, b in zip(types, types[1:]):
        a.base_type = b
    return scopes[0]


def emit_richcmp(ctx, fn, glob, defs_list, total_ordering):
    rec = EmitRecorder()
    interp = MiniPy(glob)
    scope = make_chain(defs_list, {'total_ordering': True} if total_ordering else {})
    interp.call_closure(Closure(fn, Env(None, interp.globals)), [NS('self'), scope, rec.code()], {})
    return rec


class SwitchEval:
    """Evaluate the emitted tp_richcompare body for (op, outcome)."""
    def __init__(self, lines, params):
        text = '{\n' + '\n'.join(lines)
        p = H.CParser(H.c_tokens(text))
        self.tree = p.stmt()
        if p.peek()[0] != 'eof':
            raise Unsupported('C syntax: text after the end of the generated function')
        self.params = params or ['o1', 'o2', 'op']
        self.TRUE, self.FALSE, self.NOTIMPL = H.CObj('Py_True', 1), H.CObj('Py_False', 0), H.CObj('Py_NotImplemented')
        self.labels = {v: H.CObj(v) for v in H.RICHCMP.values()}
        self.A, self.B = H.CObj('o1'), H.CObj('o2')

    def case_labels(self):
        out = set()

        def walk(s):
            if isinstance(s, tuple):
                if s and s[0] == 'switch':
                    for it in s[2]:
                        if it[0] == 'case':
                            out.add(it[1][1] if it[1][0] == 'id' else repr(it[1]))
                for x in s:
                    walk(x)
            elif isinstance(s, list):
                for x in s:
                    walk(x)
        walk(self.tree)
        return out

    def run(self, op_label, outcome, notimpl=False):
        calls = []

        def user(method):
            def f(*args):
                calls.append(method)
                if len(args) != 2 or {id(args[0]), id(args[1])} != {id(self.A), id(self.B)}:
                    raise Raised('generated C calls %s with arguments other than the two operands' % method)
                if notimpl:
                    return self.NOTIMPL
                oc = outcome if args[0] is self.A else MIRROR[outcome]
                return self.TRUE if oc in TRUTH[method] else self.FALSE
            return f

        def istrue(o):
            if o is self.TRUE:
                return 1
            if o is self.FALSE:
                return 0
            raise Raised('generated C takes the truth value of %r' % (o,))
        funcs = {'likely': lambda x: x, 'unlikely': lambda x: x, '__Pyx_PyObject_IsTrue': istrue, '__Pyx_NewRef': lambda x: x,
                 'Py_DECREF': lambda x: 0, 'Py_INCREF': lambda x: 0, 'Py_XDECREF': lambda x: 0, 'Py_NewRef': lambda x: x}
        # the two operands of this evaluation are distinct instances of the type itself; operand tests are the subject of C28-OPERANDS (s7C28)
        own_type = H.CObj('type(o1)')
        funcs['Py_TYPE'] = lambda o: own_type
        for meth in TRUTH:
            funcs[cname_of(meth)] = user(meth)
        consts = {'Py_True': self.TRUE, 'Py_False': self.FALSE, 'Py_NotImplemented': self.NOTIMPL, 'NULL': 0, 'Py_None': H.CObj('Py_None')}
        consts.update(self.labels)
        env = {self.params[0]: self.A, self.params[1]: self.B, self.params[2]: self.labels[op_label]}
        ev = H.CEval(consts, funcs)
        return ev.run(self.tree, env), calls


    def run_profile(self, op_label, answers, operands='distinct'):
        """Evaluate the switch with user methods that answer by method name only (answers: method -> 'T' | 'F' | 'N'), for one operand configuration:
        'distinct' (two objects of the type), 'same' (one object on both sides), 'othertype' (right operand of an unrelated type), 'none' (right operand None).
        -> (result or ('raised', what), [methods called])."""
        calls = []
        A = self.A
        none = H.CObj('Py_None')
        B = {'distinct': self.B, 'same': A, 'othertype': self.B, 'none': none}[operands]
        t_own, t_other, t_none = H.CObj('type(o1)'), H.CObj('type(other)'), H.CObj('NoneType')

        def py_type(o):
            if o is none:
                return t_none
            if o is B and operands == 'othertype':
                return t_other
            if o is A or o is B:
                return t_own
            raise Raised('generated C takes the type of %r' % (o,))

        def user(method):
            def f(*args):
                calls.append(method)
                if len(args) != 2 or {id(args[0]), id(args[1])} != {id(A), id(B)}:
                    raise Raised('generated C calls %s with arguments other than the two operands' % method)
                return {'T': self.TRUE, 'F': self.FALSE, 'N': self.NOTIMPL}[answers[method]]
            return f

        def istrue(o):
            if o is self.TRUE:
                return 1
            if o is self.FALSE:
                return 0
            raise Raised('generated C takes the truth value of %r' % (o,))
        funcs = {'likely': lambda x: x, 'unlikely': lambda x: x, '__Pyx_PyObject_IsTrue': istrue, '__Pyx_NewRef': lambda x: x,
                 'Py_DECREF': lambda x: 0, 'Py_INCREF': lambda x: 0, 'Py_XDECREF': lambda x: 0, 'Py_NewRef': lambda x: x, 'Py_TYPE': py_type,
                 'Py_IS_TYPE': lambda o, t: int(py_type(o) is t), 'Py_Is': lambda a, b: int(a is b), 'Py_IsNone': lambda a: int(a is none)}
        for meth in TRUTH:
            funcs[cname_of(meth)] = user(meth)
        consts = {'Py_True': self.TRUE, 'Py_False': self.FALSE, 'Py_NotImplemented': self.NOTIMPL, 'NULL': 0, 'Py_None': none}
        consts.update(self.labels)
        env = {self.params[0]: A, self.params[1]: B, self.params[2]: self.labels[op_label]}
        try:
            return H.CEval(consts, funcs).run(self.tree, env), calls
        except Raised as e:
            return ('raised', e.what), calls


def expected_ops(defined, total_ordering):
    """ops the equivalent Python class handles itself (others return NotImplemented)."""
    a = set(defined)
    if '__eq__' in a:
        a.add('__ne__')      # object.__ne__ inverts __eq__
    if total_ordering and (a & set(ORDER)) and ({'__eq__', '__ne__'} & set(defined)):
        a |= set(ORDER)      # functools.total_ordering (Cython additionally requires an equality method)
    return a


_ROOT_CACHE = {}


def functools_root(defined):
    """The user-defined ordering method functools.total_ordering derives a missing comparison from ("prefer __lt__ to __le__ to __gt__ to __ge__"),
    read off the standard library itself: a class with recording methods is decorated and the first user method a derived operator calls is returned."""
    have = tuple(m for m in ORDER if m in defined)
    missing = [m for m in ORDER if m not in have]
    if not have or not missing:
        return None
    if have not in _ROOT_CACHE:
        import functools
        calls = []

        def rec(name):
            return lambda self, other: (calls.append(name), True)[1]
        ns = {m: rec(m) for m in have}
        ns['__eq__'] = lambda self, other: False
        ns['__hash__'] = lambda self: 0
        cls = functools.total_ordering(type('_C28Probe', (), ns))
        getattr(cls(), missing[0])(cls())
        _ROOT_CACHE[have] = calls[0] if calls else None
    return _ROOT_CACHE[have]


def check_switch(sw, defined, total_ordering):
    """-> [(key, message)] for one scenario."""
    probs = []
    exp = expected_ops(defined, total_ordering)
    root = max(set(defined) & set(ORDER)) if (set(defined) & set(ORDER)) else None
    ref_root = functools_root(defined) if total_ordering else None
    sc = '{%s}%s' % (', '.join(sorted(defined)), ' + total_ordering' if total_ordering else '')
    for meth, label in H.RICHCMP.items():
        if meth in defined:
            key = 'richcmp:direct:' + meth
        elif meth in ORDER and root:
            key = 'richcmp:derived:%s->%s' % (root, meth)
        elif meth == '__ne__':
            key = 'richcmp:ne-from-eq'
        else:
            key = 'richcmp:absent:' + meth
        for outcome in ('lt', 'eq', 'gt'):
            try:
                res, calls = sw.run(label, outcome)
            except Raised as e:
                probs.append((key, 'with %s defined, case %s of the generated tp_richcompare misbehaves: %s' % (sc, label, e.what)))
                break
            want = sw.TRUE if outcome in TRUTH[meth] else sw.FALSE
            if ref_root and meth in ORDER and meth not in defined and meth in exp and res is not sw.NOTIMPL:
                # call order: the derived operator asks the same user method first as functools.total_ordering does
                first = next((c for c in calls if c in ORDER), None)
                if first != ref_root:
                    probs.append(('richcmp:source:%s' % '+'.join(m.strip('_') for m in ORDER if m in defined),
                                  'with %s defined, the derived `%s` (case %s) calls %s first; functools.total_ordering derives the missing comparisons from %s '
                                  '(priority __lt__ > __le__ > __gt__ > __ge__): another user method runs (call order, side effects) and the result differs when the two methods '
                                  'do not accept the same operands (one returns NotImplemented)' % (sc, meth, label, first or 'no ordering method', ref_root)))
                    break
            if res is sw.NOTIMPL:
                if meth in exp:
                    why = 'the method is defined' if meth in defined else ('object.__ne__ derives it from __eq__' if meth == '__ne__' else 'total_ordering derives it from %s' % root)
                    probs.append((key, 'with %s defined, the generated tp_richcompare returns NotImplemented for %s although %s' % (sc, label, why)))
                    break
                continue
            if res is not sw.TRUE and res is not sw.FALSE:
                probs.append((key, 'with %s defined, case %s of the generated tp_richcompare returns %r' % (sc, label, res)))
                break
            if res is not want:
                rel = {'lt': 'a < b', 'eq': 'a == b', 'gt': 'a > b'}[outcome]
                how = ('it should return the result of %s(a, b)' % meth) if meth in defined else ('derived from %s via TOTAL_ORDERING[(%r, %r)]' % (root, root, meth)) if key.startswith('richcmp:derived') else 'derived from __eq__'
                probs.append((key, 'with %s defined, `a %s b` (case %s) evaluates to %s when %s, a consistent Python class gives %s; %s (methods called: %s)' % (
                    sc, {'__lt__': '<', '__le__': '<=', '__gt__': '>', '__ge__': '>=', '__eq__': '==', '__ne__': '!='}[meth], label,
                    res.name[3:], rel, want.name[3:], how, ', '.join(calls) or 'none')))
                break
        else:
            # NotImplemented from the user's method is passed through
            if meth in exp:
                try:
                    res, calls = sw.run(label, 'lt', notimpl=True)
                except Raised as e:
                    probs.append((key + ':notimpl', 'with %s defined, case %s: %s' % (sc, label, e.what)))
                    continue
                if res is not sw.NOTIMPL:
                    probs.append((key + ':notimpl', 'with %s defined and the user method returning NotImplemented, case %s returns %r instead of passing NotImplemented on (the reflected operation of the other operand is never tried)' % (sc, label, res)))
    return probs


BAD_SWITCH = ['switch (op) {', 'case Py_LT: {', 'return user_lt(o1, o2);', '}', 'case Py_GT: {', 'PyObject *ret;', 'ret = user_lt(o1, o2);',
              'if (likely(ret && ret != Py_NotImplemented)) {', 'int order_res = __Pyx_PyObject_IsTrue(ret);', 'Py_DECREF(ret);',
              'if (unlikely(order_res < 0)) return NULL;', 'ret = order_res ? Py_False : Py_True;', 'Py_INCREF(ret);', '}', 'return ret;', '}',
              'case Py_EQ: {', 'return user_eq(o1, o2);', '}', 'default: {', 'return __Pyx_NewRef(Py_NotImplemented);', '}', '}', '}']


def rule_TO(ctx, collect=None):
    """collect: optional list that receives (scenario text, defined methods, total_ordering, SwitchEval) of every scenario evaluated (read by s7C28)."""
    ix = ctx.index
    mn = ix.mod('Compiler.ModuleNode')
    rel = mn.rel
    r = Rule('C28-TO', 'the tp_richcompare switch emitted by generate_richcmp_function computes every comparison correctly on a total order, for every subset of defined methods, with and without total_ordering', floor=670)
    cls = ix.cls('Compiler.ModuleNode', 'ModuleNode')
    fn = cls.methods.get('generate_richcmp_function')
    if fn is None:
        raise AnalysisError('ModuleNode.generate_richcmp_function vanished')
    lits = H.module_literals(ix, mn)
    table = lits.get('TOTAL_ORDERING')
    if not isinstance(table, dict):
        raise AnalysisError('ModuleNode.TOTAL_ORDERING is not a literal dict')
    tline = getattr(mn.bindings.get('TOTAL_ORDERING'), 'lineno', 1)
    for a in ORDER:
        for b in ORDER:
            if a != b:
                key = 'ModuleNode.TOTAL_ORDERING:%s->%s' % (a, b)
                r.inst(key, sample='TOTAL_ORDERING[%s,%s] = %r' % (a, b, table.get((a, b))))
                if (a, b) not in table:
                    r.violate(key, rel, tline, 'TOTAL_ORDERING has no row (%r, %r): a total_ordering class whose preferred method is %s cannot derive %s (KeyError while compiling)' % (a, b, a, b))
    glob = H.module_globals(ix, mn)
    glob.setdefault('warning', lambda *a, **k: None)
    glob.setdefault('error', lambda *a, **k: None)
    methods = list(H.RICHCMP)
    scenarios = []
    for k in range(1, 7):
        for sub in itertools.combinations(methods, k):
            for to in (False, True):
                scenarios.append(([list(sub)], to))
    # methods split between the class and a base class
    scenarios += [([['__lt__'], ['__eq__']], True), ([['__eq__'], ['__le__']], True), ([['__ne__'], ['__eq__', '__gt__']], False),
                  ([[], ['__lt__', '__eq__']], True)]
    seen = {}
    for defs_list, to in scenarios:
        defined = [d for defs in defs_list for d in defs]
        if not defs_list[0] and not to:
            continue
        sc = '%s%s' % ('/'.join('{' + ','.join(d) + '}' for d in defs_list), '+TO' if to else '')
        try:
            rec = emit_richcmp(ctx, fn, glob, defs_list, to)
        except Raised as e:
            key = 'ModuleNode.generate_richcmp_function:crash'
            r.inst(key)
            seen.setdefault(key, 'compiling an extension type that defines %s%s makes generate_richcmp_function fail with %s' % (sc, '', e.what))
            continue
        except Stopped as s:
            raise AnalysisError('generate_richcmp_function cannot be evaluated for %s: %s' % (sc, s.why))
        except Unsupported as e:
            raise AnalysisError('generate_richcmp_function cannot be evaluated for %s: %s' % (sc, e))
        try:
            sw = SwitchEval(rec.lines, rec.params)
        except Unsupported as e:
            raise AnalysisError('C emitted by generate_richcmp_function for %s is outside the modelled subset: %s' % (sc, e))
        bad_labels = sorted(sw.case_labels() - set(H.RICHCMP.values()))
        if bad_labels:
            for meth in methods:
                r.inst('richcmp:%s:%s' % (sc, meth))
            seen.setdefault('richcmp:label:' + bad_labels[0], 'with %s defined, the generated tp_richcompare switch has `case %s:`, which is not one of the comparison constants Py_LT..Py_GE '
                            '(the case label is computed from the method name)' % (sc, bad_labels[0]))
            continue
        try:
            probs = check_switch(sw, defined, to)
        except Unsupported as e:
            raise AnalysisError('C emitted by generate_richcmp_function for %s is outside the modelled subset: %s' % (sc, e))
        for meth in methods:
            r.inst('richcmp:%s:%s' % (sc, meth), sample='%s: case %s' % (sc, H.RICHCMP[meth]))
        if collect is not None:
            collect.append((sc, defined, to, sw))
        for key, msg in probs:
            seen.setdefault(key, msg)
    for key, msg in sorted(seen.items()):
        r.violate(key, rel, fn.lineno, msg)
    try:
        bad = check_switch(SwitchEval(BAD_SWITCH, ['o1', 'o2', 'op']), ['__lt__', '__eq__'], True)
    except (Unsupported, Raised) as e:
        raise AnalysisError('C28-TO positive control cannot be evaluated: %s' % e)
    r.positive_control(any(k.startswith('richcmp:derived:__lt__->__gt__') for k, _ in bad), '__gt__ derived as `not __lt__` (wrong when a == b)')
    return r


# ======================================================================================= TPL — binary operator slot
def template_functions(raw, context):
    """Function definitions of the BinopSlot template with {{...}} substituted: [(name, [param names], head line number)]"""
    out = []
    for mm in re.finditer(r'^[ \t]*static\s+[^\n;{}()]*?((?:\w|\x01\x01[^\x02]*\x02\x02)+)\s*\(([^;{}]*?)\)\s*\{[ \t]*$', H.strip_c_comments(_protect(raw)), re.M):
        name = H.tempita_subst(_unprotect(mm.group(1)), context)
        params = [p for p in split_args(' '.join(H.tempita_subst(_unprotect(mm.group(2)), context).split())) if p]
        out.append((name.strip(), [re.findall(r'\w+', p)[-1] for p in params], raw[:mm.start()].count('\n') + 1))
    return out


def _protect(s):
    return s.replace('{{', '\x01\x01').replace('}}', '\x02\x02')


def _unprotect(s):
    return s.replace('\x01\x01', '{{').replace('\x02\x02', '}}')


def parse_call_text(s):
    m = re.match(r'^\s*([A-Za-z_]\w*)\s*\((.*)\)\s*$', s, re.S)
    if not m:
        return None
    return m.group(1), [' '.join(a.split()) for a in split_args(m.group(2)) if a.strip()]


def binop_context_problems(ctx, context, util, slot_row_name, left, right, ldef, rdef, structs, tds):
    """Checks of one captured instantiation of the BinopSlot template -> [(key suffix, message)]"""
    probs = []
    name, fname = util
    sec = ctx.cat.files.get(fname, {}).get(name, {})
    sec = sec.get('impl') or sec.get('proto')
    if sec is None:
        return [('section', 'generate_binop_function loads utility section %s::%s, which does not exist' % (fname, name))]
    raw = sec.raw
    reads = H.tempita_reads(raw)
    for v in sorted(reads - set(context)):
        probs.append(('var:' + v, 'the %s template reads {{%s}} but generate_binop_function does not put it into the context (NameError when an extension type defines a binary operator)' % (name, v)))
    if probs:
        return probs
    try:
        fns = template_functions(raw, context)
    except Raised as e:
        return [('head', str(e.what))]
    slotfn = [f for f in fns if f[0] == str(context.get('func_name'))]
    helpers = [f for f in fns if f[0] != str(context.get('func_name'))]
    if len(slotfn) != 1:
        raise AnalysisError('BinopSlot template: definition of {{func_name}} not found (%r)' % [f[0] for f in fns])
    sf = slotfn[0]
    mtype = dict(structs['PyNumberMethods']).get(slot_row_name)
    if mtype is None or mtype.strip() not in tds:
        raise AnalysisError('PyNumberMethods.%s has no function typedef' % slot_row_name)
    td = tds[mtype.strip()]
    if len(sf[1]) != len(td[1]):
        probs.append(('arity', 'the slot function generated for %s takes %d arguments (%s) but %s takes %d' % (slot_row_name, len(sf[1]), ', '.join(sf[1]), mtype.strip(), len(td[1]))))
        return probs
    st = str(context.get('slot_type'))
    if st not in tds or tds[st] != td:
        probs.append(('slot_type', 'slot_type=%r for %s, but PyNumberMethods.%s is a %s %r: the base-type slot is fetched and called through the wrong function-pointer type' % (st, slot_row_name, slot_row_name, mtype.strip(), td[1])))
    p = sf[1]
    for side, meth, defined, want_args in (('left', left, ldef, p), ('right', right, rdef, [p[1], p[0]] + p[2:])):
        txt = str(context.get('call_' + side))
        pc = parse_call_text(txt)
        if pc is None:
            raise AnalysisError('call_%s=%r is not a call expression' % (side, txt))
        if defined:
            if pc[0] != cname_of(meth):
                probs.append(('call_' + side + ':callee', 'call_%s for %s calls %s, expected the C function of %s (%s)' % (side, slot_row_name, pc[0], meth, cname_of(meth))))
            elif pc[1] != want_args:
                probs.append(('call_' + side + ':args', 'call_%s for %s is %s(%s); %s must receive (%s): self is the %s operand' % (side, slot_row_name, pc[0], ', '.join(pc[1]), meth, ', '.join(want_args), side)))
        else:
            hp = [h for h in helpers if h[0] == pc[0]]
            if not hp:
                probs.append(('call_' + side + ':helper', 'call_%s for an undefined %s is %s(...), which the template does not define' % (side, meth, pc[0])))
            elif len(pc[1]) != len(hp[0][1]) or pc[1][1:] != p:
                probs.append(('call_' + side + ':helper-args', 'call_%s delegates to the base type with %s(%s); the helper takes (%s) and the operands must stay in their original order (%s)' % (
                    side, pc[0], ', '.join(pc[1]), ', '.join(hp[0][1]), ', '.join(p))))
    for side, defined in (('left', ldef), ('right', rdef)):
        v = context.get('overloads_' + side)
        if v is OPQ or bool(v) != bool(defined):
            probs.append(('overloads_' + side, 'overloads_%s=%r although %s is %sdefined: the template selects the wrong dispatch branch' % (side, v, left if side == 'left' else right, '' if defined else 'not ')))
    return probs


def rule_TPL(ctx, ext):
    ix = ctx.index
    m, st, init, sigs, tabs = ext
    mn = ix.mod('Compiler.ModuleNode')
    rel = mn.rel
    r = Rule('C28-TPL', 'generate_binop_function instantiates the BinopSlot template with every variable it reads, the slot\'s C function type/arity, and left/reflected calls with the operands in the right order', floor=36)
    cls = ix.cls('Compiler.ModuleNode', 'ModuleNode')
    fn = cls.methods.get('generate_binop_function')
    if fn is None:
        raise AnalysisError('ModuleNode.generate_binop_function vanished')
    structs, tds = H.cpython_structs(), H.cpython_fn_typedefs()
    glob = H.module_globals(ix, mn)
    sigobjs = {name: NS('Signature ' + name) for name in sigs}
    ts_alias = [a for a, imp in mn.imports.items() if (ix.resolve_name(mn, a) or (None,))[0] == 'module' and ix.resolve_name(mn, a)[1] is m]
    for a in ts_alias:
        glob[a].__dict__.update(sigobjs)
    seen = {}
    n_rows = 0
    aliases = {}
    for n in init.body:
        if isinstance(n, ast.Assign) and isinstance(n.targets[0], ast.Name) and isinstance(n.value, ast.IfExp):
            aliases[n.targets[0].id] = n.value
    for tname, rows in sorted(tabs.items()):
        for row in rows:
            if row.kind != 'binop':
                continue
            n_rows += 1
            try:
                um, left, right, _ = binop_methods(ctx, ext, row.dunders[0], row.slot)
            except Raised:
                continue        # reported by C28-DUN
            # the signature the row has when c_api_binop_methods is off (the only configuration that instantiates the template)
            if isinstance(row.sig_node, ast.Name) and row.sig_node.id in aliases:
                sn = aliases[row.sig_node.id].orelse.id
            elif row.signames and len(row.signames) == 1:
                sn = next(iter(row.signames))
            else:
                raise AnalysisError('BinopSlot %s: cannot determine its signature' % row.slot)
            # complete partition of what scope.lookup(name) can return per method: a special-method entry (S), nothing (-), an entry that is
            # not a special method (p: e.g. a cdef attribute of that name) — the last one must be treated like "not defined"
            for lstate, rstate in (('S', 'S'), ('S', '-'), ('-', 'S'), ('S', 'p'), ('p', 'S')):
                ldef, rdef = lstate == 'S', rstate == 'S'
                key0 = 'binop:%s:%s%s' % (row.slot, {'S': 'L'}.get(lstate, lstate), {'S': 'R'}.get(rstate, rstate))
                r.inst(key0, sample='%s with %s%s' % (row.slot, left if ldef else '', (' ' + right) if rdef else ''))
                captured = []

                def load_as_string(name, fname, context=None, **kw):
                    captured.append(((name, fname), context))
                    return ('', '')
                g = dict(glob)
                g['TempitaUtilityCode'] = NS('TempitaUtilityCode', load_as_string=load_as_string, load=load_as_string, load_cached=load_as_string)
                errors = []
                g['error'] = lambda *a, **k: errors.append(a)
                g['warning'] = lambda *a, **k: None
                rec = EmitRecorder()
                defs = {}
                if ldef:
                    defs[left] = NS('entry', func_cname=cname_of(left), is_special=True)
                if rdef:
                    defs[right] = NS('entry', func_cname=cname_of(right), is_special=True)
                if lstate == 'p':
                    defs[left] = NS('entry', func_cname='plain_' + cname_of(left), is_special=False)
                if rstate == 'p':
                    defs[right] = NS('entry', func_cname='plain_' + cname_of(right), is_special=False)
                scope = NS('scope', directives={'c_api_binop_methods': False}, lookup=lambda name, d=defs: d.get(name), lookup_here=lambda name, d=defs: d.get(name),
                           mangle_internal=lambda s: '__pyx_%s_C' % s, parent_type=NS('type', typeptr_cname='TYPEPTR', is_extension_type=True))
                slot = NS('slot', slot_name=row.slot, user_methods=list(um), is_binop=True, preprocessor_guard_code=lambda: None,
                          left_slot=NS('left_slot', method_name=left, signature=sigobjs[sn], slot_code=lambda s: 'LEFT'),
                          right_slot=NS('right_slot', method_name=right, signature=sigobjs[sn], slot_code=lambda s: 'RIGHT'))
                interp = MiniPy(g)
                try:
                    interp.call_closure(Closure(fn, Env(None, interp.globals)), [NS('self'), scope, slot, rec.code(), OPQ], {})
                except Raised as e:
                    seen.setdefault('ModuleNode.generate_binop_function:crash', 'generating the %s slot function fails: %s' % (row.slot, e.what))
                    continue
                except Stopped as s:
                    raise AnalysisError('generate_binop_function cannot be evaluated for %s: %s' % (row.slot, s.why))
                except Unsupported as e:
                    raise AnalysisError('generate_binop_function cannot be evaluated for %s: %s' % (row.slot, e))
                if errors:
                    seen.setdefault('ModuleNode.generate_binop_function:%s:error' % sn, 'generate_binop_function rejects the signature %s of BinopSlot %s (compile error for every type defining %s)' % (sn, row.slot, left))
                    continue
                if len(captured) != 1 or not isinstance(captured[0][1], dict):
                    raise AnalysisError('generate_binop_function: expected exactly one template instantiation with a context dict, got %d' % len(captured))
                util, context = captured[0]
                for suffix, msg in binop_context_problems(ctx, context, util, row.slot, left, right, ldef, rdef, structs, tds):
                    generic = suffix.startswith(('var:', 'section', 'head')) or suffix.startswith('call_') or suffix.startswith('overloads_')
                    key = 'ModuleNode.generate_binop_function:' + suffix if generic else 'ModuleNode.generate_binop_function:%s:%s' % (row.slot, suffix)
                    seen.setdefault(key, msg)
    if n_rows < 10:
        raise AnalysisError('only %d BinopSlot rows found' % n_rows)
    for key, msg in sorted(seen.items()):
        r.violate(key, rel, fn.lineno, msg)
    ctl = binop_context_problems(ctx, {'func_name': 'f', 'slot_name': 'nb_add'}, ('BinopSlot', 'ExtensionTypes.c'), 'nb_add', '__add__', '__radd__', True, True, structs, tds)
    r.positive_control(any(s.startswith('var:') for s, _ in ctl), 'context without call_left/call_right')
    return r


def run(ctx):
    ext = extract_tables(ctx)
    from ..rules import sC28
    from ..rules import s7C28
    switches = []
    return [rule_ORD(ctx, ext), rule_DUN(ctx, ext), rule_SIG(ctx, ext), rule_TO(ctx, switches), rule_TPL(ctx, ext), sC28.rule_dispatch(ctx), sC28.rule_same_type(ctx), sC28.rule_gen(ctx),
            s7C28.rule_operands(ctx, switches)]
