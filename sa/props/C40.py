"""C40 — safe type inference never lets an overflowing integer become a C integer (decision table of safe_spanning_type, overflow marking discipline)."""
import ast

from ..core import Rule, AnalysisError, node_src
from ..engine import pyflow, tables
from ..engine.pyindex import walk_no_nested, is_self_attr
from ..rules import tree as tree_rules
from ..rules.pC07 import Eval, Obj, Unsupported, Method, RepoFn
from ..rules import sC40, s4C40, dD1

ID = 'C40'
TECHNIQUE = ('decision-table extraction: TypeInference.safe_spanning_type, the handlers of MarkOverflowingArithmetic and NameNode.infer_type are evaluated over '
             'their COMPLETE finite abstract domains (type kind flags x might_overflow; every operator of ExprNodes.binop_node_classes; handler resolution by '
             'the MRO dispatch of the visitor); path-sensitive save/restore dataflow (V3) on self.might_overflow; call-site and pipeline-order checks; '
             'pair table of the spanning-type computation (find_spanning_type -> PyrexTypes.spanning_type -> widest_numeric_type / result_type_of_builtin_operation, '
             'evaluated by the checker over all ordered pairs of pure-Python value kinds); scope install/restore of the marking visitor evaluated on stub function nodes; '
             'rank table of merged C numbers; constant folding of the two literal-size intervals against the 32-bit guarantee of a C long; decision tables of the None helper of infer_types() '
             'and of NameDeletion.infer_type(); writer/reader agreement on the closure entry flag; operand-forwarding node classes found from their infer_type() shape')
DECIDES = ('(a) C40-SST: for every C integer / enum kind that is not bint (plain, unsigned, Py_UCS4-like, enum, with or without an equivalent Python type) and might_overflow=True, '
           'safe_spanning_type does not return the C type but a Python object type; '
           '(b) C40-V3: every method of MarkOverflowingArithmetic that rebinds self.might_overflow saved the old value first and restores it on every normal exit; '
           '(c) C40-OPS: with the handler the visitor dispatch selects, the children of every BinopNode operator other than & | ^, of UnaryMinusNode, of InPlaceAssignmentNode '
           'and of a call to abs() are visited with might_overflow=True whatever the incoming flag, the flag is the incoming one afterwards, and visit_NameNode marks the entry '
           '(given or looked up) when the flag is set; V1 for the two marking visitors; '
           '(d) C40-WIRE: infer_types=None is the default directive value, selects safe_spanning_type, every spanning_type(...) call in SimpleAssignmentTypeInferer.infer_types passes '
           '<entry>.might_overflow in the parameter position safe_spanning_type names might_overflow, and MarkOverflowingArithmetic runs in the pipeline before the transform that calls infer_types(); '
           '(e) C40-NAME: NameNode.infer_type does not hand out the locally inferred C integer type of an object-typed entry that might overflow; '
           '(f) C40-BOOL (rules/sC40.py): for every pure-Python value kind X other than bint (C integers of the literal / len() / range() ranks, Py_UCS4, C float / double / long double, '
           'C double complex, builtin int / float / complex / str, object) safe_spanning_type([bint, X]), ([X, bint]), ([X, X, bint]) and ([bint, X, X]) is a Python object type, '
           'and [bint, bint] is bint: a variable that is a bool on one path never becomes a C number; '
           '(g) C40-ENV: for every FuncDefNode class the handler the dispatch selects visits the body with self.env = node.local_scope and restores the previous scope; '
           '(h) C40-WIDTH: the C number chosen for two merged kinds has at least the rank of every integer input (when it is an integer) / of every float input, a Python float needs a C double; '
           '(i) C40-LITRANGE: IntNode.find_suitable_type_for_value and Utils.long_literal treat the same interval of literals as C-long-sized and it lies within [-2**31, 2**31-1]; '
           '(j) C40-NONE: the type list the nested helper of infer_types() builds contains a Python object type whenever None is assigned ({None}, {None, C}, {None, Python int} in both orders); '
           '(k) C40-DEL: NameDeletion.infer_type answers a Python object type for every C kind; C40-RANGEVAR: for range() with 1, 2, 3 arguments FlowControl.mark_forloop_target marks the '
           'loop variable with the first two arguments and with start+step; (l) C40-SST also: an overflowing Py_UCS4 becomes str, not int; '
           'C40-WIRE now sees every spanning_type(...) call of infer_types() including those in else-branches of its nested helpers. '
           '(m) C40-SELECT (rules/s4C40.py): PyrexTypes.independent_spanning_type - the type of `a and b`, `a or b`, `a if c else b` - over all ordered pairs of pure-Python value kinds '
           '(+ builtin bool) and the three-operand nestings with one bool: a bool together with a value of another Python type is never a C type, a Python int / str / object operand is '
           'never stored in a C type, a C result is never narrower than a C operand of its kind; C40-SELWIRE: infer_type() and the `self.type = ...` store of every operand-selecting '
           'expression class (CondExprNode, BoolBinopNode; found from either site) evaluated on stub operands of every kind pair satisfy the same table, i.e. they call a function with '
           'these properties and hand it the types of BOTH operands. '
           'Written but NOT armed (pending findings, both report the unmodified tree): C40-CLOSURE (FINDING_2: entry.might_overflow is stored on the InnerEntry of a closure variable only) and '
           'C40-FORWARD (FINDING_3: CondExprNode / BoolBinopNode, whose value is one of their operands, are visited as "safe"). '
           'Round six: C40-SELCHAR (a Py_UCS4 operand of and / or / a conditional expression never shares a number type with a number: '
           '`s = "abc"; n = 5; x = s[1] if c else n` returned 98 before the repair), C40-INFSCOPE and C40-ITEMTYPE (rules/dD1.py).')
NOT_DECIDED = ('the spanning-type computation for pairs without a bool (C40-PYTYPE, the general "the chosen C type has the Python type of every merged kind" table, is written but NOT armed: '
               'it reports int+float -> C double etc. on the unmodified tree, pending finding), which assignments are collected (MarkParallelAssignments, control flow), result types of '
               'arithmetic nodes, everything value-dependent; definedness-aware inference (known finding K4, rule of C21e) is not re-checked here; float/double inference '
               '(documented as safe) and the aggressive mode are outside the property; '
               'the other branches of FlowControl.mark_forloop_target (enumerate / reversed / generic iteration; C40-RANGEVAR decides range() with 1-3 arguments), whether an unresolved assignment type can reach the first pass '
               '(infer_unresolved_guard), that set_entry_type types every closure entry (infer_set_entry_outer_only); single-operand value wrappers '
               '(EvalWithTempExprNode: `max(x, 5) * big` wraps on the unmodified tree, see FINDING_3) and bint arithmetic (`b = not k; b * big`) are open; C40-SELECT does not decide int/float/complex mixing of selected operands (`a if c else b` with a C long and a C double is a C double: the K11 class) nor operand kinds that need explicit C types; C40-SELWIRE models two-operand choices (a class with more forwarded operands is listed as info).')
ASSUMPTIONS = [
    'type stubs: every is_* flag that a scenario does not set is 0 (class default of PyrexType); integer-like kinds coerce to Python objects (can_coerce_to_pyobject is True)',
    'the scenario type is already simple: PyrexTypes.remove_cv_ref is modelled as the identity and reduce(f, [T]) as T (one assignment)',
    'Visitor dispatch is nominal along the MRO of the node class (pyindex.visitor_handler mirrors TreeVisitor._find_handler)',
    'C40-BOOL: type stubs carry the rank / signedness folded from the `c_xxx_type = Ctor(rank, signed)` singletons of PyrexTypes.py and the is_* flags of their classes; '
    'kinds that cannot arise from pure-Python code (pointers, structs, enums, memoryviews, C++ classes) are outside the domain',
]
EXEMPT = {}

MUTATIONS = [
    # (file, edit, expected rule / observed) -- all tried on a scratch copy
    ('Cython/Compiler/TypeInference.py', 'safe_spanning_type: drop `and not might_overflow`', 'C40-SST (6 kinds): caught'),
    ('Cython/Compiler/TypeInference.py', 'safe_spanning_type: `(is_int or is_enum) and not might_overflow` -> `is_enum or (is_int and not might_overflow)`', 'C40-SST enum kinds: caught'),
    ('Cython/Compiler/TypeInference.py', 'safe_spanning_type, Python section: `elif result_type.is_int: return Builtin.int_type` -> `return result_type`', 'C40-SST: caught'),
    ('Cython/Compiler/TypeInference.py', 'visit_dangerous_node: drop `self.might_overflow = saved`', 'C40-V3 (+ C40-OPS flag-after): caught'),
    ('Cython/Compiler/TypeInference.py', 'visit_safe_node: restore only under `if node.is_literal:`', 'C40-V3: caught'),
    ('Cython/Compiler/TypeInference.py', 'visit_safe_node: restore only under `if saved:` (equivalent by value reasoning: the flag is False already)', 'C40-V3 fires: accepted imprecision of the save/restore discipline'),
    ('Cython/Compiler/TypeInference.py', "visit_BinopNode: `in '&|^'` -> `in '&|^+'`", 'C40-OPS operator +: caught'),
    ('Cython/Compiler/TypeInference.py', "visit_BinopNode: `in '&|^'` -> `not in '&|^'`", 'C40-OPS 10 operators: caught'),
    ('Cython/Compiler/TypeInference.py', 'visit_UnaryMinusNode = visit_neutral_node', 'C40-OPS UnaryMinusNode: caught'),
    ('Cython/Compiler/TypeInference.py', 'visit_InPlaceAssignmentNode renamed visit_InplaceAssignmentNode', 'C40-V1 + C40-OPS InPlaceAssignmentNode: caught'),
    ('Cython/Compiler/TypeInference.py', "abs: `== 'abs'` -> `== 'fabs'`", 'C40-OPS abs: caught'),
    ('Cython/Compiler/TypeInference.py', 'visit_dangerous_node: `True, self.might_overflow` -> `False, self.might_overflow`', 'C40-OPS (13 constructs): caught'),
    ('Cython/Compiler/TypeInference.py', 'visit_NameNode: `entry.might_overflow = True` -> `= False`', 'C40-OPS NameNode: caught'),
    ('Cython/Compiler/TypeInference.py', 'reinfer(): `spanning_type(types, entry.might_overflow, scope)` -> `spanning_type(types, False, scope)`', 'C40-WIRE call: caught'),
    ('Cython/Compiler/TypeInference.py', 'infer_types: `elif enabled is None: spanning_type = safe_spanning_type` -> aggressive_spanning_type', 'C40-WIRE selector: caught'),
    ('Cython/Compiler/TypeInference.py', 'safe_spanning_type(types, might_overflow, scope) -> (types, scope, might_overflow)', 'C40-WIRE position (4 call sites): caught'),
    ('Cython/Compiler/Options.py', "'infer_types': None -> True", 'C40-WIRE default: caught'),
    ('Cython/Compiler/Pipeline.py', 'MarkOverflowingArithmetic(context) moved after AnalyseExpressionsTransform(context) / removed from the stages', 'C40-WIRE pipeline: caught (both)'),
    ('Cython/Compiler/ExprNodes.py', 'NameNode.infer_type: `if not (self.inferred_type.is_int and self.entry.might_overflow)` -> `if True`', 'C40-NAME: caught'),
    ('Cython/Compiler/TypeInference.py', 'visit_Node = visit_neutral_node (over-marking only, conservative)', 'silent, correctly'),
    ('Cython/Compiler/TypeInference.py', 'safe_spanning_type / class MarkOverflowingArithmetic renamed', 'ANALYSIS-ERROR (anchor)'),
    # --- C40-BOOL (rules/sC40.py), tried on /tmp/strengthen/G9/scr
    ('Cython/Compiler/TypeInference.py', 'seed C40b: bint guard of find_spanning_type narrowed to `bint and other.is_int`', 'C40-BOOL bint+{C float, C double, C double complex, Python float, Python complex}: caught'),
    ('Cython/Compiler/TypeInference.py', 'find_spanning_type: `type1 is c_bint_type or type2 is c_bint_type` -> `... and ...`', 'C40-BOOL (every numeric kind): caught'),
    ('Cython/Compiler/TypeInference.py', 'find_spanning_type: the bint branch disabled (`elif False:`)', 'C40-BOOL (every numeric kind): caught'),
    ('Cython/Compiler/TypeInference.py', 'find_spanning_type: only `type1 is c_bint_type` tested (one assignment order)', 'C40-BOOL, orders [X, bint] / [X, X, bint]: caught'),
    ('Cython/Compiler/TypeInference.py', 'safe_spanning_type: `reduce(find_spanning_type, types)` "simplified" to `reduce(PyrexTypes.spanning_type, types)`', 'C40-BOOL: caught'),
    ('Cython/Compiler/PyrexTypes.py', 'spanning_type: the `py_object_type` early return dropped (same table: _spanning_type answers py_object_type)', 'silent, correctly'),
    # --- fourth round: see /verif/mutants/C40/*/meta.json (34 mutants: 24 breaking, 10 behaviour preserving), replayed by the thorough tier
    ('Cython/Compiler/PyrexTypes.py', 'widest_numeric_type returns the narrower rank', 'C40-PYTYPE / C40-WIDTH: caught (before: ANALYSIS-ERROR, the embedded control of C40-PYTYPE called the repository - now self-contained)'),
    # --- sixth round (seed C40h): /verif/mutants/C40/sel_*/meta.json (9 breaking: all C40-SELECT / C40-SELWIRE; 5 behaviour preserving: silent)
    ('Cython/Compiler/PyrexTypes.py', 'seed C40h: independent_spanning_type tests resolved_type1 twice in the bint guard', 'C40-SELECT bool: caught'),
    ('Cython/Compiler/ExprNodes.py', 'CondExprNode.infer_type spans true_val with itself / BoolBinopNode.analyse_types passes operand1.type twice / either site calls spanning_type', 'C40-SELWIRE: caught'),
    # behaviour preserving (all silent)
    ('Cython/Compiler/TypeInference.py', 'find_spanning_type: bint test rewritten `PyrexTypes.c_bint_type in (type1, type2)`', None),
    ('Cython/Compiler/TypeInference.py', 'find_spanning_type: parameters renamed, bint test hoisted into an early return in De Morgan form', None),
    ('Cython/Compiler/TypeInference.py', 'visit_safe_node rewritten with `saved = self.might_overflow; self.might_overflow = False; ...; self.might_overflow = saved`', None),
    ('Cython/Compiler/TypeInference.py', "visit_BinopNode: `if node.operator not in ('&', '|', '^'): return dangerous; return neutral`", None),
    ('Cython/Compiler/TypeInference.py', 'safe_spanning_type: local result_type renamed rt, is_ptr / is_cpp_class clauses swapped', None),
    ('Cython/Compiler/TypeInference.py', 'safe_spanning_type: `not might_overflow and (is_enum or is_int)`', None),
    ('Cython/Compiler/TypeInference.py', 'methods of MarkOverflowingArithmetic reordered', None),
    ('Cython/Compiler/TypeInference.py', 'one call rewritten as spanning_type(types, might_overflow=entry.might_overflow, scope=scope)', None),
]

TI = 'Cython/Compiler/TypeInference.py'


# ---------------------------------------------------------------------------------------------------- (a) safe_spanning_type
class TypeDomain:
    def __init__(self, ctx):
        self.ix = ix = ctx.index
        pt = ix.mod('PyrexTypes')
        for n in ('c_double_type', 'c_float_type', 'c_bint_type', 'soft_complex_type', 'c_double_complex_type', 'py_object_type', 'remove_cv_ref'):
            if n not in pt.bindings:
                raise AnalysisError('PyrexTypes.%s vanished' % n)

        def T(label, **kw):
            kw.setdefault('equivalent_type', None)
            kw.setdefault('can_coerce_to_pyobject', lambda scope: True)
            return Obj(label, flag_default=False, **kw)
        self.py_object = T('py_object_type', is_pyobject=True)
        self.py_int = T('Builtin.int_type', is_pyobject=True, is_builtin_type=True)
        self.py_float = T('Builtin.float_type', is_pyobject=True, is_builtin_type=True)
        self.py_complex = T('Builtin.complex_type', is_pyobject=True, is_builtin_type=True)
        self.py_unicode = T('Builtin.unicode_type', is_pyobject=True, is_builtin_type=True)
        self.c_double = T('double', is_float=True, is_numeric=True, equivalent_type=self.py_float)
        self.c_float = T('float', is_float=True, is_numeric=True)
        self.c_bint = T('bint', is_int=True, is_numeric=True)
        self.soft = T('soft complex', is_complex=True, is_numeric=True)
        self.c_dcomplex = T('double complex', is_complex=True, is_numeric=True, equivalent_type=self.py_complex)
        self.T = T
        self.overrides = {
            ('PyrexTypes', 'py_object_type'): self.py_object, ('PyrexTypes', 'c_double_type'): self.c_double, ('PyrexTypes', 'c_float_type'): self.c_float,
            ('PyrexTypes', 'c_bint_type'): self.c_bint, ('PyrexTypes', 'soft_complex_type'): self.soft, ('PyrexTypes', 'c_double_complex_type'): self.c_dcomplex,
            ('Builtin', 'int_type'): self.py_int, ('Builtin', 'float_type'): self.py_float, ('Builtin', 'complex_type'): self.py_complex,
            ('Builtin', 'unicode_type'): self.py_unicode,
            ('PyrexTypes', 'remove_cv_ref'): (lambda tp, remove_fakeref=False: tp),
            ('TypeInference', 'reduce'): self._reduce,
        }

    @staticmethod
    def _reduce(f, seq):
        if len(seq) != 1:
            raise Unsupported('reduce over %d types' % len(seq))
        return seq[0]

    def int_kinds(self):
        T = self.T
        return [
            T('C int', is_int=True, is_numeric=True, signed=1),
            T('C unsigned int', is_int=True, is_numeric=True, signed=0),
            T('C integer with an equivalent Python type', is_int=True, is_numeric=True, signed=1, equivalent_type=self.py_int),
            T('Py_UCS4-like C integer', is_int=True, is_numeric=True, is_unicode_char=True, signed=0),
            T('C enum', is_enum=True),
            T('C enum with an equivalent Python type', is_enum=True, equivalent_type=self.py_object),
        ]


def sst_table(dom, module, fnode):
    """-> list of (kind label, might_overflow, returns the C type?, result is a Python object type?, result label)."""
    out = []
    for mo in (True, False):
        for t in dom.int_kinds():
            ev = Eval(dom.ix, overrides=dom.overrides)
            try:
                res = ev.call(RepoFn(module, fnode), [[t], mo, Obj('scope', flag_default=False)])
            except Unsupported as e:
                raise AnalysisError('safe_spanning_type cannot be evaluated for %s, might_overflow=%s: %s' % (t.label, mo, e))
            is_py = isinstance(res, Obj) and res.attrs.get('is_pyobject') is True
            out.append((t.label, mo, res is t, is_py, getattr(res, 'label', repr(res))))
    return out


def rule_SST(ctx):
    r = Rule('C40-SST', 'safe_spanning_type never returns a C integer/enum type (other than bint) when might_overflow is set; it returns a Python object type', floor=5)
    ix = ctx.index
    m = ix.mod('TypeInference')
    fn = m.functions.get('safe_spanning_type')
    if fn is None:
        raise AnalysisError('TypeInference.safe_spanning_type vanished')
    dom = TypeDomain(ctx)
    for label, mo, same, is_py, res in sst_table(dom, m, fn):
        key = 'safe_spanning_type:%s|might_overflow=%s' % (label, mo)
        r.inst(key, sample='%s, might_overflow=%s -> %s' % (label, mo, res), nontrivial=mo)
        if not mo:
            continue
        if same:
            r.violate(key, TI, fn.lineno, 'safe_spanning_type returns the C type for "%s" although might_overflow is set: arithmetic on that variable wraps around in C '
                      'where Python (and infer_types=False) computes a big int' % label)
        elif not is_py:
            r.violate(key, TI, fn.lineno, 'safe_spanning_type returns %s for "%s" with might_overflow set, which is not a Python object type' % (res, label))
        elif 'Py_UCS4' in label and res == dom.py_int.label:
            # a character variable must stay a string when it is turned into an object: `c + c` concatenates in Python
            r.violate(key + ':char-as-int', TI, fn.lineno, 'safe_spanning_type turns an overflowing "%s" into a Python int object (%s): a variable holding a character of a string '
                      'then behaves like a number (`c + c` adds code points instead of concatenating), infer_types=False keeps the str' % (label, res))
    pc = ast.parse("def safe_spanning_type(types, might_overflow, scope):\n    result_type = simply_type(reduce(find_spanning_type, types))\n"
                   "    if result_type.is_pyobject:\n        return result_type\n    elif result_type.is_int or result_type.is_enum:\n        return result_type\n"
                   "    return py_object_type\n").body[0]
    r.positive_control(any(mo and same for _, mo, same, _, _ in sst_table(dom, m, pc)), 'variant without the might_overflow test')
    return r


# ---------------------------------------------------------------------------------------------------- (b) V3 on self.might_overflow
def _pairs(assign):
    """(target, value) pairs of an assignment, tuple assignments split position-wise (all values are read before any store)."""
    out = []
    for t in assign.targets:
        if isinstance(t, (ast.Tuple, ast.List)) and isinstance(assign.value, (ast.Tuple, ast.List)) and len(t.elts) == len(assign.value.elts):
            out += list(zip(t.elts, assign.value.elts))
        else:
            out.append((t, assign.value))
    return out


def v3_unrestored(fn, attr):
    """True if some normal exit of fn leaves self.<attr> rebound to something other than the value saved from it."""
    def tr(n, state):
        s = set(state)
        if isinstance(n, ast.Assign):
            pairs = _pairs(n)
            modified_before = 'MOD' in s
            saves, stores = [], []
            for t, v in pairs:
                if is_self_attr(t) and t.attr == attr:
                    stores.append(v)
                elif isinstance(t, ast.Name):
                    saves.append((t.id, v))
            for name, v in saves:
                s.discard(('saved', name))
                if is_self_attr(v) and v.attr == attr and not modified_before:
                    s.add(('saved', name))
            for v in stores:
                if isinstance(v, ast.Name) and ('saved', v.id) in s and not any(nm == v.id for nm, _ in saves):
                    s.discard('MOD')
                else:
                    s.add('MOD')
        elif isinstance(n, (ast.AugAssign, ast.AnnAssign)) and is_self_attr(n.target) and n.target.attr == attr:
            s.add('MOD')
        return frozenset(s)
    o = pyflow.Flow(tr).run(fn)
    return any('MOD' in st for st in o.normal | o.returns)


def rule_V3(ctx, vis):
    r = Rule('C40-V3', 'methods of MarkOverflowingArithmetic that rebind self.might_overflow restore the saved value on every normal exit', floor=2)
    ix = ctx.index
    for c in [vis] + ix.subclasses(vis):
        for name, fn in sorted(c.methods.items()):
            stores = [n for n in walk_no_nested(fn) if isinstance(n, ast.Attribute) and is_self_attr(n) and n.attr == 'might_overflow' and isinstance(n.ctx, ast.Store)]
            if not stores or name in ('__init__', '__call__'):
                continue
            key = '%s.%s:self.might_overflow' % (c.name, name)
            r.inst(key, sample='%s rebinds self.might_overflow (%d store(s))' % (key, len(stores)))
            if v3_unrestored(fn, 'might_overflow'):
                r.violate(key, c.module.rel, fn.lineno, '%s.%s rebinds self.might_overflow and on some normal path returns without restoring the value it had on entry: '
                          'the flag leaks to the siblings visited afterwards (names outside the arithmetic are marked, or names inside a later arithmetic are not)' % (c.name, name))
    pc = ast.parse("def visit_X(self, node):\n    self.might_overflow, saved = True, self.might_overflow\n    if node.skip:\n        return node\n"
                   "    self.visitchildren(node)\n    self.might_overflow = saved\n    return node\n").body[0]
    ok = ast.parse("def visit_X(self, node):\n    self.might_overflow, saved = True, self.might_overflow\n    self.visitchildren(node)\n    self.might_overflow = saved\n    return node\n").body[0]
    r.positive_control(v3_unrestored(pc, 'might_overflow') and not v3_unrestored(ok, 'might_overflow'), 'early return without restoring might_overflow (tuple-assignment save)')
    return r


# ---------------------------------------------------------------------------------------------------- (c) operator classification
NEUTRAL_OK = ('&', '|', '^')


def _run_handler(ix, vis, owner, fn, node, incoming, env_lookup=None):
    """Evaluate one handler; -> (flags seen by visitchildren, flag afterwards)."""
    seen = []
    selfobj = Obj('MarkOverflowingArithmetic', cls=vis, flag_default=None, might_overflow=incoming)
    selfobj.attrs['visitchildren'] = lambda n, *a, **k: seen.append(selfobj.attrs['might_overflow'])
    selfobj.attrs['env'] = Obj('env', lookup=env_lookup or (lambda name: None))
    selfobj.attrs['env_stack'] = []
    ev = sC40.LoopEval(ix)          # Eval + `for x in <list>`: a handler may store the flag on every entry of entry.all_entries()
    ev.call(Method(RepoFn(owner.module, fn, owner), selfobj), [node])
    return seen, selfobj.attrs['might_overflow']


def classify(ix, vis, node_cls, node):
    """'dangerous' | 'safe' | 'neutral' | text, and the list of problems, for the handler dispatched for node_cls."""
    h = ix.visitor_handler(vis, node_cls)
    if h is None:
        raise AnalysisError('no handler of %s for %s' % (vis.name, node_cls.name))
    k, owner, fn = h
    res = {}
    after_bad = False
    for incoming in (False, True):
        try:
            seen, after = _run_handler(ix, vis, owner, fn, node, incoming)
        except Unsupported as e:
            raise AnalysisError('%s.%s cannot be evaluated: %s' % (owner.name, fn.name, e))
        res[incoming] = tuple(seen)
        if after is not incoming:
            after_bad = True
    name = 'visit_' + k.name
    if all(len(v) >= 1 for v in res.values()) and all(x is True for v in res.values() for x in v):
        kind = 'dangerous'
    elif all(len(v) >= 1 for v in res.values()) and all(x is False for v in res.values() for x in v):
        kind = 'safe'
    elif all(len(res[i]) >= 1 and all(x is i for x in res[i]) for i in res):
        kind = 'neutral'
    elif not any(res.values()):
        kind = 'children not visited'
    else:
        kind = 'mixed %r' % (res,)
    return kind, name, after_bad


def rule_OPS(ctx, vis):
    r = Rule('C40-OPS', 'operators that can overflow are visited with might_overflow=True by the handler the visitor dispatch selects; NameNode marks its entry', floor=12)
    ix = ctx.index
    en = ix.mod('ExprNodes')
    tab = tables.module_assign(en.tree, 'binop_node_classes')
    if not isinstance(tab, ast.Dict) or len(tab.keys) < 10:
        raise AnalysisError('ExprNodes.binop_node_classes not found')
    binop = ix.cls('ExprNodes', 'BinopNode')
    rel = vis.module.rel
    n_ops = 0
    for k, v in zip(tab.keys, tab.values):
        op = tables.literal(k)
        if not isinstance(op, str) or not isinstance(v, ast.Name):
            raise AnalysisError('binop_node_classes entry %s not understood' % node_src(k))
        rc = ix.resolve_name(en, v.id)
        if not rc or rc[0] != 'class':
            raise AnalysisError('binop_node_classes[%r] = %s does not resolve to a class' % (op, v.id))
        cls = rc[1]
        if binop not in ix.mro(cls):
            continue          # and / or: BoolBinopNode is no arithmetic node
        n_ops += 1
        kind, hname, after_bad = classify(ix, vis, cls, Obj(cls.name, flag_default=False, operator=op))
        key = 'operator %s (%s)' % (op, cls.name)
        r.inst(key, sample='%s -> %s: %s' % (key, hname, kind))
        if op not in NEUTRAL_OK and kind != 'dangerous':
            r.violate(key, rel, vis.node.lineno, 'operands of `%s` (%s, handler %s.%s) are visited as "%s", not with might_overflow=True: a variable used in `x %s y` keeps its '
                      'inferred C integer type and the operation wraps around' % (op, cls.name, vis.name, hname, kind, op))
        if after_bad:
            r.violate(key + ':after', rel, vis.node.lineno, 'handler %s.%s for `%s` leaves self.might_overflow changed' % (vis.name, hname, op))
    if n_ops < 8:
        raise AnalysisError('only %d arithmetic operators in binop_node_classes' % n_ops)
    # unary minus, in-place assignment, abs()
    specials = [
        ('UnaryMinusNode', ix.cls('ExprNodes', 'UnaryMinusNode'), Obj('UnaryMinusNode', flag_default=False, operator='-'), '-x overflows for the minimum value'),
        ('InPlaceAssignmentNode', ix.cls('Nodes', 'InPlaceAssignmentNode'), Obj('InPlaceAssignmentNode', flag_default=False, operator='+'), 'x += y is arithmetic on x'),
        ('abs() call', ix.cls('ExprNodes', 'SimpleCallNode'),
         Obj('SimpleCallNode', flag_default=False, function=Obj('function', flag_default=False, is_name=True, name='abs')), 'abs(x) overflows for the minimum value'),
    ]
    for label, cls, node, why in specials:
        kind, hname, after_bad = classify(ix, vis, cls, node)
        r.inst(label, sample='%s -> %s: %s' % (label, hname, kind))
        if kind != 'dangerous':
            r.violate(label, rel, vis.node.lineno, 'operands of %s (handler %s.%s) are visited as "%s", not with might_overflow=True (%s): the variable keeps a C integer type'
                      % (label, vis.name, hname, kind, why))
        if after_bad:
            r.violate(label + ':after', rel, vis.node.lineno, 'handler %s.%s for %s leaves self.might_overflow changed' % (vis.name, hname, label))
    # NameNode marks the entry (entry given / entry looked up) when the flag is set
    name_cls = ix.cls('ExprNodes', 'NameNode')
    h = ix.visitor_handler(vis, name_cls)
    if h is None or h[0].name != 'NameNode':
        raise AnalysisError('MarkOverflowingArithmetic has no visit_NameNode')
    for how in ('entry on the node', 'entry found by env.lookup'):
        entry = Obj('entry', flag_default=False, might_overflow=0)
        entry.attrs['all_entries'] = lambda e=entry: [e]
        node = Obj('NameNode', flag_default=False, name='x', entry=entry if how.startswith('entry on') else None)
        try:
            _run_handler(ix, vis, h[1], h[2], node, True, env_lookup=lambda name, e=entry: e)
        except Unsupported as e:
            raise AnalysisError('visit_NameNode cannot be evaluated: %s' % e)
        key = 'NameNode (%s)' % how
        r.inst(key, sample='%s -> entry.might_overflow = %r' % (key, entry.attrs['might_overflow']))
        if not entry.attrs['might_overflow']:
            r.violate(key, rel, h[2].lineno, 'visit_NameNode does not set entry.might_overflow although self.might_overflow is set (%s): the variable is inferred as a C integer '
                      'inside overflowing arithmetic' % how)
    pc = ast.parse("class V:\n    def visit_BinopNode(self, node):\n        if node.operator in '&|^+':\n            return self.visit_neutral_node(node)\n"
                   "        else:\n            return self.visit_dangerous_node(node)\n").body[0].body[0]
    seen, _ = _run_handler(ix, vis, vis, pc, Obj('AddNode', flag_default=False, operator='+'), False)
    r.positive_control(seen == [False], "visit_BinopNode treating '+' as neutral")
    return r


# ---------------------------------------------------------------------------------------------------- (d) wiring
def rule_WIRE(ctx, vis):
    r = Rule('C40-WIRE', 'safe mode is the default and selects safe_spanning_type; every spanning_type call passes <entry>.might_overflow in the might_overflow position; '
                         'MarkOverflowingArithmetic runs before the transform that infers types', floor=6)
    ix = ctx.index
    m = ix.mod('TypeInference')
    sst = m.functions.get('safe_spanning_type')
    inferer = ix.cls('TypeInference', 'SimpleAssignmentTypeInferer')
    fn = inferer.methods.get('infer_types')
    if sst is None or fn is None:
        raise AnalysisError('safe_spanning_type / SimpleAssignmentTypeInferer.infer_types vanished')
    params = [a.arg for a in sst.args.args]
    if 'might_overflow' not in params:
        raise AnalysisError('safe_spanning_type has no might_overflow parameter')
    pos = params.index('might_overflow')
    # default directive value
    key = "Options._directive_defaults['infer_types']"
    dd = tables.module_assign(ctx.parse('Cython/Compiler/Options.py'), '_directive_defaults')
    if not isinstance(dd, ast.Dict):
        raise AnalysisError('Options._directive_defaults is not a dict literal')
    dv = [v for k, v in zip(dd.keys, dd.values) if isinstance(k, ast.Constant) and k.value == 'infer_types']
    if not dv:
        raise AnalysisError("no default for directive 'infer_types'")
    r.inst(key, sample='%s = %s' % (key, node_src(dv[0])))
    if not (isinstance(dv[0], ast.Constant) and dv[0].value is None):
        r.violate(key, 'Cython/Compiler/Options.py', dv[0].lineno, "the default of directive infer_types is %s, not None (safe mode): plain Python code is compiled with %s"
                  % (node_src(dv[0]), 'aggressive inference, C integers wrap around' if isinstance(dv[0], ast.Constant) and dv[0].value is True else 'a different inference mode'))
    # selector: the variable read from directives['infer_types'], the branch `is None`
    dirvar = None
    for n in walk_no_nested(fn):
        if isinstance(n, ast.Assign) and isinstance(n.targets[0], ast.Name) and isinstance(n.value, ast.Subscript) and \
                isinstance(n.value.slice, ast.Constant) and n.value.slice.value == 'infer_types':
            dirvar = n.targets[0].id
    if dirvar is None:
        raise AnalysisError("infer_types() no longer reads directives['infer_types'] into a local")
    sel = None
    for n in walk_no_nested(fn):
        if isinstance(n, ast.If) and isinstance(n.test, ast.Compare) and isinstance(n.test.left, ast.Name) and n.test.left.id == dirvar and \
                len(n.test.ops) == 1 and isinstance(n.test.ops[0], ast.Is) and isinstance(n.test.comparators[0], ast.Constant) and n.test.comparators[0].value is None:
            for s in n.body:
                if isinstance(s, ast.Assign) and isinstance(s.targets[0], ast.Name) and isinstance(s.value, ast.Name):
                    sel = (s.targets[0].id, s.value.id, s.lineno)
    if sel is None:
        raise AnalysisError('infer_types(): the `%s is None` branch binding the spanning-type function was not found' % dirvar)
    key = 'infer_types:safe-mode-selector'
    r.inst(key, sample='%s is None -> %s = %s' % (dirvar, sel[0], sel[1]))
    if sel[1] != sst.name:
        r.violate(key, TI, sel[2], 'in safe mode (infer_types=None) infer_types() uses %s instead of safe_spanning_type: might_overflow is ignored' % sel[1])
    # call sites
    local = sel[0]
    ncalls = 0
    sites = []

    def collect(node, where):
        # every call of the selected spanning-type function, in the function itself and in its nested helper functions
        # (walk_no_nested(<statement>) would look at the `body` of a compound statement only and miss its test / else branch)
        for ch in ast.iter_child_nodes(node):
            if isinstance(ch, (ast.FunctionDef, ast.AsyncFunctionDef)):
                collect(ch, ch.name)
                continue
            if isinstance(ch, (ast.ClassDef, ast.Lambda)):
                continue
            if isinstance(ch, ast.Call) and isinstance(ch.func, ast.Name) and ch.func.id == local:
                sites.append((where, ch))
            collect(ch, where)
    collect(fn, 'infer_types')
    seen_keys = {}
    for where, n in sorted(sites, key=lambda x: (x[1].lineno, x[1].col_offset)):
        ncalls += 1
        arg = None
        if len(n.args) > pos and not any(isinstance(a, ast.Starred) for a in n.args):
            arg = n.args[pos]
        for k in n.keywords:
            if k.arg == 'might_overflow':
                arg = k.value
        seen_keys[where] = seen_keys.get(where, 0) + 1
        key = 'infer_types:%s:%s(...)#%d' % (where, local, seen_keys[where])
        r.inst(key, sample='%s: %s' % (where, node_src(n, 90)))
        good = isinstance(arg, ast.Attribute) and arg.attr == 'might_overflow'
        if not good:
            r.violate('infer_types:%s:%s' % (where, node_src(n, 70).replace(' ', '')), TI, n.lineno,
                      '%s (in %s) passes %s as might_overflow (parameter %d of safe_spanning_type) instead of the entry\'s might_overflow flag: overflow marking has no effect on this inference step'
                      % (node_src(n, 90), where, node_src(arg) if arg is not None else 'nothing', pos))
    if ncalls < 2:
        raise AnalysisError('only %d calls of %s(...) found in infer_types()' % (ncalls, local))
    # pipeline order
    pl = ix.mod('Pipeline')
    cp = pl.functions.get('create_pipeline')
    if cp is None:
        raise AnalysisError('Pipeline.create_pipeline vanished')
    stages = None
    for n in walk_no_nested(cp):
        if isinstance(n, ast.Assign) and isinstance(n.targets[0], ast.Name) and n.targets[0].id == 'stages' and isinstance(n.value, ast.List):
            stages = n.value
    if stages is None:
        raise AnalysisError('create_pipeline: `stages = [...]` not found')
    order = []
    for e in stages.elts:
        if isinstance(e, ast.Call) and isinstance(e.func, ast.Name):
            order.append(e.func.id)
        elif isinstance(e, ast.Name):
            order.append(e.id)
    # transforms whose methods call .infer_types()
    callers = set()
    ptt = ix.mod('ParseTreeTransforms')
    for c in ptt.classes.values():
        for fnm, f in c.methods.items():
            if any(isinstance(x, ast.Call) and isinstance(x.func, ast.Attribute) and x.func.attr == 'infer_types' for x in walk_no_nested(f)):
                callers.add(c.name)
    callers &= set(order)
    if not callers:
        raise AnalysisError('no pipeline stage calls infer_types()')
    for c in sorted(callers):
        key = 'pipeline:%s<%s' % (vis.name, c)
        r.inst(key, sample='stages: %s at %s, %s at %s' % (vis.name, order.index(vis.name) if vis.name in order else None, c, order.index(c)))
        if vis.name not in order:
            r.violate(key, pl.rel, stages.lineno, '%s is not a stage of create_pipeline: might_overflow is never set, every integer variable is inferred as a C integer' % vis.name)
        elif order.index(vis.name) > order.index(c):
            r.violate(key, pl.rel, stages.lineno, '%s runs after %s (which calls infer_types()): the marks arrive after the types were chosen' % (vis.name, c))
    return r


# ---------------------------------------------------------------------------------------------------- (e) NameNode.infer_type
def name_table(dom, name_cls, fnode):
    out = []
    for is_int in (True, False):
        for mo in (True, False):
            inferred = dom.T('C long' if is_int else 'C double', is_int=is_int, is_float=not is_int, is_numeric=True)
            entry = Obj('entry', flag_default=False, type=dom.py_object, might_overflow=mo, annotation=None, scope=Obj('scope', flag_default=False))
            selfobj = Obj('NameNode', cls=name_cls, flag_default=False, entry=entry, name='x', inferred_type=inferred)
            ev = Eval(dom.ix, overrides=dom.overrides)
            try:
                res = ev.call(Method(RepoFn(name_cls.module, fnode, name_cls), selfobj), [Obj('env', lookup=lambda n, e=entry: e)])
            except Unsupported as e:
                raise AnalysisError('NameNode.infer_type cannot be evaluated (is_int=%s, might_overflow=%s): %s' % (is_int, mo, e))
            out.append((is_int, mo, res is inferred, getattr(res, 'label', repr(res))))
    return out


def rule_NAME(ctx):
    r = Rule('C40-NAME', 'NameNode.infer_type does not return the locally inferred C integer type for an object-typed entry that might overflow', floor=4)
    ix = ctx.index
    name_cls = ix.cls('ExprNodes', 'NameNode')
    fn = name_cls.methods.get('infer_type')
    if fn is None:
        raise AnalysisError('NameNode.infer_type vanished')
    dom = TypeDomain(ctx)
    for is_int, mo, same, res in name_table(dom, name_cls, fn):
        key = 'NameNode.infer_type:inferred %s|might_overflow=%s' % ('C integer' if is_int else 'C double', mo)
        r.inst(key, sample='%s -> %s' % (key, res), nontrivial=is_int and mo)
        if is_int and mo and same:
            r.violate(key, name_cls.module.rel, fn.lineno, 'NameNode.infer_type returns the flow-local inferred C integer type for a variable whose entry is a Python object and '
                      'might overflow: expressions using the name are computed in C and wrap around')
    pc = ast.parse("def infer_type(self, env):\n    if self.entry.type.is_pyobject and self.inferred_type:\n        return self.inferred_type\n    return self.entry.type\n").body[0]
    r.positive_control(any(i and mo and same for i, mo, same, _ in name_table(dom, name_cls, pc)), 'variant that ignores might_overflow')
    return r


def run(ctx):
    ix = ctx.index
    vis = ix.cls('TypeInference', 'MarkOverflowingArithmetic')
    mpa = ix.cls('TypeInference', 'MarkParallelAssignments')
    v1 = tree_rules.rule_V1_visit(ctx, visitors=[vis, mpa], floor=20)
    v1.id = 'C40-V1'
    for f in v1.findings:
        f.rule = 'C40-V1'
    # C40-PYTYPE: the character merges it found were repaired in /repo (53b766066); the numeric merges (int+float, int+complex, float+complex -> one C number)
    # are long-standing documented-by-behaviour Cython semantics whose repair breaks `total = 0; total += x[i]` idioms in nogil code: recorded as known findings K11
    return [rule_SST(ctx), rule_V3(ctx, vis), rule_OPS(ctx, vis), v1, rule_WIRE(ctx, vis), rule_NAME(ctx), sC40.rule_BOOL(ctx), sC40.rule_PYTYPE(ctx),
            sC40.rule_ENV(ctx, vis), sC40.rule_WIDTH(ctx), sC40.rule_LITRANGE(ctx), sC40.rule_NONE(ctx), sC40.rule_DEL(ctx), sC40.rule_RANGEVAR(ctx),
            sC40.rule_CLOSURE(ctx),          # known finding K12: might_overflow of a closure variable is set on the InnerEntry only (the repair changes inference results that upstream doctests pin)
            sC40.rule_FORWARD(ctx, vis),     # found CondExprNode / BoolBinopNode visited as "safe" (repaired: a4c81cd1f)
            s4C40.rule_SELECT(ctx), s4C40.rule_SELWIRE(ctx),
            s4C40.rule_SELCHAR(ctx),       # armed after the repair (round six, FINDING_1): independent_spanning_type(Py_UCS4, C long) was C long on the unmodified tree
            dD1.rule_infscope(ctx), dD1.rule_itemtype(ctx),     # round six (rules/dD1.py), armed after the repairs 7519bb408 and 19bd3db7a
            ]
