"""C36 — memory safety / undefined behaviour under the default safety directives: compile-time witness for the MIN / -1 and
zero-division guards of the C integer division nodes, dead branches in the shift-sanitising templates, scoping discipline of the safety directives."""
import ast, itertools, re

from ..core import Rule, AnalysisError, node_src
from ..engine import tables
from ..engine.pyindex import walk_no_nested, is_self_attr
from ..rules import pC32 as E
from ..rules import pC36 as W
from ..rules.pC32 import Obj, Fresh, Call, Str, NOTFOUND, Evaluator
from ..rules.pC15 import tempita_tokens
from ..rules.iface import const_strs, local_env, LOADERS
from ..rules.scoped import rule_V3_attr

ID = 'C36'
TECHNIQUE = ('W1 compile-time witness: the guard text emitted by DivNode.generate_div_warning_code is extracted by evaluating the generator method as an AST over its finite '
             'domain (operator x explicit-signedness), instantiated for every signed C integer type of rank >= int with the operands (MIN, -1), (MIN, 1), (7, -1), (x, 0) and '
             'handed to `clang -fsyntax-only` as _Static_assert (clang as parser / constant evaluator; nothing is compiled to code or run); clang JSON AST of the specialised '
             'CMath.c helper for unguarded signed / and %; P2 dead-branch analysis of the Tempita conditions against the dispatch dictionary of the template; '
             'save/restore dataflow for directive scopes; receiver analysis of the safety-directive reads; OVF magnitude (interval) analysis of the expanded PyLongBinop '
             'template on every path over the complete model space sizeof(long) x PyLong_SHIFT x digit count, with the constant bound taken from Optimize.py; '
             'fourth round: partial evaluation of Buffer.put_buffer_lookup_code on a model code writer for all flag combinations, the emitted C executed with C conversion rules on the complete partition of an '
             'index relative to the extent (BOUNDS); the index predicate all fast paths share evaluated the same way (VALIDX); decision table of the unbound / uninitialised check of NameNode and shape of the '
             'emitted checks (INIT); magnitude analysis of the shift counts of the PyLongBinop fast path with the admitted count range extracted from the Optimize.py handlers, plus a validated-shift typestate (SHIFTW)')
DECIDES = ('C36-W1: for every operator handled by DivNode and its subclasses (/, //, %) and T in the signed integer types of rank >= int taken from PyrexTypes.rank_to_type_name: '
           'C leaves T_MIN / -1 and T_MIN % -1 undefined (C11 6.5.5p6), so either the guard the generator emits before the operation is true for (T_MIN, (T)-1) on the '
           'host data model — and false for (T_MIN, 1) and (7, -1) — or the C helper performing the operation (section loaded by the node, specialised for T) contains no '
           'signed / or % on its divisor parameter that is not under a comparison of that parameter with -1; the zero-division guard is true for divisor 0 and false for 1. '
           'C36-P2: in the PyLongBinop / PyLongCompare / PyFloatBinop templates (Lshift/Rshift sanitising lives there) every string literal the template variables op / c_op / order '
           'are compared with belongs to the value domain of that variable (keys / values of the template\'s own dispatch dictionary, order values passed by Optimize.py). '
           'C36-SCOPE: CompilerDirectivesMixin.apply_directives saves, sets, yields, restores; every phase method of CompilerDirectivesNode runs self.body inside '
           'apply_directives on the scope object the phase reads (env for analyse_*, code.globalstate for generate_*/annotate, both for generate_function_definitions); '
           'every read of boundscheck / wraparound / initializedcheck / nonecheck in Cython/Compiler is made on a scoped mapping (<scope parameter>.directives, '
           '<code>.globalstate.directives, a visitor\'s current_directives, or a `directives` parameter that every caller fills from one of these). '
           'C36-V3: visitors that rebind directives / current_directives restore the saved value. '
           'C36-OVF: for every operator of PyLongBinop whose result can exceed its operands (c_op + - *), both operand orders, sizeof(long) in {4, 8}, every PyLong_SHIFT of '
           'longintrepr.h and every digit count, each signed + - * and unary - executed on a path of __Pyx_Unpacked_<name> has a result bound that fits the C type it is '
           'evaluated in, where |digit| < 2**SHIFT, |pylong_join(N, ..)| < 2**(N*SHIFT) and |constant| <= the cut-off optimise_numeric_binop admits for that operator '
           '(head-room tests `8*sizeof(T)-1 > N*PyLong_SHIFT[+h]` are evaluated, not pattern-matched: any equivalent formulation passes, any that admits an overflowing size fires). '
           'C36-BOUNDS: for boundscheck x wraparound x negative_indices x signed/unsigned index, the C emitted by Buffer.put_buffer_lookup_code (buffer AND memoryview element access) takes the error exit exactly '
           'for indices outside [0, extent) after the enabled wrap-around and accesses the wrapped index; without boundscheck it wraps negative indices exactly when wraparound is on. '
           'C36-VALIDX: __Pyx_is_valid_index(i, limit) <=> 0 <= i < limit. C36-INIT: NameNode emits the unbound check for a local iff it may be NULL, NULL is not allowed and it is an object or a memoryview under '
           'initializedcheck; put_error_if_unbound and the memoryview-attribute check test `!value`, raise and take the error exit. '
           'C36-SHIFTW: every << / >> of the Lshift / Rshift fast path has a count below the width of the shifted type for every constant the Optimize.py handlers admit (host data model: finding, others: information), '
           'and every signed left shift whose result need not fit is validated by a round-trip comparison before it is returned.')
NOT_DECIDED = ('everything a sanitizer would observe at run time: arithmetic inside the C helpers other than the + - * and shift fast path of PyLongBinop (overflow of i + size, shifts inside __Pyx_PyLong_* and pylong_join, the / and % blocks whose q*b term needs relational reasoning), that every array access of the C helpers sits behind __Pyx_is_valid_index (C15 decides the item fast paths), '
               'that the guard is emitted before the operation is evaluated, polarity of each directive read (C15/C16 decide it for the index paths), none checks (off by default), '
               'use-after-free and alignment. DESIGN clause (b) "I6 for bounds/wraparound flags" is NOT armed here: on the emitted calls that carry these flags the generic '
               'mutual-swap rule has 3 resolvable sites and cannot see a swap (C parameter has_cstart vs Python name has_c_start), while C15-FLAGS / C15-SLICE / C16-TPL decide '
               'the name-aligned order of exactly these constructs with their own normalisation. Cross data models (ILP32, LLP64) are evaluated and reported as information only, because only the host result can be confirmed by running.')
DECIDES += (' C36-RAISEEXIT (rules/s8C36.py, round 8): for every exception-setting call (__Pyx_Raise*, PyErr_SetString / Format / SetNone / SetObject / NoMemory) emitted by a generator function of '
            'Cython/Compiler, on every path of the generator (Python AST, block structure of the emitted C tracked across emissions, else arms skipped): an unconditional exit (goto / return / '
            'error_goto / put_goto) is emitted before an unconditional plain C statement that follows the closed raising block - unless a later conditional error exit tests an operand of a '
            'condition enclosing the raise (the `retcode < 0` idiom of Buffer.put_assign_to_buffer).')
NOT_DECIDED += (' RAISEEXIT: raise emissions whose generator function ends (or only emits labels / conditional statements) before an exit or a plain statement hand the obligation to the callers '
                '(counted, information only: no interprocedural continuation); loops of the generator are walked zero / one time; raises inside the C utility files are not covered (C22 / C35 own those).')
ASSUMPTIONS = ['operands of a C integer division node have been coerced to the result type, so the operand type equals the result type in the witness',
               'the host clang target has the data model of the platform the extension is built on']
EXEMPT = {
    ('C36-P2', "Optimize.c:PyLongBinop:op==LShift@op=='LShift'orop=='Rshift'"):
        "typo for 'Lshift' in the long-long branch: the guarded statement `if ((!negative_shift_works) && lla < 0) goto fallback;` is dead only where negative_shift_works == 0; "
        'on every GCC/Clang/MSVC x86/ARM target it is a no-op, and the Rshift half of the condition is live (DESIGN.md section 7)',
}

MUTATIONS = [
    # (file, single edit on a scratch copy, rule / construct that reported it); every variant produced a NEW violation (exit 1) in addition to the 4 standing findings
    ('Cython/Compiler/ExprNodes.py', 'generate_div_warning_code: `minus1_check = \'unlikely(%s == -1)\'` -> `== 1`', 'C36-W1 div:*:signed-explicit'),
    ('Cython/Compiler/ExprNodes.py', 'generate_div_warning_code: `zero_test = "%s == 0"` -> `"%s != 0"`', 'C36-W1 zero:*'),
    ('Cython/Compiler/ExprNodes.py', 'generate_div_warning_code: `(!(((%s)-1) > 0))` -> `((((%s)-1) > 0))`', 'C36-W1 div:long / div:PY_LONG_LONG'),
    ('Cython/Compiler/ExprNodes.py', 'generate_div_warning_code: `sizeof(%s) == sizeof(long)` -> `sizeof(%s) == sizeof(int)` (repairs int, breaks long)', 'C36-W1 div:long, div:PY_LONG_LONG'),
    ('Cython/Utility/Overflow.c', '__Pyx_UNARY_NEG_WOULD_OVERFLOW: `((x) < 0)` -> `((x) > 0)`', 'C36-W1 div:long, div:PY_LONG_LONG'),
    ('Cython/Compiler/ExprNodes.py', "generate_div_warning_code: `self.operator != '%'` -> `self.operator == '%'`", 'C36-W1 div:long, div:PY_LONG_LONG (guard gone for / and //)'),
    ('Cython/Compiler/ExprNodes.py', 'generate_div_warning_code: operand1.result() <-> operand2.result() swapped in the overflow guard', 'C36-W1'),
    ('Cython/Utility/Optimize.c', "PyLongBinop: `{{if op == 'Rshift'}}` (long clamp) -> `'RShift'`", 'C36-P2 Optimize.c:PyLongBinop:op==RShift'),
    ('Cython/Utility/Optimize.c', "PyLongBinop: `{{if op == 'Lshift'}}` before the overflow re-check -> `'LShift'`", 'C36-P2 (second occurrence, count in message)'),
    ('Cython/Utility/Optimize.c', "PyLongBinop: `{{if op == 'Rshift' or op == 'Lshift'}}` -> `'Rshift' or op == 'Lshft'`", 'C36-P2 Optimize.c:PyLongBinop:op==Lshft'),
    ('Cython/Utility/Optimize.c', "PyLongBinop: `{{elif order == 'CObj' and c_op in '+-|^>><<'}}` -> `'+-|^><'`", 'C36-P2 c_op substring'),
    ('Cython/Utility/Optimize.c', "PyLongBinop: `order == 'CObj'` -> `order == 'Cobj'`", 'C36-P2 order'),
    ('Cython/Compiler/Nodes.py', 'apply_directives: delete `obj.directives = old`', 'C36-SCOPE apply_directives'),
    ('Cython/Compiler/Nodes.py', 'CompilerDirectivesNode.generate_execution_code: `with self.apply_directives(code.globalstate)` dropped', 'C36-SCOPE CompilerDirectivesNode.generate_execution_code'),
    ('Cython/Compiler/Nodes.py', 'CompilerDirectivesNode.generate_function_definitions: only apply_directives(env)', 'C36-SCOPE CompilerDirectivesNode.generate_function_definitions'),
    ('Cython/Compiler/ExprNodes.py', "`code.globalstate.directives['boundscheck']` -> `Options.get_directive_defaults()['boundscheck']`", 'C36-SCOPE read'),
    ('Cython/Compiler/ExprNodes.py', 'put_buffer_lookup_code(..., directives=code.globalstate.directives) -> directives=self.directives', 'C36-SCOPE read (caller of Buffer.put_buffer_lookup_code)'),
    ('Cython/Compiler/Visitor.py', 'visit_CompilerDirectivesMixin: delete `self.current_directives = old`', 'C36-V3'),
    ('Cython/Compiler/Nodes.py', 'apply_directives: `obj.directives = old` -> `obj.directives = self.directives`', 'C36-SCOPE apply_directives'),
    ('Cython/Compiler/Nodes.py', 'CompilerDirectivesNode.analyse_expressions: body analysed after (outside) the with block', 'C36-SCOPE CompilerDirectivesNode.analyse_expressions'),
    ('Cython/Compiler/ExprNodes.py', 'MISSED (clause not armed, see NOT_DECIDED): SliceIndexNode GetSlice call with {has_c_start:d} / {has_c_stop:d} swapped — reported by C15-SLICE', '-'),
    ('Cython/Utility/Optimize.c', 'seed C36a: PyLongBinop long long head-room test loses `+30` for multiplication', 'C36-OVF ovf:Multiply{ObjC,CObj}:size{2,3,4}:lla * llb'),
    ('Cython/Compiler/Optimize.py', 'optimise_numeric_binop: cut-off `abs(numval.constant_result) > 2**30` -> `2**31`', 'C36-OVF ovf:Add*/Subtract*:size1:a + b / a - b (32-bit long)'),
    ('Cython/Utility/Optimize.c', 'PyLongBinop calculate_long for `*`: `lla = a; goto calculate_long_long` -> `{ long x = a * b; return PyLong_FromLong(x); }`', 'C36-OVF ovf:Multiply*:size1:a * b'),
    ('Cython/Utility/Optimize.c', 'PyLongBinop: head-room `+30` -> `+10` in both tests', 'C36-OVF ovf:Multiply*:size3:lla * llb'),
    ('Cython/Utility/Optimize.c', 'PyLongBinop: long long test `{{_size}} * PyLong_SHIFT` -> `{{_size-1}} * PyLong_SHIFT`', 'C36-OVF ovf:Add*/Subtract*/Multiply*:size3'),
    # fourth round: stored under /verif/mutants/C36/<name>/ and replayed by the thorough tier
    ('Cython/Compiler/Buffer.py', 'buf-bounds-gt / buf-wrap-recheck / buf-wraponly-sign / buf-failed-test-inverted / buf-nowrap-accepts-negative', 'C36-BOUNDS'),
    ('Cython/Utility/TypeConversion.c', 'valid-index-le / valid-index-signed', 'C36-VALIDX'),
    ('Cython/Compiler/ExprNodes.py, Code.py', 'init-memslice-inverted / init-maybe-null-unchecked / init-unbound-polarity / init-attr-no-goto', 'C36-INIT'),
    ('Cython/Compiler/Optimize.py, Cython/Utility/Optimize.c', 'shift-count-64 (handler admits 64) / shift-validate-dropped (round-trip test of the long long shift removed)', 'C36-SHIFTW'),
    ('Cython/Utility/CMath.c', 'FIX variant: ModInt `if (b == -1) return 0;` before `a %% b`', 'C36-W1 mod:* go silent'),
    ('Cython/Compiler/ExprNodes.py', 'FIX variant: guard `sizeof(%s) >= sizeof(int)` and __Pyx_UNARY_NEG_WOULD_OVERFLOW generalised', 'C36-W1 div:int goes silent'),
]
SILENT_EDITS = [     # behaviour-preserving edits tried on the scratch copy: all 8 added no finding
    'C36-OVF: head-room `+30` -> `+20` (still sufficient in every model); `8 * sizeof(long) - 1 >` -> `8 * sizeof(long) + 1 >` (admits the same sizes); test written '
    '`N * PyLong_SHIFT+30 < 8 * sizeof(long) - 1 && N == size`; `llx = (lla) * (llb)`; `a *= -1` -> `a = -a`',
    'generate_div_warning_code: rename locals, turn the %-format of the guard into an f-string, reorder the conjuncts; zero test written `0 == (b)`',
    'Optimize.c: reorder rows of the c_op dictionary; `op == \'Rshift\' or op == \'Lshift\'` -> `op in (\'Lshift\', \'Rshift\')`',
    'apply_directives: `old, obj.directives = obj.directives, self.directives` ... try/finally around the yield',
    'MemoryView.generate_buffer_slice_code: `dmap = directives` local alias before the reads; BufferIndexNode: `gs = code.globalstate; gs.directives[...]`',
    'CompilerDirectivesNode.generate_function_definitions: two nested with statements instead of one',
    'CMath.c DivInt: renamed / additional locals',
]
# Genuine defects on the unchanged tree reported by C36-W1 (both confirmed by running a compiled module outside /repo):
#  1. div:int  — DESIGN.md section 6 #12 (K1): `def div(int a, int b): return a // b`; div(-2**31, -1) -> SIGFPE (exit 136), default directives, LP64.
#  2. mod:int / mod:long / mod:PY_LONG_LONG — `def mod(long a, long b): return a % b`; mod(-2**63, -1): UBSan "division of -9223372036854775808 by -1 cannot be
#     represented in type 'long int'"; SIGFPE when the extension is built with gcc -O0 (and for int with plain -O2); returns 0 only under -fwrapv/-fno-strict-overflow.


# ====================================================================================== C36-W1
def _div_classes(ctx):
    """{class: [operators]} for DivNode and subclasses, from ExprNodes.binop_node_classes."""
    ix = ctx.index
    m = ix.mod('ExprNodes')
    tab = tables.module_assign(m.tree, 'binop_node_classes')
    if not isinstance(tab, ast.Dict):
        raise AnalysisError('ExprNodes.binop_node_classes not found')
    div = ix.cls('ExprNodes', 'DivNode')
    family = {c.name: c for c in [div] + ix.subclasses(div)}
    out = {}
    for k, v in zip(tab.keys, tab.values):
        if isinstance(k, ast.Constant) and isinstance(v, ast.Name) and v.id in family:
            out.setdefault(v.id, []).append(k.value)
    if not out:
        raise AnalysisError('no operator is mapped to DivNode in binop_node_classes')
    return family, out


def _int_types(ctx):
    tree = ctx.parse('Cython/Compiler/PyrexTypes.py')
    tab = tables.module_assign(tree, 'rank_to_type_name')
    names = tables.literal(tab) if tab is not None else None
    if not names or 'int' not in names or 'float' not in names:
        raise AnalysisError('PyrexTypes.rank_to_type_name not found')
    out = list(names[names.index('int'):names.index('float')])
    for n in out:
        if n not in W.TYPE_LIMITS:
            raise AnalysisError('integer rank %r has no limit macro in the witness table' % n)
    return out


def _pretty(cv):
    cond, vals = cv
    return ' '.join(re.sub(r'§(\d+)§', lambda m: {'A': 'a', 'B': 'b', 'T': 'T'}.get(W.classify_placeholder(vals[int(m.group(1))]), '?'), cond).split())


def _div_oracle(op, signed2, is_int=True):
    def oracle(p):
        d = {'self.type.is_pyobject': False, 'self.type.is_complex': False, 'self.zerodivision_check': True, 'self.infix': True,
             'self.type.is_int': is_int, 'self.type.is_float': False, 'self.type.signed': 1, 'self.type.is_numeric': True, 'self.type.is_enum': False,
             'self.operator': op, 'self.in_nogil_context': False, 'self.operand2.type.signed': signed2, 'self.cdivision': False, 'self.truedivision': False,
             'self.ctruedivision': False, 'self.cdivision_warnings': False}
        if p in d:
            return d[p]
        if re.fullmatch(r".*\.directives\['cdivision(_warnings)?'\]", p):
            return False
        return NOTFOUND
    return oracle


def div_guards(cls_info, ix, op):
    """-> {(signed2): {'overflow': (cond, vals) | None, 'zero': (cond, vals) | None}}"""
    owner, fn = ix.find_method(cls_info, 'generate_div_warning_code') or (None, None)
    if fn is None:
        raise AnalysisError('%s.generate_div_warning_code vanished' % cls_info.name)
    res = {}
    for signed2 in (1, 2):
        per_path = W.emitted_guards(fn, _div_oracle(op, signed2), '%s.generate_div_warning_code' % cls_info.name)
        variants = set()
        entry = {'overflow': None, 'zero': None}
        for found in per_path:
            for guard, exc in found:
                kind = {'OverflowError': 'overflow', 'ZeroDivisionError': 'zero'}.get(exc)
                if kind is None:
                    continue
                if guard is None:
                    raise AnalysisError('%s.generate_div_warning_code raises %s without a recognisable `if (...)` line before it' % (cls_info.name, exc))
                entry[kind] = W.guard_condition(guard)
            variants.add(tuple(sorted((k, v[0] if v else None) for k, v in entry.items())))
        if len(variants) > 1:
            raise AnalysisError('%s.generate_div_warning_code: the guard depends on something outside the modelled domain' % cls_info.name)
        res[signed2] = entry
    return owner, fn, res


def helper_sections(cls_info, ix, op):
    """Utility sections the node loads for a signed C integer operation without cdivision -> [(section, file)]"""
    owner, fn = ix.find_method(cls_info, 'generate_evaluation_code') or (None, None)
    if fn is None:
        raise AnalysisError('%s.generate_evaluation_code vanished' % cls_info.name)
    secs = set()

    def call_oracle(f, a, k):
        return NOTFOUND
    ev = Evaluator(_div_oracle(op, 1), call_oracle, what='%s.generate_evaluation_code' % cls_info.name)
    for p in ev.run_function(fn):
        for c in p.events:
            if isinstance(c, Call) and c.name in LOADERS and len(c.args) >= 2 and isinstance(c.args[0], str) and isinstance(c.args[1], str):
                secs.add((c.args[0], c.args[1]))
    return sorted(secs)


def rule_w1(ctx):
    ix = ctx.index
    r = Rule('C36-W1', 'MIN / -1, MIN % -1 and x / 0 are excluded before a C integer division: emitted guard true at (T_MIN, -1) [compile-time witness] or the C helper tests its divisor against -1', floor=15)
    family, ops = _div_classes(ctx)
    types = _int_types(ctx)
    m = ix.mod('ExprNodes')
    asserts, decl_lines, meta = [], ['#define unlikely(x) (x)', '#define likely(x) (x)', '#define PY_LONG_LONG long long'], {}
    groups = {}
    for cname, oplist in sorted(ops.items()):
        c = family[cname]
        for op in oplist:
            owner, fn, res = div_guards(c, ix, op)
            sig = repr(sorted((s, k, v[0] if v else None) for s, e in res.items() for k, v in e.items()))
            groups.setdefault((cname, sig), {'ops': [], 'cls': c, 'fn': fn, 'res': res})['ops'].append(op)
    macros_missing = set()
    for (cname, sig), g in sorted(groups.items()):
        gname = {'/': 'div', '//': 'div', '%': 'mod'}.get(g['ops'][0], g['ops'][0])
        g['name'] = gname
        for signed2, entry in g['res'].items():
            for kind, cv in entry.items():
                if cv is None:
                    continue
                cond, vals = cv
                defs, missing = W.macro_defs(ctx, cond)
                macros_missing.update(missing)
                for dline in defs:
                    if dline not in decl_lines:
                        decl_lines.append(dline)
                for t in types:
                    ctype, tmin = W.TYPE_LIMITS[t]
                    if kind == 'overflow':
                        points = (('min/-1', tmin, '(%s)-1' % ctype, True), ('min/1', tmin, '(%s)1' % ctype, False), ('7/-1', '(%s)7' % ctype, '(%s)-1' % ctype, False))
                    else:
                        points = (('x/0', '(%s)7' % ctype, '(%s)0' % ctype, True), ('x/1', '(%s)7' % ctype, '(%s)1' % ctype, False))
                    for pname, a, b, want in points:
                        expr = W.instantiate(cond, vals, ctype, a, b)
                        key = (gname, kind, t, signed2, pname)
                        asserts.append((key, '(%s)' % expr if want else '!(%s)' % expr))
                        meta[key] = (cond, want)
    if macros_missing:
        raise AnalysisError('the guard uses macro(s) %s that Cython/Utility does not define' % sorted(macros_missing))
    host = W.static_asserts(decl_lines, asserts) if asserts else {}
    cross = {}
    for label, target in W.CROSS_TARGETS:
        try:
            cross[label] = W.static_asserts(decl_lines, asserts, target=target)
        except AnalysisError:
            cross[label] = None

    # C helper bodies
    helper_unguarded = {}
    for (cname, sig), g in sorted(groups.items()):
        secs = helper_sections(g['cls'], ix, g['ops'][0])
        g['secs'] = secs
        # the helper is a %(type)s template; for every type of rank >= int no integer promotion changes the type of `a / b`, so one
        # specialisation (the widest type) decides all of them
        ctype = W.TYPE_LIMITS[types[-1]][0]
        ung = []
        n_ops = 0
        for sec, fil in secs:
            s = ctx.cat.files.get(fil, {}).get(sec, {}).get('impl')
            if s is None:
                raise AnalysisError('utility section %s::%s loaded by %s not found' % (fil, sec, cname))
            text = W.specialize_c(s.text, ctype, 'T')
            for fname in re.findall(r'\b(__Pyx_\w+)\s*\([^;{)]*\)\s*\{', text):
                for opc, guarded in W.unguarded_signed_divisions(text, fname):
                    n_ops += 1
                    if not guarded:
                        ung.append('%s::%s %s: `%s` on its divisor parameter' % (fil, sec, fname.replace('_T', '_<type>'), opc))
        for t in types:
            helper_unguarded[(g['name'], t)] = (ung, n_ops)

    n_groups = 0
    for (cname, sig), g in sorted(groups.items()):
        gname = g['name']
        n_groups += 1
        for t in types:
            # zero-division guard
            for signed2, entry in g['res'].items():
                key = 'zero:%s:%s' % (gname, t)
                if entry['zero'] is None:
                    r.inst(key, sample='%s %s: no zero-division guard' % (cname, g['ops']))
                    r.violate(key, m.rel, g['fn'].lineno,
                              '%s.generate_div_warning_code (operators %s) emits no zero-division guard for a C integer operation with zerodivision_check: x %s 0 is undefined behaviour (SIGFPE)' % (cname, g['ops'], g['ops'][0]))
                    continue
                bad = [pn for (gn, kind, tt, s2, pn), ok in host.items() if gn == gname and kind == 'zero' and tt == t and s2 == signed2 and not ok]
                r.inst(key + ':%d' % signed2, sample='%s: if (%s) instantiated for %s' % (key, _pretty(entry['zero']), t))
                if bad:
                    r.violate(key, m.rel, g['fn'].lineno,
                              '%s.generate_div_warning_code (operators %s): the zero-division guard `%s` instantiated for %s is %s: division by zero reaches the C operator (undefined behaviour, SIGFPE) '
                              'or every division raises' % (cname, g['ops'], _pretty(entry['zero']), t, ', '.join('wrong at ' + b for b in bad)))
            # MIN / -1
            key = '%s:%s' % (gname, t)
            ung, n_ops = helper_unguarded[(gname, t)]
            fails, fp = [], []
            conds = set()
            for signed2, entry in g['res'].items():
                if entry['overflow'] is None:
                    fails.append('no guard is emitted (divisor type %s)' % ('explicitly signed' if signed2 == 2 else 'plain'))
                    continue
                conds.add(_pretty(entry['overflow']))
                for (gn, kind, tt, s2, pn), ok in host.items():
                    if gn == gname and kind == 'overflow' and tt == t and s2 == signed2 and not ok:
                        if pn == 'min/-1':
                            fails.append('the guard `%s` is false for (a, b) = (%s_MIN, -1)%s' % (_pretty(entry['overflow']), t, ' (explicitly signed divisor)' if signed2 == 2 else ''))
                        else:
                            fp.append('the guard `%s` is true for the harmless operands %s' % (_pretty(entry['overflow']), pn))
            r.inst(key, sample='%s operators %s, %s: guard %s; helper sections %s with %d signed /,%% on the divisor (%d unguarded)' % (
                cname, g['ops'], t, sorted(conds) or 'none', g['secs'], n_ops, len(ung)))
            if fp:
                r.violate(key + ':false-positive', m.rel, g['fn'].lineno,
                          '%s.generate_div_warning_code (operators %s), type %s: %s: a legitimate division raises OverflowError' % (cname, g['ops'], t, '; '.join(sorted(set(fp)))))
            if fails and (ung or not n_ops):
                why = '; '.join(sorted(set(fails)))
                r.violate(key, m.rel, g['fn'].lineno,
                          '%s (operators %s) on signed `%s` operands with default directives: %s, and the operation is performed unguarded by %s: `%s_MIN %s -1` is undefined behaviour '
                          '(C11 6.5.5p6; SIGFPE on x86, reported by UBSan)' % (cname, ' '.join(g['ops']), t, why, '; '.join(ung) or 'the C operator', t, g['ops'][-1]))
            # other data models: information only
            for label, resd in cross.items():
                if resd is None:
                    continue
                bad = [pn for (gn, kind, tt, s2, pn), ok in resd.items() if gn == gname and kind == 'overflow' and tt == t and pn == 'min/-1' and not ok]
                if bad and ung and not fails:
                    r.info('%s:%s the MIN/-1 guard is false on the %s data model (not armed: cannot be confirmed by running here)' % (gname, t, label))
    # embedded positive example: the witness must reject the long-only guard for int and accept it for long
    pc_cond = 'sizeof(§0§) == sizeof(long) && unlikely(§1§ == -1) && unlikely(((§2§) < 0) & ((unsigned long)(§2§) == 0-(unsigned long)(§2§)))'
    pc_vals = {0: Call('self.type.empty_declaration_code', (), {}, None), 1: Call('self.operand2.result', (), {}, None), 2: Call('self.operand1.result', (), {}, None)}
    pcs = []
    for t in ('int', 'long'):
        ctype, tmin = W.TYPE_LIMITS[t]
        pcs.append((t, '(%s)' % W.instantiate(pc_cond, pc_vals, ctype, tmin, '(%s)-1' % ctype)))
    pr = W.static_asserts(['#define unlikely(x) (x)'], pcs)
    ung_pc = W.unguarded_signed_divisions('static inline int __Pyx_mod_T(int a, int b, int c) { int r = a % b; return r; }\n', '__Pyx_mod_T')
    g_pc = W.unguarded_signed_divisions('static inline int __Pyx_mod_T(int a, int b, int c) { if (b == -1) return 0; else { int r = a % b; return r; } }\n', '__Pyx_mod_T')
    r.positive_control(pr['long'] is True and (pr['int'] is False or 'int' not in [t for t in types if W.TYPE_LIMITS[t][0] == 'int']) and
                       ung_pc == [('%', False)] and g_pc == [('%', True)],
                       'long-only guard instantiated for int (LP64) / unguarded a % b in a helper')
    return r


# ====================================================================================== C36-P2
def rule_p2(ctx):
    ix = ctx.index
    r = Rule('C36-P2', 'no dead branch in the integer binop templates (shift sanitising): literals compared with op / c_op / order belong to the variable\'s value domain', floor=80)
    m = ix.mod('Optimize')
    fn = m.functions.get('optimise_numeric_binop')
    if fn is None:
        raise AnalysisError('Optimize.optimise_numeric_binop vanished')
    env = local_env(fn)
    load = None
    for n in walk_no_nested(fn):
        if isinstance(n, ast.Call) and isinstance(n.func, ast.Attribute) and n.func.attr in LOADERS and len(n.args) >= 2 and any(k.arg == 'context' for k in n.keywords):
            load = n
    if load is None:
        raise AnalysisError('optimise_numeric_binop no longer loads a Tempita utility with a context')
    names = const_strs(load.args[0], env)
    files = const_strs(load.args[1], env)
    if not names or not files or len(files) != 1:
        raise AnalysisError('cannot resolve the utility sections loaded by optimise_numeric_binop')
    fil = next(iter(files))
    ctxd = next(k.value for k in load.keywords if k.arg == 'context')
    pyvals = {}
    if isinstance(ctxd, ast.Call) and isinstance(ctxd.func, ast.Name) and ctxd.func.id == 'dict':
        for k in ctxd.keywords:
            pyvals[k.arg] = const_strs(k.value, env)
    elif isinstance(ctxd, ast.Dict):
        for k, v in zip(ctxd.keys, ctxd.values):
            if isinstance(k, ast.Constant):
                pyvals[k.value] = const_strs(v, env)
    else:
        raise AnalysisError('optimise_numeric_binop: context is not a dict(...) display')
    if 'op' not in pyvals or 'order' not in pyvals:
        raise AnalysisError('optimise_numeric_binop: context has no op / order entries')
    if not pyvals['order']:
        raise AnalysisError('optimise_numeric_binop: the values of `order` are not a finite set of constants')

    def check_section(sec_name, text, report):
        nodes = W.template_python_nodes(text, tempita_tokens)
        domains = {'order': set(pyvals['order'])}
        for tgt, var, mapping in W.dispatch_dicts(nodes):
            if var == 'op' and all(isinstance(k, str) for k in mapping):
                domains.setdefault('op', set()).update(mapping)
                if tgt and all(isinstance(v, str) for v in mapping.values()):
                    domains.setdefault(tgt, set()).update(mapping.values())
        n = 0
        for var, form, lits, src, csrc in W.literal_comparisons(nodes, domains):
            n += 1
            dom = domains[var]
            for lit in lits:
                if form in ('eq', 'in'):
                    ok = lit in dom
                else:
                    ok = W.decompose(lit, dom) is not None
                report(sec_name, var, form, lit, ok, dom, csrc, src)
        return n, domains

    total = 0
    seen_bad = {}
    for name in sorted(names):
        secs = ctx.cat.files.get(fil, {}).get(name)
        if not secs:
            raise AnalysisError('utility section %s::%s not found' % (fil, name))
        for typ, s in sorted(secs.items()):
            def report(sec_name, var, form, lit, ok, dom, csrc, src, typ=typ, s=s):
                key = '%s:%s:%s%s%s@%s' % (fil, sec_name, var, '==' if form != 'substr' else '~', lit, re.sub(r'\s+', '', src))
                r.inst(key, sample='%s.%s: %s' % (sec_name, typ, csrc), nontrivial=True)
                if not ok:
                    seen_bad.setdefault(key, []).append((s, csrc, dom, form))
            n, domains = check_section(name, s.raw or s.text, report)
            total += n
            if typ == 'impl' and 'op' not in domains:
                raise AnalysisError('%s::%s has no `{...}[op]` dispatch dictionary; the value domain of op is unknown' % (fil, name))
    for key, hits in sorted(seen_bad.items()):
        s, csrc, dom, form = hits[0]
        var = key.split(':')[2].split('=')[0].split('~')[0]
        lit = key.split('@')[0].split('==')[-1].split('~')[-1]
        r.violate(key, 'Cython/Utility/' + fil, s.line,
                  'template %s::%s tests `%s`%s, but %r is not %s of %s (values: %s): the branch is dead (or always taken) for every instantiation, so the code it guards — '
                  'e.g. the clamp / re-check that keeps a shift inside the width of the type — is never (or always) generated'
                  % (fil, s.name, csrc, ' (%d occurrences)' % len(hits) if len(hits) > 1 else '', lit,
                     'a concatenation of values' if form == 'substr' else 'a value', var, ', '.join(sorted(dom))))
    # positive control
    got = []
    check_section('X', "{{py: c_op = {'Rshift': '>>', 'Lshift': '<<'}[op] }}\n{{if op == 'RShift'}}x{{endif}}{{if c_op in '>><'}}y{{endif}}{{if order == 'CObj'}}z{{endif}}",
                  lambda sec, var, form, lit, ok, dom, csrc, src: got.append((var, lit, ok)))
    r.positive_control(('op', 'RShift', False) in got and ('c_op', '>><', False) in got and ('order', 'CObj', True) in got, "op == 'RShift', c_op in '>><'")
    return r


# ====================================================================================== C36-SCOPE
SAFETY = ('boundscheck', 'wraparound', 'initializedcheck', 'nonecheck')


def _apply_directives_problems(fn):
    """save -> set -> yield -> restore, on the same object, through the same local."""
    probs = []
    params = [a.arg for a in fn.args.args]
    if len(params) != 2:
        return ['takes %d parameters, expected (self, obj)' % len(params)]
    obj = params[1]
    events = []
    body_nodes = []

    def visit(stmts, in_finally=False):
        for s in stmts:
            if isinstance(s, ast.Try):
                visit(s.body)
                visit(s.finalbody, True)
                continue
            if isinstance(s, (ast.With,)):
                visit(s.body)
                continue
            if isinstance(s, (ast.If, ast.For, ast.While)):
                probs.append('contains control flow the scope rule does not model')
                continue
            body_nodes.append(s)
            for n in ast.walk(s):
                if isinstance(n, (ast.Yield, ast.YieldFrom)):
                    events.append(('yield', None))
            if isinstance(s, ast.Assign):
                tgts, vals = [], []
                if len(s.targets) == 1 and isinstance(s.targets[0], ast.Tuple) and isinstance(s.value, ast.Tuple) and len(s.targets[0].elts) == len(s.value.elts):
                    pairs = list(zip(s.targets[0].elts, s.value.elts))
                else:
                    pairs = [(t, s.value) for t in s.targets]
                # tuple assignment evaluates all right-hand sides first
                for t, v in pairs:
                    if isinstance(t, ast.Name) and isinstance(v, ast.Attribute) and v.attr == 'directives' and isinstance(v.value, ast.Name) and v.value.id == obj:
                        events.append(('save', t.id))
                for t, v in pairs:
                    if isinstance(t, ast.Attribute) and t.attr == 'directives' and isinstance(t.value, ast.Name) and t.value.id == obj:
                        if is_self_attr(v) and v.attr == 'directives':
                            events.append(('set', None))
                        elif isinstance(v, ast.Name):
                            events.append(('restore', v.id))
                        else:
                            events.append(('set-other', node_src(v)))
    visit(fn.body)
    kinds = [e[0] for e in events]
    if kinds != ['save', 'set', 'yield', 'restore']:
        probs.append('does %s instead of save, set, yield, restore on %s.directives' % (' '.join(kinds) or 'nothing', obj))
    elif events[0][1] != events[3][1]:
        probs.append('restores %s.directives from %r, not from the saved %r' % (obj, events[3][1], events[0][1]))
    return probs


def _phase_scopes(fn):
    """For a phase method of CompilerDirectivesNode: (objects wrapped by apply_directives around the body call, params, is body processed under them)"""
    params = [a.arg for a in fn.args.args]
    wrapped, body_inside, body_calls = [], False, 0
    for n in ast.walk(fn):
        if isinstance(n, ast.Call) and isinstance(n.func, ast.Attribute) and is_self_attr(n.func.value) and n.func.value.attr == 'body':
            body_calls += 1
    for n in ast.walk(fn):
        if isinstance(n, ast.With):
            objs = []
            for it in n.items:
                c = it.context_expr
                if isinstance(c, ast.Call) and isinstance(c.func, ast.Attribute) and c.func.attr == 'apply_directives' and is_self_attr(c.func) and c.args:
                    objs.append(node_src(c.args[0]))
            inside = sum(1 for s in n.body for x in ast.walk(s) if isinstance(x, ast.Call) and isinstance(x.func, ast.Attribute) and is_self_attr(x.func.value) and x.func.value.attr == 'body')
            if objs and inside:
                wrapped.extend(objs)
                body_inside = inside == body_calls
    return wrapped, params, body_inside, body_calls


def _aliases(fn):
    """local name -> access path it is bound to (names assigned exactly once from a Name/Attribute)."""
    count, val = {}, {}
    for n in walk_no_nested(fn):
        if isinstance(n, (ast.Assign, ast.AugAssign, ast.AnnAssign, ast.For, ast.With, ast.NamedExpr)):
            for x in ast.walk(n):
                if isinstance(x, ast.Name) and isinstance(x.ctx, ast.Store):
                    count[x.id] = count.get(x.id, 0) + 1
        if isinstance(n, ast.Assign) and len(n.targets) == 1 and isinstance(n.targets[0], ast.Name) and isinstance(n.value, (ast.Attribute, ast.Name)):
            val[n.targets[0].id] = n.value
    return {k: v for k, v in val.items() if count.get(k) == 1}


def rule_scope(ctx):
    ix = ctx.index
    r = Rule('C36-SCOPE', 'the safety directives are read from a scoped mapping, and the scope is applied around / restored after every compiler-directives block', floor=23)
    nodes = ix.mod('Nodes')
    mix = ix.cls('Nodes', 'CompilerDirectivesMixin')
    ap = mix.methods.get('apply_directives')
    if ap is None:
        raise AnalysisError('CompilerDirectivesMixin.apply_directives vanished')
    r.inst('Nodes.CompilerDirectivesMixin.apply_directives', sample='apply_directives: save/set/yield/restore')
    if not any(isinstance(d, ast.Name) and d.id == 'contextmanager' or isinstance(d, ast.Attribute) and d.attr == 'contextmanager' for d in ap.decorator_list):
        r.violate('Nodes.CompilerDirectivesMixin.apply_directives:contextmanager', nodes.rel, ap.lineno, 'apply_directives is no longer a @contextmanager: `with self.apply_directives(x)` would not apply anything')
    for pb in _apply_directives_problems(ap):
        r.violate('Nodes.CompilerDirectivesMixin.apply_directives', nodes.rel, ap.lineno,
                  'apply_directives %s: a directive block (e.g. @cython.boundscheck(False)) leaks into the code after it, which is then compiled without the default checks' % pb)
    cdn = ix.cls('Nodes', 'CompilerDirectivesNode')
    n_phase = 0
    for name, fn in cdn.methods.items():
        wrapped, params, inside, body_calls = _phase_scopes(fn)
        if not body_calls:
            continue
        n_phase += 1
        key = 'Nodes.CompilerDirectivesNode.' + name
        r.inst(key, sample='%s wraps %s' % (key, wrapped))
        need = []
        if 'env' in params or any(p for p in params[1:] if p not in ('code',)):
            need += [p for p in params[1:] if p != 'code']
        if 'code' in params:
            need.append('code.globalstate')
        missing = [x for x in need if x not in wrapped]
        if missing or not inside:
            r.violate(key, nodes.rel, fn.lineno,
                      'CompilerDirectivesNode.%s processes self.body %s: the body is %s with the directives of the enclosing scope instead of its own '
                      '(a nested `with cython.boundscheck(True)` inside an unchecked function stays unchecked, or the other way round)' % (
                          name, 'without applying self.directives to %s' % ', '.join(missing) if missing else 'outside the apply_directives block',
                          'analysed' if name.startswith('analyse') else 'generated'))
    if n_phase < 4:
        raise AnalysisError('CompilerDirectivesNode has only %d phase methods that process self.body' % n_phase)

    # ---- reads of the safety directives
    tv = ix.cls('Visitor', 'TreeVisitor')
    visitors = {c.qual for c in [tv] + ix.subclasses(tv)}
    param_reads = {}      # (module short, function name, param) -> [read node]

    def receiver_kind(recv, fn, owner, aliases):
        """'scoped' | ('param', name) | 'unscoped:<text>'"""
        params = [a.arg for a in fn.args.posonlyargs + fn.args.args + fn.args.kwonlyargs]

        def resolve(e, depth=0):
            # follow single-assignment local aliases inside the access path (gs = code.globalstate; d = gs.directives)
            if depth > 4:
                return e
            if isinstance(e, ast.Name) and e.id in aliases and e.id not in params:
                return resolve(aliases[e.id], depth + 1)
            if isinstance(e, ast.Attribute):
                return ast.Attribute(value=resolve(e.value, depth + 1), attr=e.attr, ctx=ast.Load())
            return e
        recv = resolve(recv)
        if isinstance(recv, ast.Name):
            if recv.id in params:
                return ('param', recv.id)
            if any(isinstance(x, ast.Name) and x.id == recv.id and isinstance(x.ctx, ast.Store) for x in walk_no_nested(fn)):
                raise AnalysisError('%s: the directives mapping is read through the local `%s`, which is bound more than once or to a computed value; '
                                    'the scope rule cannot resolve it' % (fn.name, recv.id))
            return 'unscoped:' + recv.id
        if isinstance(recv, ast.Attribute) and recv.attr in ('directives', 'current_directives'):
            base = recv.value
            if isinstance(base, ast.Name) and base.id in params and base.id != 'self' and recv.attr == 'directives':
                return 'scoped'
            if isinstance(base, ast.Attribute) and base.attr == 'globalstate' and isinstance(base.value, ast.Name) and base.value.id in params and recv.attr == 'directives':
                return 'scoped'
            if isinstance(base, ast.Name) and base.id == 'self' and owner is not None and owner.qual in visitors:
                return 'scoped'
            if isinstance(base, ast.Call) and isinstance(base.func, ast.Attribute) and base.func.attr == 'current_env' and is_self_attr(base.func) and owner is not None and owner.qual in visitors:
                return 'scoped'
        return 'unscoped:' + node_src(recv, 60)

    reads = 0
    for m in ix.modules.values():
        if not m.name.startswith('Cython.Compiler') or m.short == 'Options':
            continue
        if not any(s in m.src for s in SAFETY):
            continue
        for qn, owner, fn in ix.functions_of(m):
            aliases = _aliases(fn)
            for n in walk_no_nested(fn):
                key_node, recv = None, None
                if isinstance(n, ast.Subscript) and isinstance(n.slice, ast.Constant) and n.slice.value in SAFETY and isinstance(n.ctx, ast.Load):
                    key_node, recv = n.slice.value, n.value
                elif isinstance(n, ast.Call) and isinstance(n.func, ast.Attribute) and n.func.attr == 'get' and n.args and isinstance(n.args[0], ast.Constant) and n.args[0].value in SAFETY:
                    key_node, recv = n.args[0].value, n.func.value
                if key_node is None:
                    continue
                reads += 1
                kind = receiver_kind(recv, fn, owner, aliases)
                key = '%s.%s:%s' % (m.short, qn, key_node)
                r.inst(key + '#%d' % reads, sample='%s reads %s[%r]' % (m.short + '.' + qn, node_src(recv, 50), key_node))
                if kind == 'scoped':
                    continue
                if isinstance(kind, tuple):
                    param_reads.setdefault((m.short, fn.name, kind[1]), []).append((m, fn, n, key))
                    continue
                r.violate(key, m.rel, n.lineno,
                          '%s reads the %s directive from `%s`, which is not a scoped directives mapping (<scope>.directives, <code>.globalstate.directives, a visitor\'s '
                          'current_directives): the value of the enclosing function / with-block is ignored, so code under the default directives can lose its %s'
                          % (m.short + '.' + qn, key_node, kind.split(':', 1)[1], 'check' if key_node != 'wraparound' else 'negative-index handling'))
    # callers of functions that take the mapping as a parameter
    for (mshort, fname, pname), sites in sorted(param_reads.items()):
        m0, fn0 = sites[0][0], sites[0][1]
        params = [a.arg for a in fn0.args.posonlyargs + fn0.args.args]
        n_callers = 0
        for m in ix.modules.values():
            if not m.name.startswith('Cython.Compiler') or fname not in m.src:
                continue
            for qn, owner, fn in ix.functions_of(m):
                aliases = _aliases(fn)
                for n in walk_no_nested(fn):
                    if not (isinstance(n, ast.Call) and (isinstance(n.func, ast.Attribute) and n.func.attr == fname or isinstance(n.func, ast.Name) and n.func.id == fname)):
                        continue
                    arg = None
                    for k in n.keywords:
                        if k.arg == pname:
                            arg = k.value
                    if arg is None:
                        idx = params.index(pname) - (1 if params and params[0] == 'self' and isinstance(n.func, ast.Attribute) else 0)
                        if 0 <= idx < len(n.args):
                            arg = n.args[idx]
                    if arg is None:
                        continue
                    n_callers += 1
                    kind = receiver_kind(arg, fn, owner, aliases)
                    key = '%s.%s->%s(%s=)' % (m.short, qn, fname, pname)
                    r.inst(key, sample='%s passes %s' % (key, node_src(arg, 50)))
                    if kind != 'scoped' and not (isinstance(kind, tuple)):
                        r.violate(key, m.rel, n.lineno,
                                  '%s passes `%s` as the directives mapping of %s.%s, which reads %s from it: not a scoped directives mapping, the checks of the enclosing scope are ignored'
                                  % (m.short + '.' + qn, node_src(arg, 60), mshort, fname, sorted({s[3].rsplit(':', 1)[1] for s in sites})))
        if not n_callers:
            raise AnalysisError('%s.%s reads safety directives from its parameter %s but no caller was found' % (mshort, fname, pname))
    if reads < 12:
        raise AnalysisError('only %d reads of the safety directives found' % reads)
    pc = ast.parse("def apply_directives(self, obj):\n    old = obj.directives\n    obj.directives = self.directives\n    yield\n").body[0]
    r.positive_control(bool(_apply_directives_problems(pc)), 'apply_directives without restore')
    return r


def run(ctx):
    from ..rules import slicenorm, sC36
    rules = [rule_w1(ctx), rule_p2(ctx), rule_scope(ctx), rule_V3_attr(ctx, rid='C36-V3'), slicenorm.rule_slice(ctx), sC36.rule_ovf(ctx)]
    # fourth round: the emitted index checks, the index predicate all fast paths share, initialisation checks, shift widths
    rules += [sC36.rule_bounds(ctx), sC36.rule_validx(ctx), sC36.rule_init(ctx), sC36.rule_shiftw(ctx)]
    # round 8: an emitted exception-setting call is followed by an exit before normal-path statements (seed C36l)
    from ..rules import s8C36
    rules.append(s8C36.rule_raise_exit(ctx))
    from ..rules import dD10
    rules.append(dD10.rule_idxovf(ctx))      # C13-IDXOVF: no signed overflow of index arithmetic in the builtin helpers (shared with C13; repairs 43a8e0658, 23cdba3dd)
    return rules
