"""C22 — exception handling semantics (structural clause: label/temporary discipline of the try/except/finally/with generators)."""
from ..rules import gen, gen2

ID = 'C22'
TECHNIQUE = ('path-sensitive dataflow over the try/except/finally/with code generators: label-slot save/restore, label placement, interceptor alignment, temp release; '
             'decision table of __Pyx_Raise over the complete partition of the cause operand (three-valued path exploration of the parsed C body, all #if arms)')
DECIDES = ('G3: every generator that redirects the error/return/break/continue label slots restores them from the saved values on every normal exit; '
           'G4: every label created is placed (put_label / label_interceptor) when it is jumped to; G4b: label_interceptor pairs new and original labels of the same kind; '
           'G2: the exception save variables and other temps are released on every normal path; G1 for the evaluated sub-expressions; '
           'C22-ELSE: the else clause of try/except is generated outside the region whose error label is the handler dispatch; '
           'C22-CAUSE: for each element of {no from-clause, None, exception class, exception instance, other object} of the 4th argument, every path of __Pyx_Raise that '
           'raises the requested exception has made exactly the PyException_SetCause call of ceval.c:do_raise (none / (value, NULL) / (value, new instance) / (value, cause)), '
           'any other object never raises it, and RaiseStatNode passes NULL exactly when the statement has no from-clause.')
NOT_DECIDED = ('implicit __context__ chaining (done by PyErr_SetObject / the exc_info save-restore helpers of Exceptions.c), reference counting of the cause, '
               'and the run-time order of blocks.')

# Single edits tried on a scratch copy for C22-CAUSE (rules/sC22.py): (file, edit, outcome)
MUTATIONS = [
    ('Cython/Utility/Exceptions.c', 'seed C22b: `if (cause && cause != Py_None)` and the None branch removed', 'C22-CAUSE cause=None'),
    ('Cython/Utility/Exceptions.c', 'TypeError branch for non-exception causes removed (else: attach the object)', 'C22-CAUSE cause=other'),
    ('Cython/Utility/Exceptions.c', 'PyException_SetCause moved into the exception-instance branch only', 'C22-CAUSE cause=None, cause=class'),
    ('Cython/Utility/Exceptions.c', '`from None` attaches None itself (fixed_cause = cause)', 'C22-CAUSE cause=None'),
    ('Cython/Utility/Exceptions.c', '`if (cause)` guard dropped, `cause == Py_None || !cause` -> SetCause(value, NULL) also without from', 'C22-CAUSE cause=absent'),
    ('Cython/Utility/Exceptions.c', 'class cause attached without instantiating it', 'C22-CAUSE cause=class'),
    ('Cython/Compiler/Nodes.py', 'RaiseStatNode: tb_code / cause_code swapped in the __Pyx_Raise operand tuple', 'C22-CAUSE arg4'),
    ('Cython/Compiler/Nodes.py', 'RaiseStatNode: cause_code = "Py_None" when there is no from-clause', 'C22-CAUSE arg4:no-from'),
    # behaviour-preserving: all silent
    ('Cython/Utility/Exceptions.c', 'fixed_cause renamed, `cause != NULL`, `Py_None == cause`', 'silent'),
    ('Cython/Utility/Exceptions.c', 'None case split off into its own `if (cause == Py_None) SetCause(value, NULL); else if (!(cause == NULL)) {...}`, instance test before class test, nested ifs, `!fixed_cause`', 'silent'),
    ('Cython/Compiler/Nodes.py', 'RaiseStatNode: f-string emission, `from_code = self.cause.py_result() if self.cause else "NULL"`, `if self.cause is not None`', 'silent'),
    ('Cython/Compiler/Nodes.py', 'RaiseStatNode: `if not self.cause: cause_code = "0" else: ...` (branches swapped)', 'silent'),
]


def run(ctx):
    from ..rules import exc, sC22
    return gen.label_rules(ctx) + [gen2.rule_G2(ctx), gen2.rule_G1(ctx)] + exc.rules(ctx) + [sC22.rule_cause(ctx)]
