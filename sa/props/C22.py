"""C22 — exception handling semantics (structural clause: label/temporary discipline of the try/except/finally/with generators)."""
from ..rules import gen, gen2

ID = 'C22'
TECHNIQUE = ('path-sensitive dataflow over the try/except/finally/with code generators: label-slot save/restore, label placement, interceptor alignment, temp release; '
             'decision table of __Pyx_Raise over the complete partition of the cause operand (three-valued path exploration of the parsed C body, all #if arms, final state of '
             '->cause / ->suppress_context); symbolic evaluation of the emitters of the exception-state helpers over sequences of temp slots (role and position facts per slot, '
             'interprocedural through self.method() calls and closures); typestate of code.funcstate attributes and of the raised exception at the handler body; '
             'symbolic construction of the tree WithTransform builds, compared with the PEP 343 skeleton; role propagation + thread-state access table of the C state helpers per #if variant')
DECIDES = ('G3: every generator that redirects the error/return/break/continue label slots restores them from the saved values on every normal exit; '
           'G4: every label created is placed (put_label / label_interceptor) when it is jumped to; G4b: label_interceptor pairs new and original labels of the same kind; '
           'G2: the exception save variables and other temps are released on every normal path; G1 for the evaluated sub-expressions; '
           'C22-ELSE: the else clause of try/except is generated outside the region whose error label is the handler dispatch; '
           'C22-CAUSE: for each element of {no from-clause, None, exception class, exception instance, other object} of the 4th argument, every path of __Pyx_Raise that '
           'raises the requested exception leaves (->cause, ->suppress_context) as ceval.c:do_raise does (untouched / (NULL, 1) / (new instance, 1) / (cause, 1)) whether it calls '
           'PyException_SetCause or stores the fields directly, any other object never raises it, and RaiseStatNode passes NULL exactly when the statement has no from-clause; '
           'C22-ROLE: a temp slot filled by __Pyx_ExceptionSave/Swap (previous sys.exc_info()) is only handed to __Pyx_ExceptionReset, a slot filled by __Pyx_GetException/__Pyx_ErrFetch '
           '(the raised exception) only to __Pyx_ErrRestore[WithState] or published as code.funcstate.exc_vars, and every slot keeps its position type/value/traceback in all helper calls, '
           'the `as` target binding and the except* stores; C22-ZERO: a function that emits `slot = 0` for slots it did not fill has consumed (Reset/Restore) or decref\'ed them; '
           'C22-FSTATE: code.funcstate.exc_vars / current_except / gil_owned saved in a local and overwritten are put back on every normal path; '
           'C22-CLEAR: the handler body of an except clause is generated only after a helper that takes the raised exception out of the thread state was emitted on every path; '
           'C22-WITH: WithTransform builds try/finally(try/except(body)) with a bare except clause running `if not EXIT(*excinfo_target): raise` unconditionally, a finally clause running '
           'EXIT(None, None, None) guarded by "not yet called", __aenter__/__aexit__ + await exactly for async with (same polarity in WithStatNode); '
           'C22-STATE: in ErrFetch/ErrRestore, ExceptionSave/Reset/Swap, GetException, ReraiseException (every #if variant) type/value/traceback never change slot in a store or C-API call, '
           'each helper reads/writes/clears exactly the thread-state store (raised vs handled exception) of its contract, readers of the handled exception use the topmost non-empty '
           'exc_info item and writers the current one, and every out-parameter is written on every path.')
DECIDES += (' EXCVARS (rules/excown.py): a code generator that does not install code.funcstate.exc_vars itself (bare raise, except* helpers) never emits code that zeroes or clears '
            'the exception variables of the enclosing except / finally clause - the handler body can run on after a re-raise that a nested try catches, and a second bare raise or the '
            'clause\'s break / continue exit then reads them (who-may-write rule on the generators\' syntax tree).')
DECIDES += (' C22-GUARD (seventh round, rules/pC22.py): the evaluator of C22-ROLE also follows the C text the generators emit (blocks, if / else / loop headers, brace-less if, '
            '#if arms, per writer object) and records the emitted conditions open at every exception-state helper; __Pyx_ExceptionReset of a saved triple is emitted under exactly the '
            'conditions under which __Pyx_ExceptionSave/Swap filled it (never `if (saved value)`: NULL/NULL/NULL is a state that has to be restored like any other).')
NOT_DECIDED = ('implicit __context__ chaining (done by PyErr_SetObject / the exc_info save-restore helpers of Exceptions.c), reference counting of the cause, '
               'the run-time order of blocks; in which emitted segment (between placed labels) the saved exc_info must be restored — e.g. dropping the restore at except_end_label of '
               'TryExceptStatNode is not seen, the emitted control flow is not modelled; the loop condition of __Pyx_PyErr_GetTopmostException (copied from CPython); the except* runtime '
               '(ExceptStar section) beyond the slot positions; the shortcut raises that bypass __Pyx_Raise are only decided structurally (rule C22-CAUSE-SHORTCUT, armed after the repair 8c2cbe4d5).')

# Single edits tried on a scratch copy for C22-CAUSE (rules/sC22.py): (file, edit, outcome)
MUTATIONS = [
    ('Cython/Utility/Exceptions.c', 'seed C22b: `if (cause && cause != Py_None)` and the None branch removed', 'C22-CAUSE cause=None'),
    ('Cython/Utility/Exceptions.c', 'TypeError branch for non-exception causes removed (else: attach the object)', 'C22-CAUSE cause=other'),
    ('Cython/Utility/Exceptions.c', 'PyException_SetCause moved into the exception-instance branch only', 'C22-CAUSE cause=None, cause=class'),
    ('Cython/Utility/Exceptions.c', '`from None` attaches None itself (fixed_cause = cause)', 'C22-CAUSE cause=None'),
    ('Cython/Utility/Exceptions.c', '`if (cause)` guard dropped, `cause == Py_None || !cause` -> SetCause(value, NULL) also without from', 'C22-CAUSE cause=absent'),
    ('Cython/Utility/Exceptions.c', 'class cause attached without instantiating it', 'C22-CAUSE cause=class'),
    ('Cython/Compiler/Nodes.py', 'RaiseStatNode: tb_code / cause_code swapped in the __Pyx_Raise operand tuple', 'C22-CAUSE arg4'),
    ('Cython/Compiler/Nodes.py', 'RaiseStatNode: cause_code = "Py_None" when there is no from-clause', 'C22-CAUSE arg4:no-from'),
    # fourth round (rules/pC22.py; the full list with patches is in /verif/mutants/C22/)
    ('Cython/Utility/Exceptions.c', 'seed C22d: `from None` sets ->suppress_context = 1 instead of calling PyException_SetCause(value, NULL)', 'C22-CAUSE cause=None (was ANALYSIS-ERROR)'),
    ('Cython/Compiler/Nodes.py', 'seed C22c: put_error_cleaner with the two slices of exc_vars bound to the wrong names', 'C22-ROLE'),
    ('Cython/Compiler/Nodes.py', 'put_error_uncatcher / put_error_catcher slices swapped; funcstate.exc_vars = exc_vars[3:]; Reset(exc_vars[3], exc_vars[1], exc_vars[5])', 'C22-ROLE (4 variants)'),
    ('Cython/Compiler/Nodes.py', 'put_error_cleaner without the __Pyx_ExceptionReset emission', 'C22-ZERO'),
    ('Cython/Compiler/Nodes.py', 'ExceptClauseNode: set_var(exc_vars[0]); GetException(&v[1], &v[0], &v[2]); StarExceptSetExceptionNode: Py_TYPE into vars[2]', 'C22-ROLE position (3 variants)'),
    ('Cython/Compiler/Nodes.py', 'ExceptClauseNode: funcstate.exc_vars not put back; `__Pyx_ErrRestore(0,0,0)` dropped', 'C22-FSTATE; C22-CLEAR'),
    ('Cython/Compiler/ParseTreeTransforms.py', 'WithTransform: NotNode dropped; finally call test_if_run=False; pattern=[Exception]; Nodes.WithStatNode: __exit__/__aexit__ polarity', 'C22-WITH (4 variants)'),
    ('Cython/Utility/Exceptions.c', 'GetException keeps current_exception; ExceptionSwap stores *type as value / never writes *value; ExceptionReset writes curexc_*; Reraise reads tstate->exc_info; ErrFetch type/tb crossed', 'C22-STATE (6 variants)'),
    ('Cython/Compiler/Nodes.py', 'TryExceptStatNode: restore_saved_exception() at except_end_label dropped', 'MISSED (emitted control flow, see NOT_DECIDED)'),
    # seventh round (mutants/C22/g7-*): seed C22j and 7 siblings
    ('Cython/Compiler/Nodes.py', 'seed C22j: put_error_cleaner resets only `if (saved value) {`; same in put_error_uncatcher / restore_saved_exception (braces, brace-less, two putln, else arm, #if arm); swap under a condition', 'C22-GUARD (8 variants)'),
    ('Cython/Compiler/Nodes.py', 'reset inside a plain block; giveref+reset extracted into a helper method (C22-ZERO now looks into inlined helpers); same #if on both sides; early-return style', 'silent'),
    # behaviour-preserving: all silent
    ('Cython/Compiler/Nodes.py', 'slices bound to well-named locals; six temps allocated as two tuples of three and concatenated; f-string emission of Save/Reset; funcstate restore written with inverted test', 'silent (G2 of rules/gen2.py fires on the concatenated tuples: shared rule, reported)'),
    ('Cython/Compiler/ParseTreeTransforms.py', 'WithTransform: sub-trees built in locals first, keyword order changed', 'silent'),
    ('Cython/Utility/Exceptions.c', 'fixed_cause renamed, `cause != NULL`, `Py_None == cause`', 'silent'),
    ('Cython/Utility/Exceptions.c', 'None case split off into its own `if (cause == Py_None) SetCause(value, NULL); else if (!(cause == NULL)) {...}`, instance test before class test, nested ifs, `!fixed_cause`', 'silent'),
    ('Cython/Compiler/Nodes.py', 'RaiseStatNode: f-string emission, `from_code = self.cause.py_result() if self.cause else "NULL"`, `if self.cause is not None`', 'silent'),
    ('Cython/Compiler/Nodes.py', 'RaiseStatNode: `if not self.cause: cause_code = "0" else: ...` (branches swapped)', 'silent'),
]


def run(ctx):
    from ..rules import exc, sC22, pC22
    from ..rules import excown, dD4
    return gen.label_rules(ctx) + [gen2.rule_G2(ctx), gen2.rule_G1(ctx)] + exc.rules(ctx) + [sC22.rule_cause(ctx), sC22.rule_cause_shortcut(ctx)] + pC22.rules(ctx) + [excown.rule_excvars(ctx)] + [dD4.rule_parked(ctx), dD4.rule_retlive(ctx)]
