"""C22 — exception handling semantics (structural clause: label/temporary discipline of the try/except/finally/with generators)."""
from ..rules import gen, gen2

ID = 'C22'
TECHNIQUE = 'path-sensitive dataflow over the try/except/finally/with code generators: label-slot save/restore, label placement, interceptor alignment, temp release'
DECIDES = ('G3: every generator that redirects the error/return/break/continue label slots restores them from the saved values on every normal exit; '
           'G4: every label created is placed (put_label / label_interceptor) when it is jumped to; G4b: label_interceptor pairs new and original labels of the same kind; '
           'G2: the exception save variables and other temps are released on every normal path; G1 for the evaluated sub-expressions; '
           'C22-ELSE: the else clause of try/except is generated outside the region whose error label is the handler dispatch.')
NOT_DECIDED = '__context__/__cause__ chaining inside Exceptions.c and the run-time order of blocks.'


def run(ctx):
    from ..rules import exc, sC22
    return gen.label_rules(ctx) + [gen2.rule_G2(ctx), gen2.rule_G1(ctx)] + exc.rules(ctx) + [sC22.rule_cause(ctx)]
