"""C16 — typed memoryview slicing/indexing: agreement of the descriptions of __pyx_memoryview_slice_memviewslice
(C prototype, C definition, ToughSlice call template, Python context dictionary, cdef extern declaration and its pyx
call sites) and the guards of the integer-index paths."""
import ast, itertools, re

from ..core import Rule, AnalysisError, node_src
from ..engine import tables
from ..engine.cutil import split_args, match_paren, strip_c_comments
from ..engine.pyindex import walk_no_nested
from ..rules import pC15 as P
from ..rules import pC16 as Q
from ..rules.iface import LOADERS

ID = 'C16'
TECHNIQUE = ('interface agreement by name and position between five descriptions of one C helper read from C, Tempita, Python and pyx sources; '
             'path enumeration of the Python block that builds the template context against the variables each template reads under its {{if}} guards; '
             'structural pairing checks on the C definition; path enumeration of the integer-index code (template expansions and the !is_slice branch) '
             'with the index-status domain of C15; expansion table of the compile-time unellipsify() over every index-kind sequence (exact abstraction of its input), '
             'folded on model nodes and compared with NumPy\'s expansion rule; fourth round: the same folding for the code generator (C16-GEN) and, after a mechanical pyx -> Python '
             'translation (cdef declarations, casts, address-of), for the index loop of memview_slice (C16-PYXSLICE) and the object-level _unellipsify (C16-PYXELL); symbolic execution of '
             'pybuffer_index on linear forms over the class partition of the index (C16-PYXIDX); linear forms IDX / LEN for what is added to an index and what it is compared with '
             '(C16-AMOUNT); reference equations of a strided slice for the stores of the helper and field / axis agreement of the templates and callers (C16-STORE, C16-FIELDS); '
             'guard dominance of the suboffsets store (C16-SUBDIM); sign-class evaluation of the have_step block (C16-STEP)')
DECIDES = ('(SIG) prototype and definition of __pyx_memoryview_slice_memviewslice have identical parameter lists and every have_<x> flag follows the order of its <x> bound; '
           '(EXTERN) the cdef extern declaration in MemoryView.pyx has the same parameter names, order and type kinds, returns int and declares an exception value equal to the '
           'C error return; (TPL) the ToughSlice call passes as many arguments as the C function has parameters, every template variable sits at the parameter it is named after, '
           'is_slice is a non-zero literal and Python booleans are rendered through int(); (CTX) on every path of generate_buffer_slice_code the context dictionary provides every '
           'variable the selected template reads (unless the reading {{if}} branch is provably off on that path), and context entries named after a directive are computed from '
           'that directive; (CALLS) the pyx call sites pass the extern arity, name-carrying arguments at their parameter, is_slice false for integer indices and true for slices, and '
           'each start/stop/step/have_* argument is computed from the matching slice attribute; (DEF) in the C definition each `if (have_<x>)` has an else branch that defaults '
           'exactly <x>, every error report is followed by `return -1`, the zero-step test guards a ValueError; (INDEX) the integer-index code (SliceIndex template for all flag '
           'values, !is_slice branch of the helper) adds the length to negative indices before the bounds test when wraparound is on and reaches the pointer offset computation '
           'only after the bounds test when boundscheck is on, raising IndexError otherwise.'
           ' (SLICE) the start/stop normalisation of a sliced axis equals PySlice_AdjustIndices on the complete class partition of the bounds relative to the axis length '
           '(both step signs, absent bounds, symbolic length and lengths 0..3) and the extent is 0 when stop is not in the direction of the step and (|stop-start|-1)/|step|+1 otherwise.'
           ' (ELL) Compiler/MemoryView.unellipsify reads its indices only through is_none / is_slice / pos / the EllipsisNode class test (anything else: ANALYSIS-ERROR); for every '
           'sequence of index kinds (Ellipsis, None, slice, integer) of length <= 4 with at most one Ellipsis that is valid for ndim 1..3, the expansion equals NumPy\'s: the Ellipsis '
           'becomes ndim - #consuming indices full slices in its place, missing dimensions are appended, written indices keep identity and order, newaxes are the None entries, '
           'have_slices is set whenever the expansion is not purely integer. '
           '(AMOUNT) SliceIndex (all expansions) and the integer branch of the helper add exactly the extent of the indexed axis to a negative index and bounds-test against that extent; '
           '(STEP) an absent step gives step 1 / negative_step false, a given step sets negative_step exactly when negative; (STORE) the helper stores stride * step, the computed extent and the '
           'source suboffset at axis new_ndim and moves data / suboffsets by start * stride; SimpleSlice copies field F of source axis dim to field F of destination axis new_ndim; ToughSlice and '
           'the pyx call sites read shape/strides/suboffsets at the axis they pass as dim; (SUBDIM) an offset is added to suboffsets[X] only under a test establishing X >= 0; '
           '(GEN) generate_buffer_slice_code folded on every sequence of index kinds (None, integer, slices with all 8 combinations of given bounds; length <= 2, length 3 over 4 kinds): '
           'source axis = number of preceding non-None indices, destination axis = number of preceding None/slice indices, new axis: extent 1 / suboffset -1, SimpleSlice exactly for a bare `:`, '
           'have_<b> exactly for the given bounds, bound values from the bound expressions; (PYXSLICE) the index loop of memview_slice folded on integers and on slices with start/stop/step in '
           '{None, 0, 5, -3}: have_<b> <=> bound is not None, a given bound is passed unchanged, source axis, new_ndim, is_slice; (PYXELL) _unellipsify / _unellipsify_index_tuple on every '
           'index of kinds (Ellipsis, slice, integer) up to length 4, ndim 1..3; (PYXIDX) pybuffer_index: for every class of the index relative to the axis length an index in [-len, len) '
           'addresses element index (+ len), every other raises IndexError before an address is formed; (PYXUSE) __getitem__/__setitem__ take the memview_slice path exactly when have_slices, '
           'per-axis loops pass (item, counter) to pybuffer_index; (FIELDS) shape/strides/suboffsets assignments in memview_slice, slice_copy, memoryview_fromslice, pybuffer_index keep field and axis.')
NOT_DECIDED = ('the indirect-dimension bookkeeping beyond C16-SUBDIM (which axis is pending, dereferencing in SliceIndex), index lists with several Ellipsis entries at the object level, '
               'compile-time unellipsify for index lists longer than 4, ndim > 3 or with several Ellipsis entries, '
               'the SimpleSlice copy semantics beyond its variable reads')
ASSUMPTIONS = ['template variables that only occur in {{if}} conditions are two-valued for the purpose of expanding the SliceIndex template']

EXEMPT = {}

MUTATIONS = [
    # (file, single edit applied on a scratch copy, rule that reported it) — all variants were reported (exit 1) with a message naming the construct
    ('Cython/Utility/MemoryView_C.c', 'ToughSlice: swap {{int(have_start)}} and {{int(have_stop)}}', 'C16-TPL'),
    ('Cython/Utility/MemoryView_C.c', 'ToughSlice: drop the {{new_ndim}} argument', 'C16-TPL'),
    ('Cython/Utility/MemoryView_C.c', 'ToughSlice: {{int(have_step)}} -> {{have_step}}', 'C16-CTX'),
    ('Cython/Utility/MemoryView_C.c', 'ToughSlice: trailing literal 1 -> 0', 'C16-TPL'),
    ('Cython/Utility/MemoryView_C.c', 'prototype only: swap `int have_start, int have_stop`', 'C16-SIG'),
    ('Cython/Utility/MemoryView_C.c', 'prototype and definition: `Py_ssize_t start, Py_ssize_t stop` -> `stop, start`', 'C16-SIG + C16-EXTERN + C16-TPL'),
    ('Cython/Utility/MemoryView_C.c', 'definition: first `if (have_start) {` -> `if (have_stop) {`', 'C16-DEF'),
    ('Cython/Utility/MemoryView_C.c', 'definition: `return -1;` after the zero-step report -> `return 0;`', 'C16-DEF'),
    ('Cython/Utility/MemoryView_C.c', 'definition: `step == 0` -> `step < 0`', 'C16-DEF'),
    ('Cython/Utility/MemoryView_C.c', 'definition: remove `if (start < 0) { start += shape; }` of the integer-index branch', 'C16-INDEX'),
    ('Cython/Utility/MemoryView_C.c', 'definition: `!(0 <= start && start < shape)` -> `!(start < shape)`', 'C16-INDEX'),
    ('Cython/Utility/MemoryView_C.c', 'SliceIndex: `{{if wraparound}}` -> `{{if boundscheck}}` around the idx += shape block', 'C16-INDEX'),
    ('Cython/Utility/MemoryView_C.c', 'SliceIndex: `{{if boundscheck}}` -> `{{if not have_gil}}` around the bounds test', 'C16-INDEX + C16-CTX'),
    ('Cython/Utility/MemoryView.pyx', 'extern: drop `except -1`', 'C16-EXTERN'),
    ('Cython/Utility/MemoryView.pyx', 'extern: swap `int have_start, int have_stop`', 'C16-EXTERN + C16-CALLS'),
    ('Cython/Utility/MemoryView.pyx', 'extern: `Py_ssize_t start` -> `int start`', 'C16-EXTERN'),
    ('Cython/Utility/MemoryView.pyx', 'memview_slice: `start, stop, step,` -> `stop, start, step,` in the slice call', 'C16-CALLS'),
    ('Cython/Utility/MemoryView.pyx', 'memview_slice: drop new_ndim from the slice call', 'C16-CALLS'),
    ('Cython/Utility/MemoryView.pyx', 'memview_slice: `have_stop = index.start is not None`', 'C16-CALLS'),
    ('Cython/Utility/MemoryView.pyx', 'memview_slice: integer-index call passes True for is_slice', 'C16-CALLS'),
    ('Cython/Compiler/MemoryView.py', "generate_buffer_slice_code: d['have_' + s] = True -> d['has_' + s] = True", 'C16-CTX'),
    ('Cython/Compiler/MemoryView.py', "drop `d['error_goto'] = ...` of the ToughSlice branch", 'C16-CTX'),
    ('Cython/Compiler/MemoryView.py', "`if boundscheck:` -> `if not boundscheck:` before d['error_goto'] of the index branch", 'C16-CTX'),
    ('Cython/Compiler/MemoryView.py', "'wraparound': int(directives['boundscheck'])", 'C16-CTX'),
    ('Cython/Compiler/MemoryView.py', 'drop `new_ndim=new_ndim` from dict(template_vars, ...)', 'C16-CTX'),
    ('Cython/Compiler/MemoryView.py', 'drop `d[s] = "0"` in the idx.is_none branch', 'C16-CTX'),
    ('Cython/Compiler/MemoryView.py', "drop 'have_gil' from template_vars", 'C16-CTX'),
    # second round (C16-ELL, sa/rules/sC16.py): seed C16a + single-edit variants - all reported
    ('Cython/Compiler/MemoryView.py', 'seed C16a: unellipsify collects newaxes while looping, n_indices computed when the Ellipsis is met', 'C16-ELL newaxis-after-ellipsis'),
    ('Cython/Compiler/MemoryView.py', 'unellipsify: `nslices = ndim - n_indices + 1` -> `ndim - n_indices`', 'C16-ELL ellipsis, newaxis-*'),
    ('Cython/Compiler/MemoryView.py', 'unellipsify: `n_indices = len(indices)` (None counted as consuming a dimension)', 'C16-ELL newaxis-*'),
    ('Cython/Compiler/MemoryView.py', 'unellipsify: `result_length = len(result)` (padding counts None)', 'C16-ELL no-ellipsis+newaxis'),
    ('Cython/Compiler/MemoryView.py', 'unellipsify: trailing padding prepended (`result[0:0] = ...`)', 'C16-ELL no-ellipsis'),
    ('Cython/Compiler/MemoryView.py', 'unellipsify: `or index.is_none` dropped from have_slices', 'C16-ELL no-ellipsis+newaxis:have_slices'),
    ('Cython/Compiler/MemoryView.py', 'unellipsify: newaxes collected from indices[1:]', 'C16-ELL *:newaxes, no-ellipsis+newaxis'),
    ('Cython/Compiler/MemoryView.py', 'unellipsify: Ellipsis expands to max(nslices, 1) slices', 'C16-ELL ellipsis'),
    # behaviour preserving, all silent (exit 0)
    ('Cython/Compiler/MemoryView.py', '(second round) unellipsify: comprehension -> loop, n_indices renamed and computed as sum(...), `ndim - (consuming - 1)`', None),
    ('Cython/Compiler/MemoryView.py', '(second round) unellipsify: if/else on seen_ellipsis -> `if not seen_ellipsis: ...; continue`, extend -> +=', None),
    ('Cython/Compiler/MemoryView.py', 'reorder template_vars entries; rename d -> tctx', None),
    ('Cython/Compiler/MemoryView.py', 'replace the for s in ("start","stop","step") loop by three explicit if/else blocks (one using d.update)', None),
    ('Cython/Utility/MemoryView_C.c', 'ToughSlice: join the argument lines; definition: have_stop block before have_start block; rename negative_step', None),
    ('Cython/Utility/MemoryView_C.c', 'definition: `!(0 <= start && start < shape)` -> `!__Pyx_is_valid_index(start, shape)`', None),
    ('Cython/Utility/MemoryView.pyx', 'memview_slice: rename local cindex -> cidx; extern declaration on one line', None),
    ('Cython/Utility/MemoryView.pyx', 'memview_slice: reorder the six start/stop/step/have_* assignments', None),
]

# fourth round (mutation brainstorming, mutants/C16/*): 38 breaking edits over the C helper, the three templates, generate_buffer_slice_code and MemoryView.pyx (memview_slice,
# _unellipsify, pybuffer_index, slice_copy, memoryview_fromslice, __getitem__); 3 were reported before (C16-DEF, C16-SLICE, C16-INDEX; one more ended in ANALYSIS-ERROR), 38 now.
# 15 behaviour-preserving rewrites, all silent.  One genuine defect of the unmodified tree met on the way (FINDING_1: too many indices), rule C16-PYXMANY pending.
MUTATIONS += [
    ('Cython/Utility/MemoryView_C.c', 'helper: strides without step, shape at [dim], data += start * step, suboffsets = -1', 'C16-STORE helper:*'),
    ('Cython/Utility/MemoryView_C.c', 'helper / SliceIndex: `+= stride` instead of the extent; bounds test against the stride', 'C16-AMOUNT'),
    ('Cython/Utility/MemoryView_C.c', 'absent step: negative_step = 1', 'C16-STEP'),
    ('Cython/Utility/MemoryView_C.c', 'SimpleSlice / ToughSlice: wrong source axis, shape <- strides', 'C16-STORE SimpleSlice:* / ToughSlice:*'),
    ('Cython/Utility/MemoryView_C.c', 'suboffset_dim test inverted (helper, SliceIndex)', 'C16-SUBDIM'),
    ('Cython/Compiler/MemoryView.py', 'newaxis extent 0; None consumes a source axis; new_ndim not advanced / advanced for an integer; is_full_slice never cleared; have_<b> True for an absent bound', 'C16-GEN (+ C16-CTX template-selected)'),
    ('Cython/Utility/MemoryView.pyx', 'memview_slice: have_step = bool(index.step); stop = index.stop or -1; new_ndim += 1 dropped / added; start 0 for an integer; p_src.shape[new_ndim]', 'C16-PYXSLICE / C16-STORE'),
    ('Cython/Utility/MemoryView.pyx', '_unellipsify_index_tuple: ellipsis_end + 1; one padding slice too few', 'C16-PYXELL'),
    ('Cython/Utility/MemoryView.pyx', 'pybuffer_index: `index > shape`; second negativity test dropped', 'C16-PYXIDX'),
    ('Cython/Utility/MemoryView.pyx', '__getitem__: `if not have_slices`; get_item_pointer: dim 0 for every axis', 'C16-PYXUSE'),
    ('Cython/Utility/MemoryView.pyx', 'slice_copy / memoryview_fromslice / pybuffer_index: shape stored as strides', 'C16-FIELDS'),
]

# fifth round (fresh seed C16f + mutation brainstorming on its mechanism: the compile-time treatment of memoryview slices in ExprNodes.py, mutants/C16/pack-*, merge-*):
# 22 breaking edits, all reported; 8 behaviour-preserving rewrites, all silent.  One genuine defect of the unmodified tree met on the way (FINDING_1 of session H2:
# m[:, 1:][None] / m[...][..., i] merged into the wrong single indexing), rule C16-MERGE-NEW pending.
TECHNIQUE += ('; fifth round: the static result type of a sliced view (MemoryViewIndexNode.analyse_types through MemoryViewSliceNode.analyse_operation) folded on model nodes over the complete '
              'partition of a compile-time step x access/packing layouts (C16-PACK); normal forms of index composition for the "view[a][b]" -> "view[a, b]" rewrite (C16-MERGE)')
DECIDES += (' (PACK) for every index-kind sequence over None / integer / `:` / slices whose step is absent, the constant 1, True, -1, 2, -2, 0, a run-time value or not computed, on ten access/packing '
            'layouts of 1- and 2-dimensional views: the result type has one axis per slice / None and none per integer, a sliced axis takes the specification of the source axis it consumes, keeps its '
            'access mode (or full), and keeps a contig / follow packing only when there is no step or the step is the constant 1 -- anything else must be strided, because the item access code '
            'indexes a contig axis as data + i without reading strides[]; (MERGE) IndexNode.analyse_as_buffer_operation + MemoryViewSliceNode.merged_indices folded for every first-level index list of a '
            '1..3-dimensional view (`:`, integer, slice with only a start / stop / step, None) and every second-level list of integers and slices up to length 3: the single indexing that is generated '
            'has the same normal form (which source axis carries which opaque slice / index operations, where the new axes are) as NumPy\'s composition of the two indexings.')
NOT_DECIDED += ('; second-level index lists that contain None or an Ellipsis in the view[a][b] merge (decided by C16-MERGE-NEW since the repair 6d19b8a0c), the item access code that consumes the '
                'axis specifications (_generate_buffer_lookup_code: only its access modes are covered, by C17-ACCESS), IndexNode.infer_type for sliced views')
MUTATIONS += [
    ('Cython/Compiler/ExprNodes.py', 'seed C16f: a constant step with abs() == 1 keeps the packing (a[::-1] of long[::1] stays contig)', 'C16-PACK packing:minus-one'),
    ('Cython/Compiler/ExprNodes.py', 'analyse_types: step test inverted / dropped / on stop / on the literal text / any positive or non-negative constant; stepped slice typed direct; '
                                     'axis_idx not advanced for integers / advanced for None; integer keeps an axis; analyse_operation builds the type from base.type.axes', 'C16-PACK'),
    ('Cython/Compiler/ExprNodes.py', 'merged_indices: step / start left out of the full-slice test, `or` instead of `and`, partial slice or None skipped, pop() from the end; '
                                     'analyse_as_buffer_operation: base / base_type not switched to the underlying view', 'C16-MERGE'),
    ('Cython/Compiler/ExprNodes.py', 'constant step == 1 keeps the packing (sound refinement); conditional expression; extracted helper (method / staticmethod); spec tuple; De Morgan; early continue; '
                                     'merge refused for any partial slice', None),
]

MVC = 'Cython/Utility/MemoryView_C.c'
MVP = 'Cython/Utility/MemoryView.pyx'
MVPY = 'Cython/Compiler/MemoryView.py'
CNAME = '__pyx_memoryview_slice_memviewslice'
BOUNDS = ('start', 'stop', 'step')


class Model:
    def __init__(self, ctx):
        self.ctx = ctx
        cat = ctx.cat
        fs = P.resolve_c(cat, CNAME)
        self.protos = [f for f in fs if f.kind == 'proto']
        self.funcs = [f for f in fs if f.kind == 'func']
        if len(self.funcs) != 1 or not self.protos:
            raise AnalysisError('%s: expected one definition and a prototype in the utility catalogue, found %d/%d' % (CNAME, len(self.funcs), len(self.protos)))
        self.func = self.funcs[0]
        self.cparams = self.func.typed_params()
        self.cnames = [n for _, n in self.cparams]
        if any(n is None for n in self.cnames) or len(self.cnames) < 8:
            raise AnalysisError('%s: parameter list not readable' % CNAME)
        self.have = [(n, n[5:]) for n in self.cnames if n.startswith('have_')]
        if len(self.have) < 2:
            raise AnalysisError('%s no longer has have_<bound> parameters' % CNAME)
        self.body = P.parse_c_function_body(self.func.body)

    def section(self, name):
        d = self.ctx.cat.files.get('MemoryView_C.c', {}).get(name)
        if not d:
            raise AnalysisError('utility section MemoryView_C.c::%s vanished' % name)
        s = d.get('impl') or next(iter(d.values()))
        return s, strip_c_comments(s.raw)


# ----------------------------------------------------------------------------------------- SIG
def rule_sig(ctx, M):
    r = Rule('C16-SIG', 'prototype and definition of the memoryview slice helper agree; have_<x> flags follow the order of their bounds', floor=15)
    f = M.func
    for p in M.protos:
        pp = p.typed_params()
        if len(pp) != len(M.cparams):
            r.inst('proto:count')
            r.violate('proto:count', p.file, p.line, 'the prototype of %s declares %d parameters, the definition %d: calls compiled against the prototype pass the wrong arguments'
                      % (CNAME, len(pp), len(M.cparams)))
            continue
        for i, ((t1, n1), (t2, n2)) in enumerate(zip(pp, M.cparams)):
            key = 'proto:%d:%s' % (i, n2)
            r.inst(key, sample='param %d: %s %s' % (i, t2, n2))
            if t1 != t2 or n1 != n2:
                r.violate(key, p.file, p.line, 'parameter %d of %s is `%s %s` in the prototype but `%s %s` in the definition: callers written against the prototype '
                          '(ToughSlice template, MemoryView.pyx) pass %r where the definition reads %r' % (i, CNAME, t1, n1, t2, n2, n1, n2))
    xs = [x for _, x in M.have]
    for h, x in M.have:
        key = 'pair:%s' % h
        r.inst(key, sample='%s guards %s' % (h, x))
        if x not in M.cnames:
            r.violate(key, f.file, f.line, 'flag parameter %s has no bound parameter %s' % (h, x))
    order_x = [n for n in M.cnames if n in xs]
    if order_x != xs:
        r.violate('pair:order', f.file, f.line, 'the have_* flags are declared in the order (%s) but their bounds in the order (%s): positional callers that '
                  'pass (start, stop, step, have_start, have_stop, have_step) attach a flag to the wrong bound' % (', '.join(xs), ', '.join(order_x)))
    r.inst('pair:order', sample='bounds %s / flags %s' % (order_x, xs))
    r.positive_control(['start', 'stop'] != ['stop', 'start'], 'order comparison')
    return r


# ----------------------------------------------------------------------------------------- EXTERN
def _kind(t):
    t = t.replace('const', ' ').strip()
    depth = t.count('*')
    base = t.replace('*', ' ').split()
    base = base[-1] if base else ''
    if 'memviewslice' in base.lower():
        base = 'slice'
    if base == 'bint':
        base = 'int'
    return (base, depth)


def _c_return_values(body):
    vals = []
    for s in P.c_walk_stmts(body):
        if s[0] == 'return' and s[1] is not None:
            vals.append(P.c_text(P.strip_wrappers(s[1])))
    return vals


def rule_extern(ctx, M):
    r = Rule('C16-EXTERN', 'the cdef extern declaration of the slice helper in MemoryView.pyx matches the C definition (names, order, type kinds, return, exception value)', floor=14)
    text = ctx.read(MVP)
    d = Q.pyx_extern_decl(text, CNAME)
    if d is None:
        raise AnalysisError('no cdef extern declaration of %s in MemoryView.pyx' % CNAME)
    M.extern = d
    if len(d['params']) != len(M.cparams):
        r.inst('extern:count')
        r.violate('extern:count', MVP, d['line'], 'the extern declaration of %s has %d parameters, the C definition %d' % (CNAME, len(d['params']), len(M.cparams)))
    else:
        for i, ((pt, pn), (ct, cn)) in enumerate(zip(d['params'], M.cparams)):
            key = 'extern:%d:%s' % (i, cn)
            r.inst(key, sample='%s %s  <->  %s %s' % (pt, pn, ct, cn))
            if pn != cn:
                r.violate(key + ':name', MVP, d['line'], 'parameter %d of the extern declaration is named %r but the C parameter is %r: the pyx call sites, written against these names, '
                          'pass %r where C reads %r' % (i, pn, cn, pn, cn))
            if _kind(pt) != _kind(ct):
                r.violate(key + ':type', MVP, d['line'], 'parameter %d (%s) is declared `%s` in MemoryView.pyx but `%s` in C: the value is converted to the wrong C type' % (i, cn, pt, ct))
    r.inst('extern:return', sample='returns %s / C %s' % (d['ret'], M.func.decl.ret))
    cret = M.func.decl.ret.replace('static', '').replace('CYTHON_INLINE', '').split()
    if _kind(d['ret']) != _kind(' '.join(cret)):
        r.violate('extern:return', MVP, d['line'], 'the extern declaration returns `%s` but the C function returns `%s`' % (d['ret'], ' '.join(cret)))
    rv = _c_return_values(M.body)
    errs = sorted({v for v in rv if v not in ('0',)})
    r.inst('extern:except', sample='tail %r; C returns %s' % (d['tail'], sorted(set(rv))))
    m = re.search(r'\bexcept\s*(\??)\s*([-\w\*]+)', d['tail'])
    if not m:
        r.violate('extern:except', MVP, d['line'], 'the extern declaration of %s has no `except` clause although the C function reports errors by returning %s: '
                  'IndexError/ValueError raised while slicing a memoryview object would be ignored' % (CNAME, errs))
    elif m.group(2) != '*' and errs != [m.group(2)]:
        r.violate('extern:except', MVP, d['line'], 'the extern declaration says `except %s` but the C function returns %s on error: the exception is not propagated' % (m.group(2), errs))
    r.positive_control(_kind('bint') == _kind('int') and _kind('int *') != _kind('int'), 'type kinds')
    return r


# ----------------------------------------------------------------------------------------- TPL
TVAR = r'\{\{\s*(int\()?\s*(\w+)\s*(\(\))?\s*\)?\s*\}\}'


def _tpl_arg(a):
    """-> (carried name, template variable or None, wrapped in int()?, literal value or None)"""
    a = a.strip()
    m = re.fullmatch(r'&?\s*' + TVAR, a)
    if m:
        return m.group(2), m.group(2), bool(m.group(1)), None
    m = re.fullmatch(r'\{\{\s*\w+\s*\}\}\s*(?:\.|->)\s*(\w+)\s*\[.*\]', a, re.S)
    if m:
        return m.group(1), None, False, None
    if re.fullmatch(r'-?\d+', a):
        return None, None, False, int(a)
    return None, None, False, None


def rule_tpl(ctx, M):
    r = Rule('C16-TPL', 'the ToughSlice template calls the slice helper with the C arity, every template variable at the parameter it is named after, is_slice non-zero, booleans through int()', floor=12)
    sec, text = M.section('ToughSlice')
    calls = [c for c in P.c_calls_in_text(text) if c[0] == CNAME]
    if len(calls) != 1:
        raise AnalysisError('ToughSlice does not contain exactly one call of %s' % CNAME)
    _, args, _ = calls[0]
    rel, line = MVC, sec.line
    M.tough_args = args
    r.inst('ToughSlice:arity', sample='%d arguments for %d parameters' % (len(args), len(M.cnames)))
    if len(args) != len(M.cnames):
        r.violate('ToughSlice:arity', rel, line, 'the ToughSlice template passes %d arguments to %s, which takes %d: generated slicing code does not compile / bounds shift by one position'
                  % (len(args), CNAME, len(M.cnames)))
        for i, a in enumerate(args):
            r.inst('ToughSlice:arg%d' % i, sample=' '.join(a.split()))
        return r
    info = [_tpl_arg(a) for a in args]
    names = [i[0] for i in info]
    for i, (a, p) in enumerate(zip(args, M.cnames)):
        if names[i] and P.match_param(names[i], M.cnames) is not None:
            r.inst('ToughSlice:%s' % p, sample='%s <- %s' % (p, ' '.join(a.split())))
    for i, j, a in P.misaligned(names, M.cnames):
        r.violate('ToughSlice:%s' % a, rel, line, 'the ToughSlice template passes {{%s}} as argument %d of %s, which is parameter %r; the parameter named %r is at position %d: '
                  'e.g. the stop bound is used as start' % (a, i, CNAME, M.cnames[i], M.cnames[j], j))
    if 'is_slice' in M.cnames:
        k = M.cnames.index('is_slice')
        r.inst('ToughSlice:is_slice', sample='is_slice <- %s' % args[k])
        if info[k][3] is None or info[k][3] == 0:
            r.violate('ToughSlice:is_slice', rel, line, 'ToughSlice (used for start:stop:step indices only) passes %r for is_slice: the helper would treat the slice as an integer index' % args[k])
    M.tough_info = info
    r.positive_control(bool(P.misaligned(['dst', 'stop', 'start'], ['dst', 'start', 'stop'])) and _tpl_arg('{{int(have_stop)}}')[:3] == ('have_stop', 'have_stop', True),
                       'swapped template variables')
    return r


# ----------------------------------------------------------------------------------------- CTX
def _find_fn(tree, name):
    for n in ast.walk(tree):
        if isinstance(n, (ast.FunctionDef, ast.AsyncFunctionDef)) and n.name == name:
            return n
    raise AnalysisError('%s vanished from MemoryView.py' % name)


def _is_bool_expr(v):
    return (isinstance(v, ast.Constant) and isinstance(v.value, bool)) or isinstance(v, (ast.Compare, ast.BoolOp)) or \
        (isinstance(v, ast.UnaryOp) and isinstance(v.op, ast.Not))


def _strip_conv(v):
    while isinstance(v, ast.Call) and isinstance(v.func, ast.Name) and v.func.id in ('int', 'bool') and len(v.args) == 1:
        v = v.args[0]
    return v


def rule_ctx(ctx, M):
    r = Rule('C16-CTX', 'every path of generate_buffer_slice_code provides the variables the selected MemoryView_C.c template reads; directive-named context entries read that directive; '
             'booleans are not rendered as Python text', floor=38)
    tree = ctx.parse(MVPY)
    fn = _find_fn(tree, 'generate_buffer_slice_code')
    env = {}
    for n in walk_no_nested(fn):
        if isinstance(n, ast.Assign) and len(n.targets) == 1 and isinstance(n.targets[0], ast.Name):
            env.setdefault(n.targets[0].id, []).append(n.value)

    def is_load(c):
        return isinstance(c.func, ast.Attribute) and c.func.attr in LOADERS and any(k.arg == 'context' for k in c.keywords) and c.args
    loads = [n for n in walk_no_nested(fn) if isinstance(n, ast.Call) and is_load(n)]
    if len(loads) != 1:
        raise AnalysisError('generate_buffer_slice_code: expected one template load with a context, found %d' % len(loads))
    load = loads[0]
    cexpr = next(k.value for k in load.keywords if k.arg == 'context')
    if not isinstance(cexpr, ast.Name) or not isinstance(load.args[0], ast.Name):
        raise AnalysisError('generate_buffer_slice_code: template name / context are not plain locals')
    dict_name, util = cexpr.id, load.args[0].id
    ufile = load.args[1].value if len(load.args) > 1 and isinstance(load.args[1], ast.Constant) else None
    if ufile != 'MemoryView_C.c':
        raise AnalysisError('generate_buffer_slice_code loads its templates from %r' % ufile)
    loop = None
    for n in walk_no_nested(fn):
        if isinstance(n, ast.For) and any(x is load for x in ast.walk(n)):
            loop = n if loop is None or any(x is n for x in ast.walk(loop)) else loop
    if loop is None:
        raise AnalysisError('generate_buffer_slice_code: the template load is not inside the per-index loop')
    base = {}
    for name, vals in env.items():
        if len(vals) == 1 and isinstance(vals[0], ast.Dict) and all(isinstance(k, ast.Constant) for k in vals[0].keys):
            base[name] = ({k.value for k in vals[0].keys}, {k.value: v for k, v in zip(vals[0].keys, vals[0].values)})
    results = Q.context_paths(loop.body, dict_name, base, is_load)
    if len(results) < 3:
        raise AnalysisError('only %d context paths reach the template load' % len(results))
    directives = None
    seen_templates = set()
    reads_cache = {}
    counted = set()
    reported = set()
    n_paths = 0
    for call, path in results:
        tname = path.names.get(util)
        if not isinstance(tname, str):
            raise AnalysisError('template name is not a constant on some path of generate_buffer_slice_code')
        n_paths += 1
        seen_templates.add(tname)
        if tname not in reads_cache:
            sec, text = M.section(tname)
            reads_cache[tname] = (sec, Q.template_reads(text))
        sec, reads = reads_cache[tname]

        def truth_of(name, path=path):
            v = path.values.get(name)
            if v is None:
                return None
            v = _strip_conv(v)
            if isinstance(v, ast.Constant):
                return bool(v.value)
            txt = ast.unparse(v)
            if txt in path.facts:
                return path.facts[txt]
            # one level through a local: boundscheck = directives['boundscheck']
            return None
        for var, guards, kind, expr in reads:
            key = '%s:%s' % (tname, var)
            if (key, guards) not in counted:
                counted.add((key, guards))
                r.inst(key + (':' + '&'.join(('' if p else '!') + g for g, p in guards) if guards else ''),
                       sample='%s reads {{%s}}%s' % (tname, var, (' under ' + ' & '.join(('' if p else 'not ') + g for g, p in guards)) if guards else ''))
            if var not in path.keys:
                if Q.guard_known_false(guards, truth_of) or key in reported:
                    continue
                reported.add(key)
                cond = ', '.join('%s=%s' % (k, v) for k, v in sorted(path.facts.items()) if len(k) < 40)
                r.violate(key, MVPY, call.lineno,
                          'template MemoryView_C.c::%s reads {{%s}} but generate_buffer_slice_code does not put %r into the context on the path [%s]: '
                          'the compiler crashes with NameError when a memoryview is indexed this way' % (tname, var, var, cond))
            elif kind == 'subst' and re.fullmatch(r'\w+', expr) and _is_bool_expr(path.values.get(var)) and (key, 'bool') not in reported:
                reported.add((key, 'bool'))
                r.violate(key + ':bool', 'Cython/Utility/MemoryView_C.c', sec.line,
                          'template %s renders {{%s}} directly but the context value is the Python boolean %s: the generated C contains the text True/False; '
                          'it must be rendered through int()' % (tname, var, node_src(path.values.get(var), 40)))
    for need in ('ToughSlice', 'SliceIndex'):
        if need not in seen_templates:
            if ctx.cat.files.get('MemoryView_C.c', {}).get(need) and seen_templates:
                # the template is still there, the generator no longer reaches it: a finding about the generator, not a lost anchor
                r.inst('template-selected:%s' % need)
                r.violate('template-selected:%s' % need, MVPY, fn.lineno,
                          'no path of generate_buffer_slice_code selects the %s template any more (selected: %s): %s' % (
                              need, sorted(seen_templates), 'slices with bounds are compiled like a bare `:`' if need == 'ToughSlice' else 'integer indices are not compiled as element offsets'))
                # its variable reads remain obligations (unreachable ones): the instance count must not look like a lost anchor
                for var, guards, kind, expr in Q.template_reads(M.section(need)[1]):
                    if ('%s:%s' % (need, var), guards) not in counted:
                        counted.add(('%s:%s' % (need, var), guards))
                        r.inst('%s:%s:unreached' % (need, var))
                continue
            raise AnalysisError('no path of generate_buffer_slice_code selects the %s template' % need)
    # directive provenance of base entries
    opt = tables.module_assign(ctx.parse('Cython/Compiler/Options.py'), '_directive_defaults')
    directives = {k.value for k in opt.keys if isinstance(k, ast.Constant)} if isinstance(opt, ast.Dict) else set()
    if len(directives) < 30:
        raise AnalysisError('Options._directive_defaults not readable')
    nprov = 0
    for bname, (keys, values) in base.items():
        for k in sorted(keys & directives):
            v = values[k]
            reads = set()
            todo, depth = [v], 0
            seen = set()
            while todo:
                e = todo.pop()
                for n in ast.walk(e):
                    d = P.Worlds.directive_of(n)
                    if d is not None:
                        reads.add(d)
                    if isinstance(n, ast.Name) and n.id in env and n.id not in seen and len(env[n.id]) == 1:
                        seen.add(n.id)
                        todo.append(env[n.id][0])
            nprov += 1
            r.inst('provenance:%s' % k, sample="context[%r] <- directives %s" % (k, sorted(reads)))
            if reads != {k}:
                r.violate('provenance:%s' % k, MVPY, v.lineno,
                          'the template variable %r is computed from directives%s instead of directives[%r]: memoryview indexing ignores the scoped %s directive'
                          % (k, sorted(reads), k, k))
    if nprov < 2:
        raise AnalysisError('the template context no longer has wraparound/boundscheck entries')
    r.info('%d paths reach the template load; templates %s' % (n_paths, sorted(seen_templates)))
    pc = Q.template_reads('{{if a}}{{x}}{{else}}{{y}}{{endif}}')
    r.positive_control(('y', (('a', False),), 'subst', 'y') in pc and not Q.guard_known_false((('a', False),), lambda n: None)
                       and Q.guard_known_false((('a', False),), lambda n: True), 'guarded template read')
    return r


# ----------------------------------------------------------------------------------------- CALLS
def _pyx_arg_name(a):
    a = a.strip()
    if re.fullmatch(r'[A-Za-z_]\w*', a):
        return a
    m = re.fullmatch(r'[\w\.]+\.(\w+)\[[^\]]*\]', a)
    if m:
        return m.group(1)
    return None


def rule_calls(ctx, M):
    r = Rule('C16-CALLS', 'pyx call sites of the slice helper: arity, name-aligned arguments, is_slice matches the kind of index, bound arguments come from the matching slice attribute', floor=8)
    text = ctx.read(MVP)
    d = getattr(M, 'extern', None) or Q.pyx_extern_decl(text, CNAME)
    if d is None:
        raise AnalysisError('no extern declaration of %s' % CNAME)
    pnames = [n for _, n in d['params']]
    calls = [c for c in Q.pyx_calls(text, d['pyname']) if c[1] != d['line']]
    if len(calls) < 2:
        raise AnalysisError('only %d call sites of %s in MemoryView.pyx' % (len(calls), d['pyname']))
    kinds = set()
    for args, line, indent, off in calls:
        key0 = 'call@%s' % ('index' if False else '')
        chain, gov = Q.pyx_governing_headers(text, off, indent)
        chain_txt = ' '.join(chain)
        if gov and 'PyIndex_Check' in gov and not re.search(r'\bnot\b', gov):
            kind = 'index'
        elif gov and re.search(r'isinstance\([^)]*\bslice\b|PySlice_Check', gov) and not re.search(r'\bnot\b', gov):
            kind = 'slice'
        elif gov and gov.startswith('else') and 'PyIndex_Check' in chain_txt:
            kind = 'slice'
        elif gov and gov.startswith('else') and re.search(r'isinstance\([^)]*\bslice\b|PySlice_Check', chain_txt):
            kind = 'index'
        else:
            kind = 'unknown'
        kinds.add(kind)
        key = 'memview_slice:%s-call' % kind
        r.inst(key + ':arity', sample='%s(%s) under `%s`' % (d['pyname'], ', '.join(args), gov))
        if len(args) != len(pnames):
            r.violate(key + ':arity', MVP, line, 'the %s call of %s passes %d arguments, the extern declaration has %d' % (kind, d['pyname'], len(args), len(pnames)))
            continue
        names = [_pyx_arg_name(a) for a in args]
        for i, n in enumerate(names):
            if n and P.match_param(n, pnames) is not None:
                r.inst('%s:%s' % (key, pnames[i]))
        for i, j, a in P.misaligned(names, pnames):
            r.violate('%s:%s' % (key, a), MVP, line, 'the %s call passes %r as argument %d of %s, which is parameter %r; the parameter named %r is at position %d: the values are exchanged'
                      % (kind, a, i, d['pyname'], pnames[i], pnames[j], j))
        if 'is_slice' in pnames and kind != 'unknown':
            v = args[pnames.index('is_slice')].strip()
            truthy = {'True': True, '1': True, 'False': False, '0': False}.get(v)
            r.inst(key + ':is_slice', sample='is_slice=%s for %s' % (v, kind))
            if truthy is None:
                raise AnalysisError('is_slice argument %r of the %s call is not a literal' % (v, kind))
            if truthy != (kind == 'slice'):
                r.violate(key + ':is_slice', MVP, line, 'the call made for %s passes is_slice=%s: %s' % (
                    'an integer index' if kind == 'index' else 'a slice object', v,
                    'the integer is treated as a slice start and the dimension is kept' if kind == 'index' else 'the slice is treated as an integer index and the dimension is dropped'))
        # provenance of bound arguments
        ftext = Q.pyx_function_text(text, off)
        for i, (n, p) in enumerate(zip(names, pnames)):
            if not n or not p:
                continue
            want = [b for b in BOUNDS if p == b or p == 'have_' + b]
            if not want:
                continue
            attrs = set()
            for m in re.finditer(r'^[ \t]*%s[ \t]*=(?!=)([^\n]*)$' % re.escape(n), ftext, re.M):
                attrs |= set(re.findall(r'\.\s*(%s)\b' % '|'.join(BOUNDS), m.group(1)))
            if not attrs:
                continue
            k2 = '%s:provenance:%s' % (key, p)
            r.inst(k2, sample='%s <- %s reads .%s' % (p, n, sorted(attrs)))
            if attrs != {want[0]}:
                r.violate(k2, MVP, line, 'the value passed for parameter %r (%s) is computed from the slice attribute(s) %s instead of .%s: the wrong bound is used'
                          % (p, n, sorted(attrs), want[0]))
    if not {'index', 'slice'} <= kinds:
        raise AnalysisError('could not identify the integer-index and the slice call of %s (found %s)' % (d['pyname'], sorted(kinds)))
    r.positive_control(bool(P.misaligned(['p_dst', 'stop', 'start'], ['dst', 'start', 'stop'])), 'swapped bounds at a pyx call')
    return r


# ----------------------------------------------------------------------------------------- DEF
def _assigned_in(stmt, names, top_only=False):
    out = set()
    for s in (stmt[1] if (top_only and stmt[0] == 'block') else list(P.c_walk_stmts(stmt))):
        if s[0] == 'expr':
            e = s[1]
            while e[0] == 'comma':
                e = e[2]
            todo = [s[1]]
            while todo:
                x = todo.pop()
                if x[0] == 'assign' and x[2][0] == 'id' and x[2][1] in names:
                    out.add(x[2][1])
                if x[0] == 'comma':
                    todo += [x[1], x[2]]
                if x[0] == 'un' and x[1] in ('++', '--') and x[2][0] == 'id' and x[2][1] in names:
                    out.add(x[2][1])
    return out


def _calls_in_stmt(s):
    out = []

    def rec(e):
        if not isinstance(e, tuple):
            return
        if e and e[0] == 'call':
            out.append(e)
        for x in e[1:]:
            if isinstance(x, tuple):
                rec(x)
            elif isinstance(x, list):
                for y in x:
                    rec(y)
    if s[0] in ('expr', 'return') and s[1] is not None:
        rec(s[1])
    elif s[0] == 'decl':
        for _, init, _ in s[1]:
            if init is not None:
                rec(init)
    return out


def _exc_of(call):
    for a in call[2]:
        a = P.strip_wrappers(a)
        if a[0] == 'id' and a[1].startswith('PyExc_'):
            return a[1]
    return None


def rule_def(ctx, M):
    r = Rule('C16-DEF', 'C definition of the slice helper: each if (have_<x>) defaults exactly <x> in its else branch; every error report is followed by return -1; the zero-step test guards a ValueError', floor=6)
    f = M.func
    bounds = [x for _, x in M.have]
    flags = {h: x for h, x in M.have}
    tested = set()
    for s in P.c_walk_stmts(M.body):
        if s[0] != 'if':
            continue
        c = P.strip_wrappers(s[1])
        if c[0] == 'id' and c[1] in flags:
            h, x = c[1], flags[c[1]]
            tested.add(h)
            key = 'if(%s)' % h
            r.inst(key, sample='if (%s) ... else defaults %s' % (h, sorted(_assigned_in(s[3], bounds)) if s[3] else None))
            then_set = _assigned_in(s[2], bounds)
            else_set = _assigned_in(s[3], bounds) if s[3] is not None else set()
            if s[3] is None or x not in else_set:
                r.violate(key + ':default', f.file, f.line, 'the else branch of `if (%s)` does not assign %s: when the bound is absent the dummy value passed by the caller (0) is used as a real bound' % (h, x))
            wrong = (then_set | else_set) - {x}
            if wrong:
                r.violate(key + ':other', f.file, f.line, '`if (%s)` assigns %s, which belongs to another flag: the presence flag of %s controls the clamping/defaulting of %s'
                          % (h, ', '.join(sorted(wrong)), x, ', '.join(sorted(wrong))))
    for h, x in M.have:
        if h not in tested:
            r.inst('if(%s)' % h)
            r.violate('if(%s):missing' % h, f.file, f.line, 'the flag %s is never tested by an `if (%s)`: an absent %s bound is not replaced by its default' % (h, h, x))
    # error report => return -1
    def blocks(s):
        if s[0] == 'block':
            yield s[1]
            for x in s[1]:
                yield from blocks(x)
        elif s[0] == 'if':
            for b in (s[2], s[3]):
                if b is not None:
                    if b[0] != 'block':
                        yield [b]
                    yield from blocks(b)
    nrep = 0
    for blk in blocks(M.body):
        for i, s in enumerate(blk):
            excs = [e for e in (_exc_of(c) for c in _calls_in_stmt(s)) if e]
            if not excs or s[0] == 'if':
                continue
            nrep += 1
            key = 'report:%s:%d' % (excs[0], nrep)
            nxt = blk[i + 1] if i + 1 < len(blk) else None
            r.inst(key, sample='%s then %s' % (excs[0], 'return ' + P.c_text(nxt[1]) if nxt and nxt[0] == 'return' and nxt[1] else nxt and nxt[0]))
            if not (nxt and nxt[0] == 'return' and nxt[1] is not None and P.c_text(P.strip_wrappers(nxt[1])) == '-1'):
                r.violate('report:%s:no-error-return' % excs[0], f.file, f.line,
                          'after reporting %s the helper does not `return -1`: the caller (declared `except -1` / tests `< 0`) continues with a half-initialised slice' % excs[0])
    if nrep < 2:
        raise AnalysisError('fewer than two error reports found in %s' % CNAME)
    # zero step => ValueError
    found = False
    for s in P.c_walk_stmts(M.body):
        if s[0] != 'if':
            continue
        direct = s[2][1] if s[2][0] == 'block' else [s[2]]
        excs = [_exc_of(c) for st in direct for c in _calls_in_stmt(st)]
        if 'PyExc_ValueError' not in excs:
            continue
        c = P.strip_wrappers(s[1])
        r.inst('zero-step', sample='if (%s) -> ValueError' % P.c_text(c))
        found = True
        ok = None
        if c[0] == 'bin' and c[1] in ('==', '!=', '<', '<=', '>', '>='):
            l, rr = P.strip_wrappers(c[2]), P.strip_wrappers(c[3])
            if (l == ('id', 'step') and rr == ('num', 0)) or (rr == ('id', 'step') and l == ('num', 0)):
                ok = c[1] == '=='
        elif c[0] == 'un' and c[1] == '!' and P.strip_wrappers(c[2]) == ('id', 'step'):
            ok = True
        if ok is None:
            raise AnalysisError('the guard of the ValueError report (%s) is not a comparison of step with 0' % P.c_text(c))
        if not ok:
            r.violate('zero-step', f.file, f.line, 'the ValueError ("Step may not be zero") is guarded by `%s` instead of step == 0: a zero step divides by zero / valid steps are rejected' % P.c_text(c))
    if not found:
        r.inst('zero-step')
        r.violate('zero-step:missing', f.file, f.line, 'the slice helper no longer raises ValueError for a zero step')
    pcb = P.parse_c_function_body('{ if (have_stop) { if (start < 0) start = 0; } else { start = 0; } }')
    s0 = pcb[1][0]
    r.positive_control(_assigned_in(s0[3], ['start', 'stop']) == {'start'}, 'else branch defaults another bound')
    return r


# ----------------------------------------------------------------------------------------- INDEX
def rule_index(ctx, M):
    r = Rule('C16-INDEX', 'integer indexing of memoryview slices: length added to negative indices before the bounds test (wraparound), pointer offset only after the bounds test '
             '(boundscheck), IndexError raised otherwise — SliceIndex template for all flag values and the !is_slice branch of the helper', floor=7)
    # (i) the helper with is_slice = 0 (memoryview objects always wrap and check)
    f = M.func
    if 'is_slice' not in M.cnames or 'start' not in M.cnames:
        raise AnalysisError('%s lost its is_slice/start parameters' % CNAME)
    fl = P.IndexFlow(CNAME, M.cparams, M.body, {}, {}, index_param='start', offset_is_access=True, preset={'is_slice': 0})
    fl.run(1, 1, 'is_slice=0')
    r.inst('helper:!is_slice', sample='%d paths, events %s' % (fl.paths, sorted(fl.events)))
    for kind, acc in sorted(fl.events):
        r.inst('helper:%s:%s' % (kind, acc))
    for k, msg in sorted(fl.problems.items()):
        r.violate('helper:%s' % k, f.file, f.line, 'integer index branch of %s: %s' % (CNAME, msg))
    if ('raw', 'offset') not in fl.events:
        raise AnalysisError('the integer-index branch of %s no longer computes `start * stride`' % CNAME)
    if ('raise', 'PyExc_IndexError') not in fl.events:
        r.violate('helper:no-IndexError', f.file, f.line, 'the integer-index branch of %s never raises IndexError' % CNAME)
    # (ii) SliceIndex template
    sec, text = M.section('SliceIndex')
    reads = Q.template_reads(text)
    conds = sorted({v for v, g, k, e in reads if k == 'cond'})
    substs = sorted({v for v, g, k, e in reads if k == 'subst'})
    if 'wraparound' not in conds or 'boundscheck' not in conds:
        raise AnalysisError('SliceIndex no longer tests {{if wraparound}} / {{if boundscheck}}')
    others = [c for c in conds if c not in ('wraparound', 'boundscheck')]
    if len(others) > 6:
        raise AnalysisError('SliceIndex has %d condition variables' % len(others))
    problems, events, n = {}, set(), 0
    for w, b in itertools.product((0, 1), repeat=2):
        for bits in itertools.product((False, True), repeat=len(others)):
            env = {v: v.upper() for v in substs}
            env['error_goto'] = 'return -1;'
            for v in substs:
                if re.search(r'\{\{\s*%s\s*\(\s*\)' % re.escape(v), text):
                    env[v] = (lambda name: (lambda: name.upper()))(v)
            env.update(dict(zip(others, bits)))
            env['wraparound'], env['boundscheck'] = w, b
            body = P.tempita_expand(text, env).strip()
            tree = P.parse_c_function_body(body)
            idxvar = env.get('idx')
            if not isinstance(idxvar, str):
                raise AnalysisError('SliceIndex no longer substitutes {{idx}}')
            fl = P.IndexFlow('SliceIndex', [('Py_ssize_t', idxvar)], tree, {}, {}, offset_is_access=True)
            fl.run(w, b, ' '.join('%s=%d' % (o, v) for o, v in zip(others, bits)))
            n += 1
            events |= {(w, b) + e for e in fl.events}
            for k, msg in fl.problems.items():
                problems.setdefault(k, msg)
            if ('raw', 'offset') not in fl.events:
                raise AnalysisError('an expansion of SliceIndex does not compute the element offset')
            if b and ('raise', 'PyExc_IndexError') not in fl.events:
                problems.setdefault('no-IndexError', 'with boundscheck on the SliceIndex template never raises IndexError (wraparound=%d boundscheck=%d)' % (w, b))
    r.inst('SliceIndex:expansions', sample='%d expansions over %s' % (n, ['wraparound', 'boundscheck'] + others))
    for e in sorted({e[2:] for e in events}):
        r.inst('SliceIndex:%s:%s' % e)
    for k, msg in sorted(problems.items()):
        r.violate('SliceIndex:%s' % k, MVC, sec.line, 'SliceIndex template: %s' % msg)
    pc = P.parse_c_function_body('{ Py_ssize_t t = IDX; if (unlikely(!__Pyx_is_valid_index(t, n))) { return -1; } DST.data += t * s; }')
    fl = P.IndexFlow('pc', [('Py_ssize_t', 'IDX')], pc, {}, {}, offset_is_access=True)
    fl.run(1, 1, '')
    r.positive_control(any(k.startswith('reject') for k in fl.problems), 'bounds test without wrap-around adjustment')
    return r


def run(ctx):
    M = Model(ctx)
    from ..rules import slicenorm, sC16
    # pending finding (FINDING_1 of strengthening session G3): sC16.rule_pyx_too_many (C16-PYXMANY) reports the unmodified tree - an index with more entries than
    # dimensions is not rejected by _unellipsify (silent extra dimensions, out-of-bounds writes beyond 8 slices); register it once the repair is in.
    # armed after the repair 6d19b8a0c (FINDING_1 of strengthening session H2, round 5): sC16.rule_merge_newaxis (C16-MERGE-NEW) reported the unmodified tree - MemoryViewSliceNode.merged_indices
    # pairs a second-level None / Ellipsis with one full slice of the first level: m[:, 1:][None] is compiled as m[None, 1:, :], m[...][..., i] (3-dim) as m[..., i, :].
    return [sC16.rule_merge_newaxis(ctx), rule_sig(ctx, M), rule_extern(ctx, M), rule_tpl(ctx, M), rule_ctx(ctx, M), rule_calls(ctx, M), rule_def(ctx, M), rule_index(ctx, M), slicenorm.rule_slice(ctx),
            sC16.rule_pyx_too_many(ctx), sC16.rule_ellipsis(ctx), sC16.rule_amount(ctx, M), sC16.rule_step(ctx), sC16.rule_store(ctx, M), sC16.rule_gen(ctx), sC16.rule_pyx_ellipsis(ctx), sC16.rule_pyx_slice(ctx), sC16.rule_pyx_index(ctx), sC16.rule_suboffset_axis(ctx, M), sC16.rule_pyx_use(ctx), sC16.rule_fields(ctx), sC16.rule_pack(ctx), sC16.rule_merge(ctx)]
